"""Pipeline specs: JSON-able descriptions of lifting-function trees, their real pykoop estimators,
their protocol tokens for the Lean driver, and PRNG-driven generators with a lifted-width cap."""
import itertools

import numpy as np
import sklearn.preprocessing
import sklearn.kernel_approximation

import pykoop

ALGEBRAIC = ('poly', 'bilinear', 'const', 'delay')
OPAQUE = ('rbf', 'kernel', 'sk', 'angle')


# ----------------------------------------------------------------------------- widths (for capping only)

def _n_poly(order, io, nx, nu):
    n = nx + nu
    sx = su = 0
    for d in range(2, order + 1):
        it = itertools.combinations(range(n), d) if io else itertools.combinations_with_replacement(range(n), d)
        for c in it:
            if all(i < nx for i in c):
                sx += 1
            else:
                su += 1
    return nx + sx, nu + su


def widths(spec, nx, nu):
    """Replica of the width arithmetic, used ONLY to cap generated pipelines (never compared)."""
    k = spec['k']
    if k == 'poly':
        return _n_poly(spec['order'], spec['io'], nx, nu)
    if k == 'bilinear':
        return nx, nu + nu * nx
    if k == 'const':
        return nx + 1, nu
    if k in ('rbf', 'kernel'):
        n = spec['n_out']
        return (nx + n, nu) if nu == 0 else (nx, nu + n)
    if k == 'sk':
        return nx, nu
    if k == 'angle':
        ax = sum(1 for f in spec['feat'] if f < nx)
        au = sum(1 for f in spec['feat'] if nx <= f < nx + nu)
        return nx + ax, nu + au
    if k == 'delay':
        return nx * (spec['dx'] + 1), nu * (spec['du'] + 1)
    if k == 'split':
        wa = (nx, 0)
        for s in spec['a']:
            wa = widths(s, *wa)
        wb = (0, nu)
        for s in spec['b']:
            wb = widths(s, *wb)
        return wa[0], wb[1]
    if k == 'pipe':
        w = (nx, nu)
        for s in spec['ss']:
            w = widths(s, *w)
        return w
    raise ValueError(k)


def loss(spec):
    k = spec['k']
    if k == 'delay':
        return max(spec['dx'], spec['du'])
    if k == 'split':
        return max(sum(loss(s) for s in spec['a']), sum(loss(s) for s in spec['b']))
    if k == 'pipe':
        return sum(loss(s) for s in spec['ss'])
    return 0


def kinds_in(spec, acc=None):
    acc = set() if acc is None else acc
    acc.add(spec['k'])
    for key in ('a', 'b', 'ss'):
        for s in spec.get(key, []):
            kinds_in(s, acc)
    return acc


def depth(spec):
    subs = [depth(s) for key in ('a', 'b', 'ss') for s in spec.get(key, [])]
    return 1 + (max(subs) if subs else 0)


def has_unequal_delay(spec):
    if spec['k'] == 'delay' and spec['dx'] != spec['du']:
        return True
    return any(has_unequal_delay(s) for key in ('a', 'b', 'ss') for s in spec.get(key, []))


# ----------------------------------------------------------------------------- real estimators

_SCALERS = {
    'standard': lambda: sklearn.preprocessing.StandardScaler(),
    'minmax': lambda: sklearn.preprocessing.MinMaxScaler(),
    'maxabs': lambda: sklearn.preprocessing.MaxAbsScaler(),
    'robust': lambda: sklearn.preprocessing.RobustScaler(),
}


def _centers(spec):
    c = spec.get('centers', 'grid')
    if c == 'grid':
        return pykoop.GridCenters(n_points_per_feature=spec.get('ppf', 2))
    if c == 'uniform':
        return pykoop.UniformRandomCenters(n_centers=spec['n'], random_state=spec.get('seed', 1))
    if c == 'qmc':
        import scipy.stats
        eng = {None: None, 'sobol': scipy.stats.qmc.Sobol, 'halton': scipy.stats.qmc.Halton}[spec.get('engine')]
        return pykoop.QmcCenters(n_centers=spec['n'], random_state=spec.get('seed', 1), **({} if eng is None else {'qmc': eng}))
    if c == 'data':
        r = np.random.RandomState(spec.get('seed', 1))
        return pykoop.DataCenters(centers=np.round(r.uniform(-2, 2, size=(spec['n'], spec['n_feat'])), 3))
    if c == 'gaussian':
        return pykoop.GaussianRandomCenters(n_centers=spec['n'], random_state=spec.get('seed', 1))
    raise ValueError(c)


def _kernel(spec):
    m = spec.get('method', 'rff')
    if m == 'rff':
        return pykoop.RandomFourierKernelApprox(n_components=spec['n'], random_state=spec.get('seed', 1),
                                                method=spec.get('rff_method', 'weight_offset'),
                                                kernel_or_ft=spec.get('kernel', 'gaussian'))
    if m == 'binning':
        return pykoop.RandomBinningKernelApprox(n_components=spec['n'], random_state=spec.get('seed', 1))
    if m == 'rbfsampler':
        return sklearn.kernel_approximation.RBFSampler(n_components=spec['n'], random_state=spec.get('seed', 1))
    if m == 'nystroem':
        return sklearn.kernel_approximation.Nystroem(n_components=spec['n'], random_state=spec.get('seed', 1))
    raise ValueError(m)


def _pform(spec):
    """a deterministic choice (from the spec itself) of the FORM in which scalar / index parameters are handed to the
    constructors: plain Python values, numpy scalar types, or (for index arrays) list / tuple / ndarray"""
    import json
    import zlib
    return zlib.crc32(json.dumps(spec, sort_keys=True, default=str).encode()) % 3


def _i(spec, v):
    return [int(v), np.int64(v), np.int32(v)][_pform(spec)]


def _f(spec, v):
    return v if v is None else [v, np.float64(v), np.array(float(v))[()]][_pform(spec)]


def build(spec):
    k = spec['k']
    if k == 'poly':
        return pykoop.PolynomialLiftingFn(order=_i(spec, spec['order']), interaction_only=[bool(spec['io']), np.bool_(spec['io']), bool(spec['io'])][_pform(spec)])
    if k == 'bilinear':
        return pykoop.BilinearInputLiftingFn()
    if k == 'const':
        return pykoop.ConstantLiftingFn()
    if k == 'rbf':
        return pykoop.RbfLiftingFn(rbf=spec.get('rbf', 'gaussian'), centers=_centers(spec),
                                   shape=_f(spec, spec.get('shape', 1)), offset=_f(spec, spec.get('offset', None)))
    if k == 'kernel':
        return pykoop.KernelApproxLiftingFn(kernel_approx=_kernel(spec))
    if k == 'sk':
        return pykoop.SkLearnLiftingFn(_SCALERS[spec['scaler']]())
    if k == 'angle':
        feat = [np.array(spec['feat'], dtype=int), np.array(spec['feat'], dtype=np.int32),
                np.array(spec['feat'], dtype=int)[::1].copy()][_pform(spec)]
        return pykoop.AnglePreprocessor(angle_features=feat, unwrap_inverse=spec.get('unwrap', False))
    if k == 'delay':
        return pykoop.DelayLiftingFn(n_delays_state=_i(spec, spec['dx']), n_delays_input=_i(spec, spec['du']))
    if k == 'split':
        return pykoop.SplitPipeline(
            lifting_functions_state=[(f's{i}', build(s)) for i, s in enumerate(spec['a'])] or None,
            lifting_functions_input=[(f'i{i}', build(s)) for i, s in enumerate(spec['b'])] or None)
    if k == 'pipe':
        return pykoop.KoopmanPipeline(
            lifting_functions=[(f'p{i}', build(s)) for i, s in enumerate(spec['ss'])] or None,
            regressor=pykoop.DataRegressor())
    raise ValueError(k)


def fit(spec, X, n_inputs, episode_feature):
    """Fit the real estimator. A `pipe` spec at top level uses fit_transformers (no regressor needed);
    nested pipes carry a DataRegressor because fit_transform calls fit."""
    est = build(spec)
    n_inputs, episode_feature = arg_forms(spec, n_inputs, episode_feature)
    if spec['k'] == 'pipe':
        est.fit_transformers(X, n_inputs=n_inputs, episode_feature=episode_feature)
    else:
        est.fit(X, n_inputs=n_inputs, episode_feature=episode_feature)
    return est


def arg_forms(spec, n_inputs, episode_feature):
    """fit arguments in another valid form: numpy integer / numpy bool (what a reduction such as `X[:, 0].max() > 0`
    or `mask.sum()` returns)"""
    f = _pform(spec)
    return [int(n_inputs), np.int64(n_inputs), int(n_inputs)][f], [bool(episode_feature), np.bool_(episode_feature), bool(episode_feature)][(f + 1) % 3]


def walk(spec, est, out=None):
    """Pre-order list of (spec, fitted estimator) pairs."""
    out = [] if out is None else out
    out.append((spec, est))
    k = spec['k']
    if k == 'split':
        for s, (_, e) in zip(spec['a'], est.lifting_functions_state_):
            walk(s, e, out)
        for s, (_, e) in zip(spec['b'], est.lifting_functions_input_):
            walk(s, e, out)
    elif k == 'pipe':
        for s, (_, e) in zip(spec['ss'], est.lifting_functions_):
            walk(s, e, out)
    return out


def tokens(spec, est=None, registry=None):
    """Protocol tokens. With a fitted estimator, opaque stages get ids (pre-order) and their fitted
    feature counts; `registry[id] = fitted stage`."""
    if registry is None:
        registry = {}
    counter = [0]

    def go(sp, e):
        my = counter[0]
        counter[0] += 1
        k = sp['k']
        if k == 'poly':
            return f"poly {sp['order']} {1 if sp['io'] else 0}"
        if k == 'bilinear':
            return 'bilinear'
        if k == 'const':
            return 'const'
        if k == 'rbf':
            n = e.centers_.n_centers_ if e is not None else sp['n_out']
            registry[my] = e
            return f'rbf {my} {n}'
        if k == 'kernel':
            n = e.n_features_kernel_ if e is not None else sp['n_out']
            registry[my] = e
            return f'kernel {my} {n}'
        if k == 'sk':
            registry[my] = e
            return f'sk {my}'
        if k == 'angle':
            return f"angle {len(sp['feat'])} " + ' '.join(str(f) for f in sp['feat'])
        if k == 'delay':
            return f"delay {sp['dx']} {sp['du']}"
        if k == 'split':
            ea = [x for _, x in e.lifting_functions_state_] if e is not None else [None] * len(sp['a'])
            eb = [x for _, x in e.lifting_functions_input_] if e is not None else [None] * len(sp['b'])
            ta = ' '.join(go(s, x) for s, x in zip(sp['a'], ea))
            tb = ' '.join(go(s, x) for s, x in zip(sp['b'], eb))
            return f"split {len(sp['a'])} {ta} {len(sp['b'])} {tb}"
        if k == 'pipe':
            es = [x for _, x in e.lifting_functions_] if e is not None else [None] * len(sp['ss'])
            ts = ' '.join(go(s, x) for s, x in zip(sp['ss'], es))
            return f"pipe {len(sp['ss'])} {ts}"
        raise ValueError(k)

    return ' '.join(go(spec, est).split()), registry


# ----------------------------------------------------------------------------- generators

def gen_row_stage(rng, kinds, nx, nu):
    k = rng.choice(kinds)
    if k == 'poly':
        return {'k': 'poly', 'order': rng.choice([1, 2, 2, 3]), 'io': rng.random() < 0.3}
    if k == 'bilinear':
        return {'k': 'bilinear'}
    if k == 'const':
        return {'k': 'const'}
    if k == 'delay':
        dx, du = rng.randint(0, 3), rng.randint(0, 3)
        if rng.random() < 0.35:
            du = dx
        return {'k': 'delay', 'dx': dx, 'du': du}
    if k == 'sk':
        return {'k': 'sk', 'scaler': rng.choice(sorted(_SCALERS))}
    if k == 'angle':
        n = nx + nu
        m = rng.randint(0, min(2, n))
        feat = rng.sample(range(n), m)          # any order is valid (the documentation only asks for indices)
        if rng.random() < 0.5:
            feat = sorted(feat)
        return {'k': 'angle', 'feat': feat}
    if k == 'rbf':
        c = rng.choice(['grid', 'uniform', 'qmc', 'data'] if nx + nu <= 5 else ['uniform', 'qmc', 'data'])
        sp = {'k': 'rbf', 'centers': c, 'rbf': rng.choice(['gaussian', 'exponential', 'multiquadric',
                                                             'inverse_quadratic', 'inverse_multiquadric',
                                                             'thin_plate', 'bump_function']),
              'shape': rng.choice([0.5, 1, 2]), 'seed': rng.randint(0, 99)}
        if c == 'grid':
            sp['ppf'] = 2 if nx + nu <= 3 else 1
            sp['n_out'] = sp['ppf'] ** (nx + nu)
        elif c == 'data':
            sp['n'] = rng.choice([1, 3, 5])
            sp['n_feat'] = nx + nu
            sp['n_out'] = sp['n']
        else:
            sp['n'] = rng.choice([1, 2, 4])
            if c == 'qmc':
                # every engine, and sample counts that are not powers of two (Sobol only warns about them)
                sp['engine'] = rng.choice([None, 'sobol', 'halton'])
                sp['n'] = rng.choice([1, 2, 3, 4, 5])
            sp['n_out'] = sp['n']
        return sp
    if k == 'kernel':
        m = rng.choice(['rff', 'rff', 'binning', 'rbfsampler', 'nystroem'])
        n = rng.choice([1, 2, 3])
        if m == 'nystroem' and rng.random() < 0.5:
            n = 100         # the scikit-learn default: more components than a short record has samples (capped at fit)
        sp = {'k': 'kernel', 'method': m, 'n': n, 'seed': rng.randint(0, 99)}
        if m == 'rff':
            sp['rff_method'] = rng.choice(['weight_offset', 'weight_only'])
            sp['kernel'] = rng.choice(['gaussian', 'laplacian', 'cauchy'])
            sp['n_out'] = n if sp['rff_method'] == 'weight_offset' else 2 * n
        else:
            sp['n_out'] = n * 8 if m == 'binning' else (min(n, 12) if m == 'nystroem' else n)
        return sp
    raise ValueError(k)


def gen_chain(rng, kinds, nx, nu, depth_left, max_len, cap, in_branch=None):
    """A list of stages applicable to widths (nx, nu); returns (list, widths)."""
    out = []
    w = (nx, nu)
    n = rng.randint(0 if in_branch else 1, max_len)
    for _ in range(n):
        for _try in range(6):
            if depth_left > 0 and rng.random() < 0.3 and in_branch is None and w[1] >= 0:
                s = gen_composite(rng, kinds, w[0], w[1], depth_left - 1, max_len, cap)
            elif depth_left > 0 and rng.random() < 0.15:
                ss, _ = gen_chain(rng, kinds, w[0], w[1], depth_left - 1, 2, cap, in_branch)
                s = {'k': 'pipe', 'ss': ss}
            else:
                ks = list(kinds)
                if in_branch == 'input':
                    ks = [k for k in ks if k != 'const']       # ConstantLiftingFn in an input branch raises
                if w[1] == 0:
                    ks = [k for k in ks if k != 'bilinear'] or ks
                s = gen_row_stage(rng, ks, w[0], w[1])
            try:
                w2 = widths(s, *w)
            except Exception:
                continue
            if sum(w2) <= cap and sum(w2) > 0:
                out.append(s)
                w = w2
                break
    return out, w


def gen_composite(rng, kinds, nx, nu, depth_left, max_len, cap):
    a, _ = gen_chain(rng, kinds, nx, 0, depth_left, max_len, cap, 'state')
    if nu == 0:
        b = []
    else:
        b, _ = gen_chain(rng, kinds, 0, nu, depth_left, max_len, cap, 'input')
    return {'k': 'split', 'a': a, 'b': b}


def gen_spec(rng, kinds, nx, nu, max_depth=2, max_len=3, cap=40):
    r = rng.random()
    if r < 0.2:
        for _ in range(10):
            s = gen_row_stage(rng, list(kinds), nx, nu)
            if 0 < sum(widths(s, nx, nu)) <= cap:
                return s
    if r < 0.35:
        return gen_composite(rng, kinds, nx, nu, max_depth - 1, max_len, cap)
    ss, _ = gen_chain(rng, kinds, nx, nu, max_depth - 1, max_len, cap)
    return {'k': 'pipe', 'ss': ss}


def gen_layout(rng, min_len, n_eps=None, extra=4, ep=True):
    """Episode layout: list of (label, length), and a row order (list of (label, t)) that keeps each
    episode's own time order but may interleave episodes and list blocks in any label order."""
    if not ep:
        n = min_len + rng.randint(0, extra)
        return [(0, n)], [(0, t) for t in range(n)]
    n_eps = n_eps or rng.randint(1, 4)
    labels = rng.sample(range(0, max(9, 3 * n_eps)), n_eps)
    if rng.random() < 0.15:
        # labels are arbitrary non-negative integers: run numbers, identifiers, time stamps
        big = rng.choice([65536, 70000, 10 ** 6])
        keep_small = rng.random() < 0.5        # mixed small and large labels, or all large
        labels = [l if (keep_small and j == 0) else l + big * rng.randint(1, 3) for j, l in enumerate(labels)]
    eps = [(l, min_len + rng.randint(0, extra)) for l in labels]
    style = rng.choice(['blocks', 'blocks', 'interleaved'])
    if style == 'blocks':
        order = [(l, t) for l, n in eps for t in range(n)]
    else:
        cursors = {l: 0 for l, _ in eps}
        remaining = {l: n for l, n in eps}
        order = []
        while any(remaining.values()):
            l = rng.choice([l for l in remaining if remaining[l] > 0])
            order.append((l, cursors[l]))
            cursors[l] += 1
            remaining[l] -= 1
    return eps, order


def tagged_matrix(rng, order, width, lo=2, hi=12):
    """Tagged integer data: one row per (label, t), cells small distinct-ish integers."""
    vals = list(range(lo, hi + 1))
    rows = []
    for (l, t) in order:
        rows.append([l] + [rng.choice(vals) for _ in range(width)])
    return rows


def mat_tokens(rows, ep):
    """rows: list of [label?, cells...] (label present iff ep) -> protocol 'R C l c.. l c..'"""
    if ep:
        body = [(int(r[0]), r[1:]) for r in rows]
    else:
        body = [(0, r) for r in rows]
    c = len(body[0][1]) if body else 0
    return f'{len(body)} {c} ' + ' '.join(f'{l} ' + ' '.join(str(v) for v in cells) for l, cells in body)


def parse_mat(tokens_list, pos=0):
    """Parse 'R C l c...' from a token list; returns (rows as (label, [tokens]), new pos)."""
    r = int(tokens_list[pos])
    c = int(tokens_list[pos + 1])
    pos += 2
    rows = []
    for _ in range(r):
        l = int(tokens_list[pos])
        rows.append((l, tokens_list[pos + 1:pos + 1 + c]))
        pos += 1 + c
    return rows, pos
