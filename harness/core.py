"""Shared machinery of every check: Lean build + axiom audit (proof obligations), the model driver,
verdict logic (correspondence break -> failing-input search -> VIOLATION / no-failing-input-found),
known findings, evidence files.

Exit codes: 0 held, 1 violation, 2 infrastructure failure (never reported as a violation).
"""
import fcntl
import hashlib
import json
import os
import random
import re
import subprocess
import sys
import time
import traceback

VERIF = os.path.dirname(os.path.dirname(os.path.abspath(__file__)))
LEAN = os.path.join(VERIF, 'lean')
CACHE = os.path.join(VERIF, '.cache')
DRIVER = os.path.join(LEAN, '.lake', 'build', 'bin', 'pkdriver')
ALLOWED_AXIOMS = {'propext', 'Classical.choice', 'Quot.sound'}
FORBIDDEN = re.compile(r'\bsorry\b|\badmit\b|^\s*axiom\s|native_decide|bv_decide|implemented_by|\bunsafe\s|maxHeartbeats\s+0')

TRUSTED_BASE = [
    'Lean 4.33 kernel; axioms accepted in property theorems: propext, Classical.choice, Quot.sound '
    '(audited with #print axioms on every run; no sorry / native_decide / bv_decide / user axioms)',
    'Mathlib v4.33 (Matrix, PosDef, trace, real/complex numbers) for the linear-algebra theorems',
    'the hand-written Lean model is tied to /repo by this correspondence check (differential testing '
    'on generated cases; coverage reported below) - not by proof',
    'CPython, numpy, scipy, scikit-learn, PICOS/cvxopt behave as documented (parameters of the model)',
]


class Infra(Exception):
    """Infrastructure failure: exit 2, never a violation."""


def sh(cmd, cwd=None, timeout=3600, inp=None):
    p = subprocess.run(cmd, cwd=cwd, shell=isinstance(cmd, str), capture_output=True, text=True,
                       timeout=timeout, input=inp)
    return p.returncode, p.stdout, p.stderr


# --------------------------------------------------------------------------- Lean side

def lean_source_hash():
    h = hashlib.sha256()
    for root, dirs, files in os.walk(LEAN):
        dirs[:] = sorted(d for d in dirs if d not in ('.lake',))
        for f in sorted(files):
            if f.endswith('.lean') or f in ('lakefile.toml',):
                p = os.path.join(root, f)
                h.update(p.encode())
                h.update(open(p, 'rb').read())
    return h.hexdigest()[:16]


def strip_comments(src):
    # remove /- ... -/ (nested) and -- ... comments
    out, i, depth = [], 0, 0
    while i < len(src):
        if src.startswith('/-', i):
            depth += 1
            i += 2
        elif depth and src.startswith('-/', i):
            depth -= 1
            i += 2
        elif depth:
            i += 1
        elif src.startswith('--', i):
            while i < len(src) and src[i] != '\n':
                i += 1
        else:
            out.append(src[i])
            i += 1
    return ''.join(out)


def grep_forbidden():
    hits = []
    for root, dirs, files in os.walk(LEAN):
        dirs[:] = [d for d in dirs if d != '.lake']
        for f in files:
            if f.endswith('.lean'):
                p = os.path.join(root, f)
                body = strip_comments(open(p).read())
                for n, line in enumerate(body.split('\n'), 1):
                    if FORBIDDEN.search(line):
                        hits.append(f'{os.path.relpath(p, LEAN)}: {line.strip()[:100]}')
    return hits


def lean_build(clean=False):
    """lake build under a file lock. Returns (ok, log)."""
    os.makedirs(CACHE, exist_ok=True)
    with open(os.path.join(CACHE, 'build.lock'), 'w') as lk:
        fcntl.flock(lk, fcntl.LOCK_EX)
        if clean:
            sh('rm -rf .lake/build', cwd=LEAN)
        rc, out, err = sh(['lake', 'build'], cwd=LEAN, timeout=3600)
        return rc == 0, out + err


def audit(module, theorems):
    """#print axioms for each theorem of a property module. Cached by source hash.
    Returns dict theorem -> list of axioms, or raises KeyError-like info in dict under '_error'."""
    os.makedirs(CACHE, exist_ok=True)
    key = lean_source_hash()
    cpath = os.path.join(CACHE, f'audit-{module}-{key}.json')
    if os.path.exists(cpath):
        return json.load(open(cpath))
    src = f'import {module}\n' + ''.join(f'#print axioms {t}\n' for t in theorems)
    apath = os.path.join(CACHE, f'Audit_{module.replace(".", "_")}.lean')
    open(apath, 'w').write(src)
    with open(os.path.join(CACHE, 'build.lock'), 'w') as lk:
        fcntl.flock(lk, fcntl.LOCK_EX)
        rc, out, err = sh(['lake', 'env', 'lean', apath], cwd=LEAN, timeout=1800)
    res = {}
    text = out + err
    # "'Pk.foo' depends on axioms: [propext, Quot.sound]" or "'Pk.foo' does not depend on any axioms"
    for m in re.finditer(r"'([^']+)' depends on axioms: \[([^\]]*)\]", text, re.S):
        res[m.group(1)] = [a.strip() for a in m.group(2).replace('\n', ' ').split(',') if a.strip()]
    for m in re.finditer(r"'([^']+)' does not depend on any axioms", text):
        res[m.group(1)] = []
    if rc != 0:
        res['_error'] = text[-2000:]
    else:
        json.dump(res, open(cpath, 'w'))
    return res


class Driver:
    """Batch interface to the compiled model driver."""

    def __init__(self):
        if not os.path.exists(DRIVER):
            raise Infra('model driver not built: ' + DRIVER)

    def ask(self, lines, timeout=600):
        if not lines:
            return []
        for l in lines:
            assert '\n' not in l
        try:
            p = subprocess.run([DRIVER], input='\n'.join(lines) + '\n', capture_output=True, text=True,
                               timeout=timeout)
        except subprocess.TimeoutExpired:
            raise Infra('model driver timed out')
        out = p.stdout.split('\n')
        if out and out[-1] == '':
            out.pop()
        if p.returncode != 0 or len(out) != len(lines):
            raise Infra(f'model driver failed rc={p.returncode} got {len(out)} replies for {len(lines)} '
                        f'requests: {p.stderr[-500:]}')
        return out


def run_la(script, lines, timeout=1800):
    """Run a Mathlib-importing driver (interpreted: lake env lean --run)."""
    with open(os.path.join(CACHE, 'build.lock'), 'w') as lk:
        fcntl.flock(lk, fcntl.LOCK_SH)
        p = subprocess.run(['lake', 'env', 'lean', '--run', script], cwd=LEAN, input='\n'.join(lines) + '\n',
                           capture_output=True, text=True, timeout=timeout)
    out = p.stdout.split('\n')
    if out and out[-1] == '':
        out.pop()
    if p.returncode != 0 or len(out) != len(lines):
        raise Infra(f'LA driver failed rc={p.returncode} replies={len(out)}/{len(lines)}: {p.stderr[-800:]} {p.stdout[-300:]}')
    return out


# --------------------------------------------------------------------------- findings

def load_findings():
    p = os.path.join(VERIF, 'known_findings.json')
    if not os.path.exists(p):
        return []
    return json.load(open(p))['findings']


def match_finding(prop, tags, findings):
    """tags: dict describing a failing case (small set of discrete fields). A finding matches when all
    its `match` fields equal the tags (ranges as '>=n')."""
    for f in findings:
        if f['property'] != prop or f.get('status') != 'known':
            continue
        ok = True
        for k, v in f['match'].items():
            if k not in tags:
                ok = False
                break
            t = tags[k]
            if isinstance(v, str) and v.startswith('>='):
                ok = ok and isinstance(t, (int, float)) and t >= float(v[2:])
            elif isinstance(v, list):
                ok = ok and t in v
            else:
                ok = ok and t == v
            if not ok:
                break
        if ok:
            return f
    return None


# --------------------------------------------------------------------------- check context

class Failure:
    """A property failure demonstrated on the real implementation."""

    def __init__(self, what, case, tags=None, detail=None):
        self.what = what
        self.case = case
        self.tags = tags or {}
        self.detail = detail


class Mismatch:
    """Model and implementation disagree on a case (correspondence break)."""

    def __init__(self, what, case, impl, model):
        self.what = what
        self.case = case
        self.impl = impl
        self.model = model


class Ctx:
    def __init__(self, prop, tier, seed):
        self.prop = prop
        self.tier = tier
        self.seed = seed
        self.rng = random.Random(f'{prop}-{seed}')
        self.t0 = time.time()
        self.driver = None
        self.obligations = []          # (theorem, axioms or None)
        self.proof_breaks = []         # strings
        self.mismatches = []
        self.observing = False
        self.failures = []
        self.known_hits = {}
        self.evaluations = 0
        self.nontrivial = set()
        self.samples = []
        self.dist = {}
        self.notes = []
        self.findings = load_findings()
        self.explanation = ''
        self.rule = ''
        self.assumptions = []
        self.extra = {}
        self.scale = 1 if tier == 'quick' else 12

    def count(self, key, n=1):
        self.dist[key] = self.dist.get(key, 0) + n

    def record_case(self, case, nontrivial=True, sample_every=None):
        self.evaluations += 1
        if nontrivial:
            self.nontrivial.add(hashlib.sha1(json.dumps(case, sort_keys=True, default=str).encode()).hexdigest())
        if len(self.samples) < 3:
            self.samples.append(case)

    def n(self, quick, thorough=None):
        return quick if self.tier == 'quick' else (thorough if thorough is not None else quick * 12)

    # -- proof obligations
    def proof_obligations(self, module, theorems):
        """Build must have succeeded (setup or here); audit axioms of each theorem."""
        self.observing = True       # from here on the harness observes the implementation
        ok, log = lean_build(clean=False)
        if not ok:
            self.proof_breaks.append('lake build failed: ' + log[-1500:])
            for t in theorems:
                self.obligations.append((t, None))
            return
        hits = grep_forbidden()
        if hits:
            self.proof_breaks.append('forbidden constructs in Lean sources: ' + '; '.join(hits[:5]))
        res = audit(module, theorems)
        if '_error' in res:
            self.proof_breaks.append(f'audit of {module} failed: ' + res['_error'][-800:])
        for t in theorems:
            ax = res.get(t)
            self.obligations.append((t, ax))
            if ax is None:
                self.proof_breaks.append(f'theorem {t} not found / not checked')
            elif not set(ax) <= ALLOWED_AXIOMS:
                self.proof_breaks.append(f'theorem {t} depends on axioms {sorted(set(ax) - ALLOWED_AXIOMS)}')
        if self.tier == 'thorough':
            self.leanchecker(module)

    def leanchecker(self, module):
        key = lean_source_hash()
        cpath = os.path.join(CACHE, f'leanchecker-{module}-{key}.ok')
        if os.path.exists(cpath):
            self.notes.append(f'leanchecker {module}: ok (cached for this source hash)')
            return
        try:
            rc, out, err = sh(['lake', 'env', 'leanchecker', module], cwd=LEAN, timeout=3000)
        except subprocess.TimeoutExpired:
            self.notes.append(f'leanchecker {module}: timed out (not counted)')
            return
        if rc == 0:
            open(cpath, 'w').write('ok')
            self.notes.append(f'leanchecker {module}: ok')
        else:
            self.proof_breaks.append(f'leanchecker rejected {module}: {(out + err)[-600:]}')

    def attempt(self, name, fn):
        """run one section of a check; if it cannot be evaluated on this tree (e.g. a private signature the section calls
        has changed) that is a broken correspondence, and the remaining sections - the oracles in particular - still run"""
        try:
            return fn()
        except Infra:
            raise
        except Exception as ex:
            self.mismatch(f'{name}: could not be evaluated on this tree ({type(ex).__name__}: {str(ex)[:200]})',
                          {'section': name}, None, None)
            return None

    # -- deterministic re-execution of one oracle call: the PRNG state in front of the call is stored in the case
    def snap(self):
        import base64, pickle
        return base64.b64encode(pickle.dumps(self.rng.getstate())).decode()

    def restore(self, text):
        import base64, pickle
        self.rng.setstate(pickle.loads(base64.b64decode(text)))

    def get_driver(self):
        if self.driver is None:
            self.driver = Driver()
        return self.driver

    # -- results
    def mismatch(self, what, case, impl, model):
        self.mismatches.append(Mismatch(what, case, impl, model))

    def fail(self, what, case, tags=None, detail=None):
        """A demonstrated failure of the property on the implementation."""
        f = match_finding(self.prop, tags or {}, self.findings)
        if f is not None:
            self.known_hits.setdefault(f['id'], f)
            return
        self.failures.append(Failure(what, case, tags, detail))

    def finish(self, level, search=None):
        """Decide the verdict, write evidence, print lines, return exit code."""
        broke = bool(self.proof_breaks or self.mismatches)
        if broke and not self.failures and search is not None:
            # failing-input search on the implementation
            try:
                search(self)
            except Infra:
                raise
            except Exception:
                self.notes.append('search raised: ' + traceback.format_exc()[-800:])
        for f in self.known_hits.values():
            print(f"KNOWN-FINDING: property={self.prop} {f['what']}")
        rc = 0
        replay = None
        if self.failures:
            f = self.failures[0]
            replay = self.write_replay({'kind': 'failing-input', 'what': f.what, 'case': f.case,
                                        'tags': f.tags, 'detail': f.detail,
                                        'proof_breaks': self.proof_breaks,
                                        'n_failures': len(self.failures)})
            print(f'VIOLATION property={self.prop} replay={replay}')
            rc = 1
        elif broke:
            m = self.mismatches[0] if self.mismatches else None
            replay = self.write_replay({'kind': 'no-failing-input-found',
                                        'broken': self.proof_breaks or [f'correspondence {m.what}'],
                                        'first_disagreement': None if m is None else
                                        {'what': m.what, 'case': m.case, 'impl': m.impl, 'model': m.model},
                                        'n_disagreements': len(self.mismatches)})
            print(f'VIOLATION property={self.prop} replay={replay} no-failing-input-found')
            rc = 1
        self.write_evidence(level, rc)
        return rc

    def write_replay(self, obj):
        d = os.path.join(VERIF, 'replays')
        os.makedirs(d, exist_ok=True)
        p = os.path.join(d, f'{self.prop}-{self.seed}-{int(time.time())}.json')
        obj['property'] = self.prop
        obj['seed'] = self.seed
        obj['tier'] = self.tier
        json.dump(obj, open(p, 'w'), indent=1, default=str)
        return p

    def write_evidence(self, level, rc):
        discharged = sum(1 for t, ax in self.obligations if ax is not None and set(ax) <= ALLOWED_AXIOMS)
        cov = {
            'evaluations': self.evaluations,
            'distinct_nontrivial': len(self.nontrivial),
            'rule': self.rule,
            'samples': self.samples[:3] if self.samples else [{'note': 'no generated cases'}],
            'obligations': len(self.obligations),
            'discharged': discharged if not self.proof_breaks else min(discharged, max(0, len(self.obligations) - 1)),
            'theorems': [{'name': t, 'axioms': ax} for t, ax in self.obligations],
            'checker_cmd': 'cd /verif/lean && lake build && lake env lean <audit file with #print axioms for each theorem>'
                           + (' && lake env leanchecker <property module>' if self.tier == 'thorough' else ''),
            'trusted_base': TRUSTED_BASE,
            'traces_validated_against_impl': self.evaluations,
            'disagreements_checked': len(self.mismatches),
            'distribution': self.dist,
            'explanation': self.explanation,
            'known_findings_hit': sorted(self.known_hits),
            'notes': self.notes,
            'lean_source_hash': lean_source_hash(),
        }
        cov.update(self.extra)
        ev = {
            'property_id': self.prop,
            'tier': self.tier,
            'seed': self.seed,
            'level': level,
            'coverage': cov,
            'assumptions': self.assumptions,
            'wall_s': round(time.time() - self.t0, 2),
            'violations': 0 if rc == 0 else max(1, len(self.failures)),
        }
        os.makedirs(os.path.join(VERIF, 'evidence'), exist_ok=True)
        json.dump(ev, open(os.path.join(VERIF, 'evidence', f'{self.prop}.json'), 'w'), indent=1, default=str)
