#!/bin/sh
# Build the Lean model, theorems and driver from files on disk (offline), and warm the axiom-audit cache.
cd "$(dirname "$0")" || exit 2
set -e
(cd lean && lake build 2>&1 | tail -5)
test -x lean/.lake/build/bin/pkdriver
/venv/bin/python -m harness.warm
