import Mathlib.LinearAlgebra.Matrix.PosDef
import Mathlib.Tactic.Ring
import Mathlib.Tactic.Linarith

/-! Design-phase feasibility experiment (not part of the framework):
the spectral-radius LMI of `LmiEdmdSpectralRadiusConstr` implies a strict
Lyapunov decrease, by evaluating the LMI's quadratic form at `(ρ•x, -A x)`. -/

open Matrix

variable {n : Type} [Fintype n] [DecidableEq n]

def specLMI (ρ : ℝ) (P A : Matrix n n ℝ) : Matrix (n ⊕ n) (n ⊕ n) ℝ :=
  fromBlocks (ρ • P) (Aᵀ * P) (P * A) (ρ • P)

def V (P : Matrix n n ℝ) (x : n → ℝ) : ℝ := x ⬝ᵥ (P *ᵥ x)

omit [DecidableEq n] in
theorem lyap_step (ρ : ℝ) (hρ : 0 < ρ) (P A : Matrix n n ℝ)
    (h : (specLMI ρ P A).PosDef) (x : n → ℝ) (hx : x ≠ 0) :
    V P (A *ᵥ x) < ρ^2 * V P x := by
  have hz : (Sum.elim (ρ • x) (-(A *ᵥ x)) : n ⊕ n → ℝ) ≠ 0 := by
    intro h0
    apply hx
    funext i
    have := congrFun h0 (Sum.inl i)
    simp at this
    rcases this with h1 | h1
    · exact absurd h1 hρ.ne'
    · exact h1
  have key := h.dotProduct_mulVec_pos hz
  simp only [specLMI, star_trivial, fromBlocks_mulVec, sumElim_dotProduct_sumElim,
    Sum.elim_comp_inl, Sum.elim_comp_inr] at key
  have e1 : x ⬝ᵥ ((Aᵀ * P) *ᵥ (A *ᵥ x)) = V P (A *ᵥ x) := by
    unfold V
    rw [← mulVec_mulVec, dotProduct_mulVec, vecMul_transpose]
  have e2 : (A *ᵥ x) ⬝ᵥ ((P * A) *ᵥ x) = V P (A *ᵥ x) := by
    unfold V
    rw [← mulVec_mulVec]
  simp only [mulVec_smul, smul_mulVec, mulVec_neg, dotProduct_add, smul_dotProduct,
    dotProduct_smul, neg_dotProduct, dotProduct_neg, e1, e2, smul_eq_mul] at key
  have hV : x ⬝ᵥ (P *ᵥ x) = V P x := rfl
  rw [hV] at key
  have hV2 : (A *ᵥ x) ⬝ᵥ (P *ᵥ (A *ᵥ x)) = V P (A *ᵥ x) := rfl
  rw [hV2] at key
  have : 0 < ρ * (ρ^2 * V P x - V P (A *ᵥ x)) := by nlinarith [key]
  have h2 := (mul_pos_iff_of_pos_left hρ).mp this
  linarith

#print axioms lyap_step
