import Mathlib.LinearAlgebra.Matrix.PosDef
import Mathlib.Tactic.Ring
import Mathlib.Tactic.Linarith
import Mathlib.Tactic.FieldSimp

/-! Design-phase feasibility experiment (not part of the framework):
inverse-free core of the bounded-real lemma for the H-infinity LMI of
`LmiEdmdHinfReg._create_problem_a/_b`. -/
open Matrix

variable {n m k : Type} [Fintype n] [Fintype m] [Fintype k] [DecidableEq n] [DecidableEq m] [DecidableEq k]

/-- [[P, AP, B, 0],[PᵀAᵀ, P, 0, PCᵀ],[Bᵀ, 0, γI, Dᵀ],[0, CPᵀ, D, γI]] -/
def brlLMI (P A : Matrix n n ℝ) (B : Matrix n m ℝ) (C : Matrix k n ℝ) (D : Matrix k m ℝ) (γ : ℝ) :
    Matrix ((n ⊕ n) ⊕ (m ⊕ k)) ((n ⊕ n) ⊕ (m ⊕ k)) ℝ :=
  fromBlocks
    (fromBlocks P (A * P) (Pᵀ * Aᵀ) P)
    (fromBlocks B 0 0 (P * Cᵀ))
    (fromBlocks Bᵀ 0 0 (C * Pᵀ))
    (fromBlocks (γ • (1 : Matrix m m ℝ)) Dᵀ D (γ • (1 : Matrix k k ℝ)))

theorem brl_core (P A : Matrix n n ℝ) (B : Matrix n m ℝ) (C : Matrix k n ℝ) (D : Matrix k m ℝ)
    (γ : ℝ) (hγ : 0 < γ) (hP : Pᵀ = P) (h : (brlLMI P A B C D γ).PosDef)
    (η ξ : n → ℝ) (u : m → ℝ) (hne : ξ ≠ 0 ∨ u ≠ 0 ∨ η ≠ 0) :
    let x := P *ᵥ ξ
    let xp := A *ᵥ x + B *ᵥ u
    let y := C *ᵥ x + D *ᵥ u
    2 * (η ⬝ᵥ xp) - η ⬝ᵥ (P *ᵥ η) < ξ ⬝ᵥ (P *ᵥ ξ) + γ * (u ⬝ᵥ u) - γ⁻¹ * (y ⬝ᵥ y) := by
  intro x xp y
  let z : (n ⊕ n) ⊕ (m ⊕ k) → ℝ := Sum.elim (Sum.elim (-η) ξ) (Sum.elim u (-(γ⁻¹ • y)))
  have hz : z ≠ 0 := by
    intro h0
    have h1 : ξ = 0 := by
      funext i; simpa [z] using congrFun h0 (Sum.inl (Sum.inr i))
    have h2 : u = 0 := by
      funext i; simpa [z] using congrFun h0 (Sum.inr (Sum.inl i))
    have h3 : η = 0 := by
      funext i; simpa [z] using congrFun h0 (Sum.inl (Sum.inl i))
    rcases hne with h | h | h
    · exact h h1
    · exact h h2
    · exact h h3
  have key := h.dotProduct_mulVec_pos hz
  simp only [brlLMI, z, star_trivial, fromBlocks_mulVec, sumElim_dotProduct_sumElim,
    Sum.elim_comp_inl, Sum.elim_comp_inr, zero_mulVec, add_zero, zero_add] at key
  simp only [← Sum.elim_add_add, sumElim_dotProduct_sumElim] at key
  -- transposed cross terms
  have t1 : ξ ⬝ᵥ ((P * Aᵀ) *ᵥ η) = η ⬝ᵥ ((A * P) *ᵥ ξ) := by
    have : P * Aᵀ = (A * P)ᵀ := by rw [transpose_mul, hP]
    rw [this, dotProduct_mulVec, vecMul_transpose, dotProduct_comm]
  have t2 : u ⬝ᵥ (Bᵀ *ᵥ η) = η ⬝ᵥ (B *ᵥ u) := by
    rw [dotProduct_mulVec, vecMul_transpose, dotProduct_comm]
  have t3 : ξ ⬝ᵥ ((P * Cᵀ) *ᵥ y) = y ⬝ᵥ ((C * P) *ᵥ ξ) := by
    have : P * Cᵀ = (C * P)ᵀ := by rw [transpose_mul, hP]
    rw [this, dotProduct_mulVec, vecMul_transpose, dotProduct_comm]
  have t4 : u ⬝ᵥ (Dᵀ *ᵥ y) = y ⬝ᵥ (D *ᵥ u) := by
    rw [dotProduct_mulVec, vecMul_transpose, dotProduct_comm]
  have hy : y ⬝ᵥ y = y ⬝ᵥ ((C * P) *ᵥ ξ) + y ⬝ᵥ (D *ᵥ u) := by
    have : y = (C * P) *ᵥ ξ + D *ᵥ u := by simp only [y, x, mulVec_mulVec]
    conv_lhs => rhs; rw [this]
    rw [dotProduct_add]
  have hxp : η ⬝ᵥ xp = η ⬝ᵥ ((A * P) *ᵥ ξ) + η ⬝ᵥ (B *ᵥ u) := by
    simp only [xp, x, mulVec_mulVec, dotProduct_add]
  simp only [hP, mulVec_neg, mulVec_smul, smul_mulVec, one_mulVec, dotProduct_add, dotProduct_neg,
    neg_dotProduct, dotProduct_smul, smul_dotProduct, smul_eq_mul, t1, t2, t3, t4] at key
  rw [hy, hxp]
  rw [hy] at key
  have e5 : ∀ s : ℝ, γ⁻¹ * (γ * -(γ⁻¹ * s)) = -(γ⁻¹ * s) := by
    intro s; field_simp
  rw [e5] at key
  linarith

#print axioms brl_core
