/-! feasibility: mutual Stage/Stages syntax, structural recursion, mutual induction -/
mutual
inductive Stage where
  | const : Stage
  | delay (d : Nat) : Stage
  | split (st inp : Stages) : Stage
  | pipe (ss : Stages) : Stage
inductive Stages where
  | nil : Stages
  | cons (s : Stage) (rest : Stages) : Stages
end

mutual
/-- samples needed at the input to get `k` at the output -/
def Stage.nIn : Stage → Nat → Nat
  | .const, k => k
  | .delay d, k => k + d
  | .split a b, k => max (Stages.nIn a k) (Stages.nIn b k)
  | .pipe ss, k => Stages.nIn ss k
/-- for a chain, compose backwards -/
def Stages.nIn : Stages → Nat → Nat
  | .nil, k => k
  | .cons s rest, k => Stage.nIn s (Stages.nIn rest k)
end

mutual
/-- number of output rows of an episode with n rows -/
def Stage.rows : Stage → Nat → Nat
  | .const, n => n
  | .delay d, n => n - d
  | .split a b, n => min (Stages.rows a n) (Stages.rows b n)
  | .pipe ss, n => Stages.rows ss n
def Stages.rows : Stages → Nat → Nat
  | .nil, n => n
  | .cons s rest, n => Stages.rows rest (Stage.rows s n)
end

#eval Stage.nIn (.pipe (.cons (.delay 2) (.cons (.split (.cons (.delay 1) .nil) (.cons (.delay 3) .nil)) .nil))) 1
#eval Stage.rows (.pipe (.cons (.delay 2) (.cons (.split (.cons (.delay 1) .nil) (.cons (.delay 3) .nil)) .nil))) 10

mutual
theorem Stage.nIn_add (s : Stage) (k : Nat) : Stage.nIn s (k+1) = Stage.nIn s k + 1 := by
  cases s with
  | const => simp [Stage.nIn]
  | delay d => simp [Stage.nIn]; omega
  | split a b =>
    simp only [Stage.nIn]
    rw [Stages.nIn_add a k, Stages.nIn_add b k]; omega
  | pipe ss => simp only [Stage.nIn]; exact Stages.nIn_add ss k
theorem Stages.nIn_add (ss : Stages) (k : Nat) : Stages.nIn ss (k+1) = Stages.nIn ss k + 1 := by
  cases ss with
  | nil => simp [Stages.nIn]
  | cons s rest =>
    simp only [Stages.nIn]
    rw [Stages.nIn_add rest k, Stage.nIn_add s]
end

theorem Stage.nIn_shift (s : Stage) (k : Nat) : Stage.nIn s (k+1) = Stage.nIn s 1 + k := by
  induction k with
  | zero => rfl
  | succ k ih => rw [Stage.nIn_add, ih]; omega
theorem Stages.nIn_shift (s : Stages) (k : Nat) : Stages.nIn s (k+1) = Stages.nIn s 1 + k := by
  induction k with
  | zero => rfl
  | succ k ih => rw [Stages.nIn_add, ih]; omega
mutual
theorem Stage.le_nIn (s : Stage) (k : Nat) : k ≤ Stage.nIn s k := by
  cases s with
  | const => simp [Stage.nIn]
  | delay d => simp [Stage.nIn]
  | split a b => simp only [Stage.nIn]; have := Stages.le_nIn a k; omega
  | pipe ss => simp only [Stage.nIn]; exact Stages.le_nIn ss k
theorem Stages.le_nIn (ss : Stages) (k : Nat) : k ≤ Stages.nIn ss k := by
  cases ss with
  | nil => simp [Stages.nIn]
  | cons s rest =>
    simp only [Stages.nIn]
    exact Nat.le_trans (Stages.le_nIn rest k) (Stage.le_nIn s _)
end
theorem Stage.one_le_nIn (s : Stage) : 1 ≤ Stage.nIn s 1 := Stage.le_nIn s 1
theorem Stages.one_le_nIn (s : Stages) : 1 ≤ Stages.nIn s 1 := Stages.le_nIn s 1

mutual
theorem Stage.rows_eq (s : Stage) (n : Nat) (h : Stage.nIn s 1 ≤ n) :
    Stage.rows s n + Stage.nIn s 1 = n + 1 := by
  cases s with
  | const => simp [Stage.rows, Stage.nIn]
  | delay d => simp [Stage.rows, Stage.nIn] at *; omega
  | split a b =>
    simp only [Stage.rows, Stage.nIn] at *
    have ha := Stages.rows_eq a n (by omega)
    have hb := Stages.rows_eq b n (by omega)
    omega
  | pipe ss => simp only [Stage.rows, Stage.nIn] at *; exact Stages.rows_eq ss n h
theorem Stages.rows_eq (ss : Stages) (n : Nat) (h : Stages.nIn ss 1 ≤ n) :
    Stages.rows ss n + Stages.nIn ss 1 = n + 1 := by
  cases ss with
  | nil => simp [Stages.rows, Stages.nIn]
  | cons s rest =>
    simp only [Stages.rows, Stages.nIn] at *
    obtain ⟨j, hj⟩ : ∃ j, Stages.nIn rest 1 = j + 1 := ⟨Stages.nIn rest 1 - 1, by have := Stages.one_le_nIn rest; omega⟩
    rw [hj, Stage.nIn_shift] at h ⊢
    have hs := Stage.rows_eq s n (by omega)
    have hr := Stages.rows_eq rest (Stage.rows s n) (by omega)
    omega
end

#print axioms Stage.rows_eq
