import PkLA.Lmi
import PkLA.DmdcLmi
import Pk.Parse
import Pk.Gram
import PkLA.HinfFreq
/-! Line-protocol driver for the Mathlib `Matrix` models of the LMI blocks, evaluated over ℚ.
Run with `lake env lean --run DriverLA.lean` (an executable importing Mathlib cannot be linked here).
The definitions evaluated are the ones the theorems are about (`PkLA.specLmiA`, `brlLMI`, `dissLMI`, …). -/
open Pk PkLA Matrix

class Idx (ι : Type) where
  elems : List ι

instance (n : Nat) : Idx (Fin n) := ⟨List.finRange n⟩
instance {α β : Type} [Idx α] [Idx β] : Idx (α ⊕ β) :=
  ⟨(Idx.elems.map Sum.inl) ++ (Idx.elems.map Sum.inr)⟩

def dump {ι κ : Type} [Idx ι] [Idx κ] (M : Matrix ι κ ℚ) : String :=
  let rows := (Idx.elems (ι := ι)).map fun i => (Idx.elems (ι := κ)).map fun j => showRat (M i j)
  s!"{rows.length} {(Idx.elems (ι := κ)).length} " ++ " ".intercalate (rows.map (" ".intercalate ·))

def ofRows (r c : Nat) (l : List (List ℚ)) : Matrix (Fin r) (Fin c) ℚ :=
  fun i j => (l.getD i.val []).getD j.val 0

def pM (r c : Nat) : P (Matrix (Fin r) (Fin c) ℚ) := do
  let r' ← pNat; let c' ← pNat
  let rows ← pMany r' (pMany c' pRat)
  if r' != r || c' != c then throw s!"matrix {r'}x{c'} where {r}x{c} expected"
  pure (ofRows r c rows)


def toRows {r c : Nat} (M : Matrix (Fin r) (Fin c) ℚ) : List (List ℚ) :=
  (List.finRange r).map fun i => (List.finRange c).map fun j => M i j

def vecOf (n : Nat) (l : List ℚ) : Fin n → ℚ := fun i => l.getD i.val 0

def showVec {n : Nat} (v : Fin n → ℚ) : String := " ".intercalate ((List.finRange n).map fun i => showRat (v i))

/-- frequency response at the point `z = c + i s`: solve the real form of `z x = A x + B u` exactly over ℚ (Gauss–Jordan),
CHECK the two equations `PkLA.brl_freq_real` has as hypotheses on the solution found (so the theorem applies to what is
printed without trusting the elimination), and return `y = C x + D u` as real and imaginary parts -/
def freqResp (n m k : Nat) (c s : ℚ) (A : Matrix (Fin n) (Fin n) ℚ) (B : Matrix (Fin n) (Fin m) ℚ)
    (C : Matrix (Fin k) (Fin n) ℚ) (D : Matrix (Fin k) (Fin m) ℚ) (ur ui : Fin m → ℚ) : Option String :=
  let cIA : Matrix (Fin n) (Fin n) ℚ := c • (1 : Matrix (Fin n) (Fin n) ℚ) - A
  let sI : Matrix (Fin n) (Fin n) ℚ := s • (1 : Matrix (Fin n) (Fin n) ℚ)
  let M := toRows (Matrix.of fun (i : Fin (n + n)) (j : Fin (n + n)) =>
    if hi : i.val < n then
      (if hj : j.val < n then cIA ⟨i.val, hi⟩ ⟨j.val, hj⟩ else -(sI ⟨i.val, hi⟩ ⟨j.val - n, by omega⟩))
    else
      (if hj : j.val < n then sI ⟨i.val - n, by omega⟩ ⟨j.val, hj⟩ else cIA ⟨i.val - n, by omega⟩ ⟨j.val - n, by omega⟩))
  let br := B *ᵥ ur
  let bi := B *ᵥ ui
  let rhs : List (List ℚ) := ((List.finRange n).map fun i => [br i]) ++ ((List.finRange n).map fun i => [bi i])
  match Pk.Gram.solve M rhs with
  | none => none
  | some X =>
    let flat := X.map fun row => row.getD 0 0
    let xr := vecOf n (flat.take n)
    let xi := vecOf n (flat.drop n)
    -- certificate: the hypotheses `hr`, `hi` of `brl_freq_real`
    let l1 := (List.finRange n).map (A *ᵥ xr + B *ᵥ ur)
    let r1 := (List.finRange n).map (c • xr - s • xi)
    let l2 := (List.finRange n).map (A *ᵥ xi + B *ᵥ ui)
    let r2 := (List.finRange n).map (s • xr + c • xi)
    if l1 == r1 && l2 == r2 then
      some (s!"{k} " ++ showVec (C *ᵥ xr + D *ᵥ ur) ++ " " ++ showVec (C *ᵥ xi + D *ᵥ ui))
    else none

def dispatchLA : P String := do
  let cmd ← tok
  match cmd with
  | "specA" => do
    let n ← pNat; let ρ ← pRat
    let Pm ← pM n n; let A ← pM n n
    pure ("ok " ++ dump (specLmiA ρ Pm A))
  | "specB" => do
    let n ← pNat; let ρ ← pRat
    let Pm ← pM n n; let A ← pM n n
    pure ("ok " ++ dump (specLmiB ρ Pm A))
  | "brl" => do
    let n ← pNat; let m ← pNat; let k ← pNat; let γ ← pRat
    let Pm ← pM n n; let A ← pM n n; let B ← pM n m; let C ← pM k n; let D ← pM k m
    pure ("ok " ++ dump (brlLMI Pm A B C D γ))
  | "diss" => do
    let n ← pNat; let m ← pNat; let k ← pNat
    let Pm ← pM n n; let A ← pM n n; let B ← pM n m; let C ← pM k n
    let X11 ← pM k k; let X12 ← pM k m; let X22 ← pM m m
    pure ("ok " ++ dump (dissLMI Pm A B C X11 X12 X22))
  | "base" => do
    let n ← pNat; let m ← pNat; let k ← pNat
    let Z ← pM n n; let U ← pM n m; let L ← pM m k
    pure ("ok " ++ dump (baseLmi Z U L))
  | "obj" => do
    let n ← pNat; let m ← pNat; let c ← pRat
    let U ← pM n m; let G ← pM n m; let Z ← pM n n
    pure ("ok " ++ showRat (baseObj c U G Z))
  | "twonorm" => do
    let n ← pNat; let m ← pNat; let γ ← pRat
    let U ← pM n m
    pure ("ok " ++ dump (twoNormLmi γ U))
  | "nuclear" => do
    let n ← pNat; let m ← pNat
    let W1 ← pM n n; let U ← pM n m; let W2 ← pM m m
    pure ("ok " ++ dump (nuclearLmi W1 U W2))
  | "post" => do
    -- dims: model state a, filter state b, model output c, input d, filter output e
    let a ← pNat; let b ← pNat; let c ← pNat; let d ← pNat; let e ← pNat
    let Am ← pM a a; let Bm ← pM a d; let Cm ← pM c a; let Dm ← pM c d
    let Aw ← pM b b; let Bw ← pM b c; let Cw ← pM e b; let Dw ← pM e c
    pure ("ok " ++ dump (postA Am Aw Bw Cm) ++ " | " ++ dump (postB Bm Bw Dm) ++ " | "
      ++ dump (postC Cm Cw Dw) ++ " | " ++ dump (postD Dw Dm))
  | "pre" => do
    -- dims: model state a, filter state b, filter output = model input c, external input d, model output e
    let a ← pNat; let b ← pNat; let c ← pNat; let d ← pNat; let e ← pNat
    let Am ← pM a a; let Bm ← pM a c; let Cm ← pM e a; let Dm ← pM e c
    let Aw ← pM b b; let Bw ← pM b d; let Cw ← pM c b; let Dw ← pM c d
    pure ("ok " ++ dump (preA Am Aw Bm Cw) ++ " | " ++ dump (preB Bw Bm Dw) ++ " | "
      ++ dump (preC Cm Cw Dm) ++ " | " ++ dump (preD Dm Dw))
  | "dmdc" => do
    -- LmiDmdc._create_base_problem: dims r_hat, r_tld, p_theta, p_upsilon, q
    let rh ← pNat; let rt ← pNat; let pt ← pNat; let pu ← pNat; let q ← pNat
    let W ← pM rh rh; let Uh1 ← pM rh rh; let Uh2 ← pM rh pu
    let Qh ← pM pt rh; let Qt1 ← pM pt rt; let Qt2 ← pM pu rt
    let St ← pM rt rt; let Str ← pM rt rt; let Sh ← pM rh rh
    let Zt ← pM q rt; let Zh ← pM q rh
    let Qb := dmdcQbar Qh (fromRows Qt1 Qt2)
    pure ("ok " ++ dump (dmdcLmi W (Sh * Sh) (fromCols Uh1 Uh2) (dmdcCross Qb St Zt Zh Sh) (Qb * Str)))
  | "freq" => do
    let n ← pNat; let m ← pNat; let k ← pNat; let c ← pRat; let s ← pRat
    let A ← pM n n; let B ← pM n m; let C ← pM k n; let D ← pM k m
    let ur ← pMany m pRat; let ui ← pMany m pRat
    match freqResp n m k c s A B C D (vecOf m ur) (vecOf m ui) with
    | some out => pure ("ok " ++ out)
    | none => pure "singular"
  | _ => throw s!"bad command {cmd}"

def handleLA (line : String) : String :=
  let toks := (line.splitOn " ").filter (· ≠ "")
  match dispatchLA.run toks with
  | .ok (out, _) => out
  | .error e => s!"bad {e}"

partial def loopLA (h : IO.FS.Stream) (out : IO.FS.Stream) : IO Unit := do
  let line ← h.getLine
  if line.isEmpty then return ()
  out.putStrLn (handleLA line.trimAscii.toString)
  loopLA h out

def main : IO Unit := do
  let out ← IO.getStdout
  loopLA (← IO.getStdin) out
  out.flush
