import Pk.Estimator
/-! Several estimator instances and mutable data arrays in one process.

`Pk/Estimator.lean` is the history machine of ONE instance on immutable data.  Here: a heap of data arrays whose
contents the caller may overwrite in place, and a list of instances.  `fit a i` stores a function of instance `a`'s
parameters and of the CURRENT contents of array `i` (by value); nothing is keyed on the identity of an array or
shared between instances.  Core Lean only. -/
namespace Pk.Est

variable {D F : Type}

structure Proc (D F : Type) where
  heap : List D
  insts : List (World F)

inductive POp (D : Type) where
  | fit (a i : Nat)                      -- instance `a` is fitted on array `i`
  | setParam (a : Nat) (k : String) (v : Int)
  | overwrite (i : Nat) (d : D)          -- the caller writes new contents into array `i` (same object)
  | create (p : Params)                  -- another instance is constructed
  | clone (a : Nat)                      -- sklearn.base.clone: same parameters, no fitted state

def modifyAt {β : Type} (f : β → β) : Nat → List β → List β
  | _, [] => []
  | 0, b :: t => f b :: t
  | n+1, b :: t => b :: modifyAt f n t

variable (Fit : Params → D → Bool → F)

def pstep (s : Proc D F) : POp D → Proc D F
  | .fit a i =>
    match s.heap[i]? with
    | none => s
    | some d => { s with insts := modifyAt (fun w => { w with fitted := some (Fit w.params d w.stopFlag) }) a s.insts }
  | .setParam a k v => { s with insts := modifyAt (fun w => { w with params := setParam k v w.params }) a s.insts }
  | .overwrite i d => { s with heap := modifyAt (fun _ => d) i s.heap }
  | .create p => { s with insts := s.insts ++ [{ params := p, fitted := none, stopFlag := false }] }
  | .clone a =>
    match s.insts[a]? with
    | none => s
    | some w => { s with insts := s.insts ++ [{ params := w.params, fitted := none, stopFlag := w.stopFlag }] }

def prun (s : Proc D F) : List (POp D) → Proc D F
  | [] => s
  | op :: rest => prun (pstep Fit s op) rest

theorem modifyAt_get_ne {β : Type} (f : β → β) (a b : Nat) (l : List β) (h : b ≠ a) :
    (modifyAt f a l)[b]? = l[b]? := by
  induction l generalizing a b with
  | nil => simp [modifyAt]
  | cons x t ih =>
    cases a with
    | zero =>
      cases b with
      | zero => exact absurd rfl h
      | succ b => simp [modifyAt]
    | succ a =>
      cases b with
      | zero => simp [modifyAt]
      | succ b => simpa [modifyAt] using ih a b (by omega)

theorem modifyAt_get_eq {β : Type} (f : β → β) (a : Nat) (l : List β) :
    (modifyAt f a l)[a]? = (l[a]?).map f := by
  induction l generalizing a with
  | nil => simp [modifyAt]
  | cons x t ih =>
    cases a with
    | zero => simp [modifyAt]
    | succ a => simpa [modifyAt] using ih a

theorem modifyAt_length {β : Type} (f : β → β) (a : Nat) (l : List β) : (modifyAt f a l).length = l.length := by
  induction l generalizing a with
  | nil => simp [modifyAt]
  | cons x t ih => cases a <;> simp [modifyAt, ih]

/-- which instance an operation is addressed to (none for heap writes and constructions) -/
def POp.target : POp D → Option Nat
  | .fit a _ => some a
  | .setParam a _ _ => some a
  | _ => none

/-- **instances are independent**: an operation leaves every existing instance it is not addressed to exactly as it
was (fitting, configuring, cloning or constructing another estimator never disturbs this one; neither does the
caller overwriting a data array) -/
theorem pstep_other (s : Proc D F) (op : POp D) (b : Nat) (hb : b < s.insts.length) (h : op.target ≠ some b) :
    (pstep Fit s op).insts[b]? = s.insts[b]? := by
  cases op with
  | fit a i =>
    have hne : b ≠ a := by intro e; apply h; simp [POp.target, e]
    simp only [pstep]
    cases s.heap[i]? with
    | none => rfl
    | some d => exact modifyAt_get_ne _ a b s.insts hne
  | setParam a k v =>
    have hne : b ≠ a := by intro e; apply h; simp [POp.target, e]
    exact modifyAt_get_ne _ a b s.insts hne
  | overwrite i d => rfl
  | create p => simp [pstep, List.getElem?_append_left hb]
  | clone a =>
    simp only [pstep]
    cases s.insts[a]? with
    | none => rfl
    | some w => simp [List.getElem?_append_left hb]

/-- **fits are by value of the current contents**: whatever happened before (other fits of the same instance on the
same array object, overwrites, other instances), fitting instance `a` on array `i` leaves the fitted state of a fresh
estimator with `a`'s current parameters fitted on the array's CURRENT contents -/
theorem pstep_fit (s : Proc D F) (a i : Nat) (w : World F) (d : D) (ha : s.insts[a]? = some w)
    (hi : s.heap[i]? = some d) :
    (pstep Fit s (.fit a i)).insts[a]? = some { w with fitted := some (Fit w.params d w.stopFlag) } := by
  simp only [pstep, hi]
  rw [modifyAt_get_eq, ha]
  rfl

/-- overwriting an array changes no estimator (fitted state holds values, not references) … -/
theorem pstep_overwrite_insts (s : Proc D F) (i : Nat) (d : D) : (pstep Fit s (.overwrite i d)).insts = s.insts := rfl

/-- … and the next read of the array sees the new contents -/
theorem pstep_overwrite_heap (s : Proc D F) (i : Nat) (d : D) (hi : i < s.heap.length) :
    (pstep Fit s (.overwrite i d)).heap[i]? = some d := by
  simp only [pstep]
  rw [modifyAt_get_eq]
  simp [List.getElem?_eq_getElem hi]

/-- a clone has the parameters of its origin and no fitted state -/
theorem pstep_clone (s : Proc D F) (a : Nat) (w : World F) (ha : s.insts[a]? = some w) :
    (pstep Fit s (.clone a)).insts[s.insts.length]?
      = some { params := w.params, fitted := none, stopFlag := w.stopFlag } := by
  simp [pstep, ha]

end Pk.Est
