import Pk.Fit
/-! What a successful `fit` establishes: the fit-time well-formedness `wf` the tree theorems assume
(the two `RuntimeError` checks of `SplitPipeline.fit`), output widths = `outW`, and
`n_samples_in(k) = k + loss`. Core Lean only. -/
namespace Pk
variable {α : Type}

section
variable (ops : Ops α) (ok : α → Prop)

theorem rowFn_wx (k : Kind) (nx nu : Nat) : (rowFn ops ok k).wx nx nu = (kindW k (nx, nu)).1 := by
  cases k <;> rfl
theorem rowFn_wu (k : Kind) (nx nu : Nat) : (rowFn ops ok k).wu nx nu = (kindW k (nx, nu)).2 := by
  cases k <;> rfl

mutual
/-- output widths do not depend on the value domain -/
theorem Stage.outW_unit (s : S) (w : Nat × Nat) :
    Stage.outW (rowFn ops ok) s w = Stage.outW (rowFn unitOps) s w := by
  cases s with
  | rw k => cases w; simp [Stage.outW, rowFn_wx, rowFn_wu]
  | delay dx du => cases w; simp [Stage.outW]
  | split a b => cases w; simp only [Stage.outW]; rw [Stages.outW_unit a, Stages.outW_unit b]
  | pipe ss => simp only [Stage.outW]; exact Stages.outW_unit ss w
theorem Stages.outW_unit (ss : Ss) (w : Nat × Nat) :
    Stages.outW (rowFn ops ok) ss w = Stages.outW (rowFn unitOps) ss w := by
  cases ss with
  | nil => simp [Stages.outW]
  | cons s rest => simp only [Stages.outW]; rw [Stage.outW_unit s, Stages.outW_unit rest]
end

mutual
/-- a successful `fit` returns `outW` and establishes `wf` -/
theorem Stage.fit_ok (s : S) (w w' : Nat × Nat) (h : Stage.fit s w = .ok w') :
    w' = Stage.outW (rowFn ops ok) s w ∧ Stage.wf (rowFn ops ok) s w := by
  cases s with
  | rw k =>
    obtain ⟨nx, nu⟩ := w
    simp only [Stage.fit] at h
    split at h
    · cases h
    · split at h
      · cases h
      · cases h
        simp [Stage.outW, Stage.wf, rowFn_wx, rowFn_wu]
  | delay dx du =>
    obtain ⟨nx, nu⟩ := w
    simp only [Stage.fit] at h
    split at h
    · cases h
    · cases h; simp [Stage.outW, Stage.wf]
  | split a b =>
    obtain ⟨nx, nu⟩ := w
    simp only [Stage.fit] at h
    split at h
    · cases h
    · rename_i wa ha
      split at h
      · cases h
      · rename_i wb hb
        have ha' := Stages.fitChain_ok a (nx, 0) wa ha
        have hb' := Stages.fitChain_ok b (0, nu) wb hb
        split at h
        · cases h
        · split at h
          · cases h
          · rename_i h1 h2
            cases h
            simp only [Stage.outW, Stage.wf]
            rw [← ha'.1, ← hb'.1]
            refine ⟨rfl, ha'.2, hb'.2, ?_, ?_⟩
            · simpa using h1
            · simpa using h2
  | pipe ss =>
    simp only [Stage.fit] at h
    simpa [Stage.outW, Stage.wf] using Stages.fitChain_ok ss w w' h
theorem Stages.fitChain_ok (ss : Ss) (w w' : Nat × Nat) (h : Stages.fitChain ss w = .ok w') :
    w' = Stages.outW (rowFn ops ok) ss w ∧ Stages.wf (rowFn ops ok) ss w := by
  cases ss with
  | nil => simp only [Stages.fitChain] at h; cases h; simp [Stages.outW, Stages.wf]
  | cons s rest =>
    simp only [Stages.fitChain] at h
    split at h
    · cases h
    · rename_i w1 h1
      have hs := Stage.fit_ok s w w1 h1
      have hr := Stages.fitChain_ok rest w1 w' h
      simp only [Stages.outW, Stages.wf]
      rw [← hs.1]
      exact ⟨hr.1, hs.2, hr.2⟩
end
end

mutual
/-- `n_samples_in(k) = k + loss`: additive over stages, `max` over the branches of a split -/
theorem Stage.nSamplesIn_eq (s : S) (k : Nat) : Stage.nSamplesIn s k = k + Stage.loss s := by
  cases s with
  | rw kk => simp [Stage.nSamplesIn, Stage.loss]
  | delay dx du => simp [Stage.nSamplesIn, Stage.loss]
  | split a b =>
    simp only [Stage.nSamplesIn, Stage.loss, Stages.nSamplesIn_eq a, Stages.nSamplesIn_eq b]; omega
  | pipe ss => simp only [Stage.nSamplesIn, Stage.loss]; exact Stages.nSamplesIn_eq ss k
theorem Stages.nSamplesIn_eq (ss : Ss) (k : Nat) : Stages.nSamplesIn ss k = k + Stages.loss ss := by
  cases ss with
  | nil => simp [Stages.nSamplesIn, Stages.loss]
  | cons s rest =>
    simp only [Stages.nSamplesIn, Stages.loss, Stage.nSamplesIn_eq s, Stages.nSamplesIn_eq rest]; omega
end

end Pk
