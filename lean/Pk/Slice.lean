import Pk.Tree
/-! Design experiment: slice equivariance of the per-episode transform (backbone of C03_window and C07). -/
namespace Pk
variable {α : Type}

/-- rows `i .. i+len` -/
def sl (i len : Nat) (l : List β) : List β := (l.drop i).take len

theorem sl_length (i len : Nat) (l : List β) (h : i + len ≤ l.length) : (sl i len l).length = len := by
  simp [sl]; omega

theorem sl_map (i len : Nat) (l : List β) (f : β → γ) : sl i len (l.map f) = (sl i len l).map f := by
  simp [sl, List.map_drop, List.map_take]

theorem sl_zipWith (i len : Nat) (f : β → γ → δ) (A : List β) (B : List γ) :
    sl i len (List.zipWith f A B) = List.zipWith f (sl i len A) (sl i len B) := by
  simp [sl, List.drop_zipWith, List.take_zipWith]

theorem getD_sl (i len j : Nat) (l : List (List α)) (hj : j < len) (h : i + len ≤ l.length) :
    (sl i len l).getD j [] = l.getD (i + j) [] := by
  simp only [sl, List.getD_eq_getElem?_getD, List.getElem?_take, List.getElem?_drop, hj, if_true]

theorem delayRow_sl (i len d t : Nat) (cols : List (List α)) (hd : d ≤ t) (ht : t < len)
    (h : i + len ≤ cols.length) :
    delayRow (sl i len cols) d t = delayRow cols d (i + t) := by
  unfold delayRow
  congr 1
  apply List.map_congr_left
  intro k hk
  simp only [List.mem_range] at hk
  rw [getD_sl i len (t - k) cols (by omega) h]
  congr 1; omega

theorem delayCols_sl (i len d T : Nat) (cols : List (List α)) (hdT : d ≤ T) (h : i + len ≤ cols.length) :
    delayCols d T (sl i len cols) = sl i (len - T) (delayCols d T cols) := by
  apply List.ext_getElem
  · simp only [delayCols, sl, List.length_map, List.length_range, List.length_take, List.length_drop]
    omega
  · intro j h1 h2
    simp only [delayCols, List.length_map, List.length_range, sl_length i len cols h] at h1 h2
    simp only [delayCols, sl, List.getElem_map, List.getElem_range, List.getElem_take, List.getElem_drop]
    rw [← sl, delayRow_sl i len d (j + T) cols (by omega) (by omega) h]
    congr 1; omega

theorem delayEp_sl (i len dx du : Nat) (X : Ep α) (h : i + len ≤ X.length) :
    delayEp dx du (sl i len X) = sl i (len - max dx du) (delayEp dx du X) := by
  unfold delayEp
  simp only []
  rw [sl_zipWith, ← delayCols_sl i len dx _ _ (Nat.le_max_left _ _) (by simpa using h),
      ← delayCols_sl i len du _ _ (Nat.le_max_right _ _) (by simpa using h), sl_map, sl_map]


theorem lastN_sl (k i len : Nat) (l : List β) (hk : k ≤ len) (h : i + len ≤ l.length) :
    lastN k (sl i len l) = sl (i + len - k) k l := by
  apply List.ext_getElem
  · simp only [lastN, sl, List.length_drop, List.length_take]; omega
  · intro j h1 h2
    simp only [lastN, sl, List.getElem_drop, List.getElem_take, List.length_take, List.length_drop]
    congr 1; omega

theorem sl_lastN (i m n : Nat) (l : List β) (hn : n ≤ l.length) :
    sl i m (lastN n l) = sl (l.length - n + i) m l := by
  simp only [sl, lastN, List.drop_drop]

theorem sl_onlyX (i len : Nat) (X : Ep α) : onlyX (sl i len X) = sl i len (onlyX X) := by
  simp [onlyX, sl_map]
theorem sl_onlyU (i len : Nat) (X : Ep α) : onlyU (sl i len X) = sl i len (onlyU X) := by
  simp [onlyU, sl_map]

variable (env : κ → RowFn α)

mutual
theorem Stage.tr_sl (s : Stage κ) (X : Ep α) (i len : Nat) (h : i + len ≤ X.length)
    (hl : Stage.loss s ≤ len) :
    Stage.tr env s (sl i len X) = sl i (len - Stage.loss s) (Stage.tr env s X) := by
  cases s with
  | rw k => simp [Stage.tr, Stage.loss, sl_map]
  | delay dx du => simpa [Stage.tr, Stage.loss] using delayEp_sl i len dx du X h
  | split a b =>
    simp only [Stage.loss] at hl
    have hlA := Stages.length_tr env a (onlyX X)
    have hlB := Stages.length_tr env b (onlyU X)
    rw [onlyX_length] at hlA; rw [onlyU_length] at hlB
    simp only [Stage.tr, Stage.loss]
    rw [sl_onlyX, sl_onlyU,
        Stages.tr_sl a (onlyX X) i len (by rw [onlyX_length]; exact h) (by omega),
        Stages.tr_sl b (onlyU X) i len (by rw [onlyU_length]; exact h) (by omega)]
    unfold zipXU
    simp only []
    rw [sl_length _ _ _ (by omega), sl_length _ _ _ (by omega)]
    rw [lastN_sl _ _ _ _ (by omega) (by omega), lastN_sl _ _ _ _ (by omega) (by omega)]
    rw [sl_zipWith, sl_lastN _ _ _ _ (by omega), sl_lastN _ _ _ _ (by omega)]
    have e0 : min (len - Stages.loss a) (len - Stages.loss b) = len - max (Stages.loss a) (Stages.loss b) := by omega
    rw [e0, hlA, hlB]
    have e1 : i + (len - Stages.loss a) - (len - max (Stages.loss a) (Stages.loss b))
        = X.length - Stages.loss a - min (X.length - Stages.loss a) (X.length - Stages.loss b) + i := by omega
    have e2 : i + (len - Stages.loss b) - (len - max (Stages.loss a) (Stages.loss b))
        = X.length - Stages.loss b - min (X.length - Stages.loss a) (X.length - Stages.loss b) + i := by omega
    rw [e1, e2]
  | pipe ss => simpa [Stage.tr, Stage.loss] using Stages.tr_sl ss X i len h (by simpa [Stage.loss] using hl)
theorem Stages.tr_sl (ss : Stages κ) (X : Ep α) (i len : Nat) (h : i + len ≤ X.length)
    (hl : Stages.loss ss ≤ len) :
    Stages.tr env ss (sl i len X) = sl i (len - Stages.loss ss) (Stages.tr env ss X) := by
  cases ss with
  | nil => simp [Stages.tr, Stages.loss]
  | cons s rest =>
    simp only [Stages.loss] at hl
    simp only [Stages.tr, Stages.loss]
    have hlen := Stage.length_tr env s X
    rw [Stage.tr_sl s X i len h (by omega),
        Stages.tr_sl rest (Stage.tr env s X) i (len - Stage.loss s) (by rw [hlen]; omega) (by omega)]
    congr 1; omega
end

/-- C03_window: output row `j` of the lifted episode is the single output of the window of
`loss+1 = min_samples_` input rows ending at time `j + loss`. -/
theorem Stage.window (s : Stage κ) (X : Ep α) (j : Nat) (h : j + Stage.loss s + 1 ≤ X.length) :
    Stage.tr env s (sl j (Stage.loss s + 1) X) = sl j 1 (Stage.tr env s X) := by
  have := Stage.tr_sl env s X j (Stage.loss s + 1) (by omega) (by omega)
  simpa using this

end Pk
