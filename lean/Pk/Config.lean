/-! `pykoop/_sklearn_config/config.py`: a module default, one lazily copied dictionary per thread,
`get_config` (a copy), `set_config` (own thread only, `None` = keep), `config_context`
(save, set, body, `finally` restore).  Core Lean only; executable. -/
namespace Pk.Config

/-- structured single-thread programs (continuation style): nested `with config_context(..)` blocks,
`set_config`, `get_config` (its value is logged) and `raise` -/
inductive Prog where
  | skip
  | get (k : Prog)
  | set (v : Option Bool) (k : Prog)
  | raise
  | ctx (v : Option Bool) (body : Prog) (k : Prog)
deriving Repr

structure Res where
  cur : Bool
  outs : List Bool
  raised : Bool
deriving Repr, DecidableEq

/-- big-step semantics with exceptions; `c` is the thread's current `skip_validation` -/
def run : Prog → Bool → Res
  | .skip, c => ⟨c, [], false⟩
  | .get k, c => let r := run k c; ⟨r.cur, c :: r.outs, r.raised⟩
  | .set v k, c => run k (v.getD c)
  | .raise, c => ⟨c, [], true⟩
  | .ctx v body k, c =>
    let rb := run body (v.getD c)
    -- `finally: set_config(**old_config)` runs whether or not the body raised
    if rb.raised then ⟨c, rb.outs, true⟩
    else let rk := run k c; ⟨rk.cur, rb.outs ++ rk.outs, rk.raised⟩

/-! ### interleavings -/

inductive Atom where
  | get
  | set (v : Option Bool)
  | enter (v : Option Bool)     -- `old = get_config(); set_config(v)`
  | exit                        -- `finally: set_config(**old)`
deriving Repr, DecidableEq

structure Th where
  cur : Bool := false           -- a fresh thread copies the module default `False`
  stack : List Bool := []
deriving Repr, DecidableEq

abbrev St := Nat → Th

def upd (σ : St) (t : Nat) (v : Th) : St := fun t' => if t' = t then v else σ t'

def stepTh (a : Atom) (s : Th) : Th × Option Bool :=
  match a with
  | .get => (s, some s.cur)
  | .set v => (⟨v.getD s.cur, s.stack⟩, none)
  | .enter v => (⟨v.getD s.cur, s.cur :: s.stack⟩, none)
  | .exit => match s.stack with
    | [] => (s, none)
    | o :: rest => (⟨o, rest⟩, none)

/-- run a schedule (any interleaving of the threads' atoms); the log records `(thread, value)` of every
`get_config` -/
def runSched : List (Nat × Atom) → St → St × List (Nat × Bool)
  | [], σ => (σ, [])
  | (t, a) :: rest, σ =>
    let (s', o) := stepTh a (σ t)
    let (σ', log) := runSched rest (upd σ t s')
    (σ', match o with
      | some b => (t, b) :: log
      | none => log)

/-- one thread alone -/
def runOne : List Atom → Th → Th × List Bool
  | [], s => (s, [])
  | a :: rest, s =>
    let (s', o) := stepTh a s
    let (s'', log) := runOne rest s'
    (s'', match o with
      | some b => b :: log
      | none => log)

/-- atoms of a structured program that does not raise -/
def compile : Prog → List Atom
  | .skip => []
  | .get k => .get :: compile k
  | .set v k => .set v :: compile k
  | .raise => []
  | .ctx v body k => .enter v :: compile body ++ (.exit :: compile k)

end Pk.Config
