import Pk.Predict
import Pk.XLoc
/-! Laws of the `predict_trajectory` model: the re-lifting loop only appends, each appended row is the
last row of the one-step prediction of the window before it. Core Lean only. -/
namespace Pk
variable {α : Type} {κ : Type} [Add α] [Mul α] [OfNat α 0]
variable (env : κ → RowFn α) (p : Pipe α κ)

/-- the row the re-lifting loop appends when `X` is what is known so far -/
def nextRow (U X : List (List α)) : List α :=
  let k := X.length
  let m := p.m
  let Xw := window (k - m) m X
  let Uw := window (k - m) m U
  let Thk := List.zipWith (fun t u => matVec p.K (t ++ u)) (liftStateEp env p Xw) (liftInputEp env p Xw Uw)
  (retractStateEp env p Thk).getLast?.getD []

theorem trajRelift_succ (U : List (List α)) (fuel : Nat) (X : List (List α)) :
    trajRelift env p U (fuel+1) X = trajRelift env p U fuel (X ++ [nextRow env p U X]) := rfl

theorem trajRelift_prefix (U : List (List α)) (fuel : Nat) (X : List (List α)) :
    ∃ t, trajRelift env p U fuel X = X ++ t ∧ t.length = fuel := by
  induction fuel generalizing X with
  | zero => exact ⟨[], by simp [trajRelift]⟩
  | succ n ih =>
    obtain ⟨t, ht, hl⟩ := ih (X ++ [nextRow env p U X])
    refine ⟨nextRow env p U X :: t, ?_, by simp [hl]⟩
    rw [trajRelift_succ, ht]; simp

theorem trajRelift_length (U : List (List α)) (fuel : Nat) (X : List (List α)) :
    (trajRelift env p U fuel X).length = X.length + fuel := by
  obtain ⟨t, ht, hl⟩ := trajRelift_prefix env p U fuel X
  rw [ht]; simp [hl]

theorem trajRelift_take (U : List (List α)) (fuel : Nat) (X : List (List α)) :
    (trajRelift env p U fuel X).take X.length = X := by
  obtain ⟨t, ht, _⟩ := trajRelift_prefix env p U fuel X
  rw [ht]; simp

/-- stability: running longer does not change what was already produced -/
theorem trajRelift_take_stable (U : List (List α)) (f1 f2 : Nat) (X : List (List α)) :
    (trajRelift env p U (f1 + f2) X).take (X.length + f1) = trajRelift env p U f1 X := by
  induction f1 generalizing X with
  | zero => simpa [trajRelift] using trajRelift_take env p U f2 X
  | succ n ih =>
    have e : n + 1 + f2 = (n + f2) + 1 := by omega
    rw [e, trajRelift_succ, trajRelift_succ]
    have := ih (X ++ [nextRow env p U X])
    simp only [List.length_append, List.length_cons, List.length_nil] at this
    have e2 : X.length + (n + 1) = X.length + (0 + 1) + n := by omega
    rw [e2]; exact this

theorem trajRelift_snoc (U : List (List α)) (j : Nat) (X : List (List α)) :
    trajRelift env p U (j + 1) X
      = trajRelift env p U j X ++ [nextRow env p U (trajRelift env p U j X)] := by
  induction j generalizing X with
  | zero => simp [trajRelift, nextRow]
  | succ n ih =>
    rw [trajRelift_succ, ih (X ++ [nextRow env p U X]), ← trajRelift_succ]

/-- the recursion: row `|X| + j` of the trajectory is `nextRow` of the first `|X| + j` rows of the
trajectory itself -/
theorem trajRelift_row (U : List (List α)) (fuel : Nat) (X : List (List α)) (j : Nat) (hj : j < fuel) :
    (trajRelift env p U fuel X)[X.length + j]? =
      some (nextRow env p U ((trajRelift env p U fuel X).take (X.length + j))) := by
  obtain ⟨f2, rfl⟩ : ∃ f2, fuel = (j + 1) + f2 := ⟨fuel - (j+1), by omega⟩
  have hs1 := trajRelift_take_stable env p U (j+1) f2 X
  have hs0 := trajRelift_take_stable env p U j (1 + f2) X
  have e : j + (1 + f2) = j + 1 + f2 := by omega
  rw [e] at hs0
  rw [hs0]
  -- element X.length + j of the long run is element of the (j+1)-run
  have hlt : X.length + j < X.length + (j + 1) := by omega
  have : (trajRelift env p U (j + 1 + f2) X)[X.length + j]?
      = ((trajRelift env p U (j + 1 + f2) X).take (X.length + (j+1)))[X.length + j]? := by
    rw [List.getElem?_take]; simp [hlt]
  rw [this, hs1]
  -- the (j+1)-run is the j-run with nextRow appended
  rw [trajRelift_snoc env p U j X]
  have hl := trajRelift_length env p U j X
  rw [List.getElem?_append_right (by omega)]
  simp [hl]

end Pk

namespace Pk
variable {α : Type} {κ : Type} [Add α] [Mul α] [OfNat α 0]
variable (env : κ → RowFn α) (p : Pipe α κ)

theorem zipWith_map_x_u {β : Type} (f : List α → List α → β) (L : Ep α) :
    List.zipWith f (L.map (·.x)) (L.map (·.u)) = L.map fun r => f r.x r.u := by
  induction L with
  | nil => rfl
  | cons a t ih => simp [ih]

theorem map_x_zipWith_mk (X U : List (List α)) (h : X.length ≤ U.length) :
    (List.zipWith Row.mk X U).map (·.x) = X := by
  induction X generalizing U with
  | nil => simp
  | cons a t ih =>
    cases U with
    | nil => simp at h
    | cons b t' => simp at h; simp [ih t' h]

theorem typed_zipWith_mk (wx wu : Nat) (X U : List (List α)) (hX : ∀ x ∈ X, x.length = wx)
    (hU : ∀ u ∈ U, u.length = wu) : Typed wx wu (List.zipWith Row.mk X U) := by
  intro r hr
  have := mem_zipWith_mk X U r hr
  exact ⟨hX _ this.1, hU _ this.2⟩

/-- `lift_state` (zero inputs) gives the same lifted state as lifting the state together with the true
inputs — this is where C02 enters C07 -/
theorem liftStateEp_eq (hE : EnvLaws env) (hL : XLoc env) (X U : List (List α))
    (hX : ∀ x ∈ X, x.length = p.w.1) (hU : ∀ u ∈ U, u.length = p.w.2) (hlen : X.length ≤ U.length) :
    liftStateEp env p X = (Stage.tr env p.s (List.zipWith Row.mk X U)).map (·.x) := by
  unfold liftStateEp
  apply Stage.x_local env hE hL p.s p.w.1 p.w.2
  · intro r hr
    simp only [List.mem_map] at hr
    obtain ⟨x, hx, rfl⟩ := hr
    exact ⟨hX x hx, by simp [zeros]⟩
  · exact typed_zipWith_mk _ _ X U hX hU
  · rw [map_x_zipWith_mk X U hlen, List.map_map]
    simp [Function.comp_def]

/-- the step of the re-lifting loop is the last row of the one-step prediction (`predict`) of the window
made of the previously predicted states and the true inputs -/
theorem step_eq_predict (hE : EnvLaws env) (hL : XLoc env) (Xw Uw : List (List α))
    (hX : ∀ x ∈ Xw, x.length = p.w.1) (hU : ∀ u ∈ Uw, u.length = p.w.2) (hlen : Xw.length ≤ Uw.length) :
    retractStateEp env p (List.zipWith (fun t u => matVec p.K (t ++ u))
        (liftStateEp env p Xw) (liftInputEp env p Xw Uw))
      = predictEp env p (List.zipWith Row.mk Xw Uw) := by
  rw [liftStateEp_eq env p hE hL Xw Uw hX hU hlen]
  unfold liftInputEp predictEp
  rw [zipWith_map_x_u]

end Pk

namespace Pk
variable {α : Type} {κ : Type} [Add α] [Mul α] [OfNat α 0]
variable (env : κ → RowFn α) (p : Pipe α κ)

/-- the lifted recursion holds inside a log of lifted states / lifted inputs -/
def LiftedRec (Ths Ups : List (List α)) : Prop :=
  ∀ i, i + 1 < Ths.length → Ths.getD (i+1) [] = matVec p.K (Ths.getD i [] ++ Ups.getD i [])

theorem getD_append_left' {β : Type} (l1 l2 : List β) (d : β) (i : Nat) (h : i < l1.length) :
    (l1 ++ l2).getD i d = l1.getD i d := by
  simp [List.getD_eq_getElem?_getD, List.getElem?_append_left h]

theorem getD_append_len {β : Type} (l1 : List β) (b d : β) : (l1 ++ [b]).getD l1.length d = b := by
  simp [List.getD_eq_getElem?_getD]

/-- loop invariant of the no-relift loop: the logged lifted trajectory satisfies `θ[i+1] = K [θ[i]; υ[i]]` -/
theorem trajNoRelift_rec (U : List (List α)) (fuel k : Nat) (th : List α) (X Ths Ups : List (List α))
    (hrec : LiftedRec p Ths Ups) (hle : Ths.length ≤ Ups.length + 1)
    (hinv : k ≤ U.length - p.m + 1 → Ups.length + 1 = Ths.length ∧ Ths.getD (Ths.length - 1) [] = th) :
    LiftedRec p (trajNoRelift env p U fuel k th X Ths Ups).2.1 (trajNoRelift env p U fuel k th X Ths Ups).2.2 := by
  induction fuel generalizing k th X Ths Ups with
  | zero => simpa [trajNoRelift] using hrec
  | succ f ih =>
    simp only [trajNoRelift]
    split
    · rename_i hk
      have hk' : k ≤ U.length - p.m + 1 := by omega
      obtain ⟨hlen, hlast⟩ := hinv hk'
      apply ih
      · -- the recursion still holds after appending th' and up
        intro i hi
        simp only [List.length_append, List.length_cons, List.length_nil] at hi
        by_cases hi2 : i + 1 < Ths.length
        · rw [getD_append_left' _ _ _ _ hi2, getD_append_left' _ _ _ _ (by omega),
              getD_append_left' _ _ _ _ (by omega)]
          exact hrec i hi2
        · have hie : i + 1 = Ths.length := by omega
          have hiu : i = Ups.length := by omega
          rw [hie, getD_append_len, getD_append_left' _ _ _ _ (by omega), hiu, getD_append_len]
          have : Ths.getD Ups.length [] = th := by
            have e : Ups.length = Ths.length - 1 := by omega
            rw [e]; exact hlast
          rw [this]
      · simp only [List.length_append, List.length_cons, List.length_nil]; omega
      · intro _
        refine ⟨by simp; omega, ?_⟩
        simp only [List.length_append, List.length_cons, List.length_nil, Nat.add_sub_cancel]
        exact getD_append_len _ _ _
    · rename_i hk
      apply ih
      · intro i hi
        rw [hrec i hi]
        rw [getD_append_left' _ _ _ _ (by omega)]
      · simp only [List.length_append, List.length_cons, List.length_nil]; omega
      · intro hk2; omega

/-- the loop logs exactly one lifted-input row per iteration … -/
theorem trajNoRelift_ups_length (U : List (List α)) (fuel k : Nat) (th : List α) (X Ths Ups : List (List α)) :
    (trajNoRelift env p U fuel k th X Ths Ups).2.2.length = Ups.length + fuel := by
  induction fuel generalizing k th X Ths Ups with
  | zero => simp [trajNoRelift]
  | succ f ih =>
    simp only [trajNoRelift]
    split <;> (rw [ih]; simp; omega)

/-- … one lifted state per iteration except the last, and one retracted state likewise -/
theorem trajNoRelift_lengths (U : List (List α)) (fuel k : Nat) (th : List α) (X Ths Ups : List (List α)) :
    (trajNoRelift env p U fuel k th X Ths Ups).2.1.length = Ths.length + min fuel (U.length - p.m + 1 - k)
    ∧ (trajNoRelift env p U fuel k th X Ths Ups).1.length = X.length + min fuel (U.length - p.m + 1 - k) := by
  induction fuel generalizing k th X Ths Ups with
  | zero => simp [trajNoRelift]
  | succ f ih =>
    simp only [trajNoRelift]
    generalize ((liftInputEp env p (window (k - 1) p.m X) (window (k - 1) p.m U)).head?).getD [] = up
    split
    · generalize (retractStateEp env p [matVec p.K (th ++ up)]).getLast?.getD [] = xk
      obtain ⟨h1, h2⟩ := ih (k+1) (matVec p.K (th ++ up)) (X ++ [xk]) (Ths ++ [matVec p.K (th ++ up)]) (Ups ++ [up])
      rw [h1, h2]; simp only [List.length_append, List.length_cons, List.length_nil]; omega
    · obtain ⟨h1, h2⟩ := ih (k+1) th X Ths (Ups ++ [up])
      rw [h1, h2]; omega

/-- the known states and the logged lifted inputs only ever grow at the end -/
theorem trajNoRelift_prefix (U : List (List α)) (fuel k : Nat) (th : List α) (X Ths Ups : List (List α)) :
    (∃ t, (trajNoRelift env p U fuel k th X Ths Ups).1 = X ++ t)
    ∧ (∃ t, (trajNoRelift env p U fuel k th X Ths Ups).2.2 = Ups ++ t) := by
  induction fuel generalizing k th X Ths Ups with
  | zero => exact ⟨⟨[], by simp [trajNoRelift]⟩, ⟨[], by simp [trajNoRelift]⟩⟩
  | succ f ih =>
    simp only [trajNoRelift]
    generalize ((liftInputEp env p (window (k - 1) p.m X) (window (k - 1) p.m U)).head?).getD [] = up
    split
    · generalize (retractStateEp env p [matVec p.K (th ++ up)]).getLast?.getD [] = xk
      obtain ⟨⟨t, ht⟩, ⟨t2, ht2⟩⟩ :=
        ih (k+1) (matVec p.K (th ++ up)) (X ++ [xk]) (Ths ++ [matVec p.K (th ++ up)]) (Ups ++ [up])
      exact ⟨⟨xk :: t, by rw [ht]; simp⟩, ⟨up :: t2, by rw [ht2]; simp⟩⟩
    · obtain ⟨h1, ⟨t2, ht2⟩⟩ := ih (k+1) th X Ths (Ups ++ [up])
      exact ⟨h1, ⟨up :: t2, by rw [ht2]; simp⟩⟩

theorem window_append_left {β : Type} (i len : Nat) (l t : List β) (h : i + len ≤ l.length) :
    window i len (l ++ t) = window i len l := by
  unfold window
  rw [List.drop_append_of_le_length (by omega), List.take_append_of_le_length (by simp; omega)]

/-- every logged lifted-input row — the one of the last iteration included — is `lift_input` of the window of
(retracted) states and supplied inputs of its own time step, taken from the FINAL state trajectory -/
theorem trajNoRelift_ups_get (U : List (List α)) (fuel k : Nat) (th : List α) (X Ths Ups : List (List α))
    (hk : 1 ≤ k) (hfuel : k + fuel ≤ U.length - p.m + 1 + 1) (hX : X.length = p.m + (k - 1)) (j : Nat)
    (hj : j < fuel) :
    (trajNoRelift env p U fuel k th X Ths Ups).2.2[Ups.length + j]?
      = some (((liftInputEp env p (window (k - 1 + j) p.m (trajNoRelift env p U fuel k th X Ths Ups).1)
          (window (k - 1 + j) p.m U)).head?).getD []) := by
  induction fuel generalizing k th X Ths Ups j with
  | zero => omega
  | succ f ih =>
    simp only [trajNoRelift]
    generalize hup : ((liftInputEp env p (window (k - 1) p.m X) (window (k - 1) p.m U)).head?).getD [] = up
    split
    · rename_i hlt
      generalize (retractStateEp env p [matVec p.K (th ++ up)]).getLast?.getD [] = xk
      cases j with
      | zero =>
        obtain ⟨⟨t, ht⟩, ⟨t2, ht2⟩⟩ := trajNoRelift_prefix env p U f (k+1) (matVec p.K (th ++ up)) (X ++ [xk])
          (Ths ++ [matVec p.K (th ++ up)]) (Ups ++ [up])
        rw [ht2, ht, List.append_assoc, List.append_assoc, window_append_left _ _ _ _ (by omega)]
        simp [hup]
      | succ j' =>
        have := ih (k+1) (matVec p.K (th ++ up)) (X ++ [xk]) (Ths ++ [matVec p.K (th ++ up)]) (Ups ++ [up])
          (by omega) (by omega) (by simp; omega) j' (by omega)
        have e1 : (Ups ++ [up]).length + j' = Ups.length + (j' + 1) := by simp; omega
        have e2 : k + 1 - 1 + j' = k - 1 + (j' + 1) := by omega
        rw [e1, e2] at this
        exact this
    · rename_i hge
      have hj0 : j = 0 := by omega
      subst hj0
      obtain ⟨⟨t, ht⟩, ⟨t2, ht2⟩⟩ := trajNoRelift_prefix env p U f (k+1) th X Ths (Ups ++ [up])
      rw [ht2, ht, List.append_assoc, window_append_left _ _ _ _ (by omega)]
      simp [hup]

end Pk
