/-! The divergence ("crash index / fill with NaN") handling of `KoopmanPipeline.predict_trajectory`, as a loop skeleton:
the prediction step is a parameter that either yields the next row or DIVERGES (in the code: a `ValueError` raised while
one of the inspected intermediates is non-finite).  What is modelled is the bookkeeping around it - where the loop stops,
which rows of the episode are reported as NaN, how many rows come back, and that nothing of it leaks into another
episode.  Core Lean only; executable. -/
namespace Pk.Diverge
variable {β : Type}

/-- the re-lifting loop: `X` holds the rows known so far; `step k X` is the row of time `k = |X|` or `none` (diverged).
On divergence the loop stops and the crash index is `k − 1`: the row computed last is discarded too. -/
def loop (step : Nat → List β → Option β) : Nat → List β → List β × Option Nat
  | 0, X => (X, none)
  | fuel+1, X =>
    match step X.length X with
    | some r => loop step fuel (X ++ [r])
    | none => (X, some (X.length - 1))

/-- the same loop with a step that cannot diverge -/
def loopT (stepT : Nat → List β → β) : Nat → List β → List β
  | 0, X => X
  | fuel+1, X => loopT stepT fuel (X ++ [stepT X.length X])

/-- what the caller receives for the episode: `n` rows, `none` (NaN) from the crash index on -/
def fill (n : Nat) (r : List β × Option Nat) : List (Option β) :=
  match r.2 with
  | none => r.1.map some
  | some c => (r.1.take c).map some ++ List.replicate (n - c) none

/-- one episode: `m` initial rows, `n` rows in total -/
def episode (step : Nat → List β → Option β) (m n : Nat) (x0 : List β) : List (Option β) :=
  fill n (loop step (n - m) x0)

/-- which rows are NaN: all rows from the crash index on -/
def nanPattern (rows : Nat) (c : Option Nat) : List Bool :=
  (List.range rows).map fun i => match c with
    | none => false
    | some c => decide (c ≤ i)

/-- crash index as a function of the first diverging iteration (`k − 1` in both loops of the code) -/
def crashOf (failStep : Option Nat) : Option Nat := failStep.map (· - 1)

/-- a whole call: every episode handled by its own loop (label, initial rows, length, its own step function) -/
def call (eps : List (Nat × (Nat → List β → Option β) × Nat × Nat × List β)) : List (Nat × List (Option β)) :=
  eps.map fun e => (e.1, episode e.2.1 e.2.2.1 e.2.2.2.1 e.2.2.2.2)

/-! ### laws -/

theorem loop_length (step : Nat → List β → Option β) (fuel : Nat) (X : List β) :
    (loop step fuel X).2 = none → (loop step fuel X).1.length = X.length + fuel := by
  induction fuel generalizing X with
  | zero => intro _; simp [loop]
  | succ f ih =>
    intro h
    cases hs : step X.length X with
    | some r =>
      simp only [loop, hs] at h ⊢
      have := ih (X ++ [r]) h
      simp only [List.length_append, List.length_singleton] at this
      omega
    | none => simp [loop, hs] at h

theorem loop_crash (step : Nat → List β → Option β) (fuel : Nat) (X : List β) (c : Nat) :
    (loop step fuel X).2 = some c →
      c + 1 = (loop step fuel X).1.length ∨ ((loop step fuel X).1.length = 0 ∧ c = 0) := by
  induction fuel generalizing X with
  | zero => intro h; simp [loop] at h
  | succ f ih =>
    intro h
    cases hs : step X.length X with
    | some r =>
      simp only [loop, hs] at h ⊢
      exact ih (X ++ [r]) h
    | none =>
      simp only [loop, hs, Option.some.injEq] at h ⊢
      omega

theorem loop_grows (step : Nat → List β → Option β) (fuel : Nat) (X : List β) :
    X.length ≤ (loop step fuel X).1.length ∧ (loop step fuel X).1.length ≤ X.length + fuel := by
  induction fuel generalizing X with
  | zero => simp [loop]
  | succ f ih =>
    unfold loop
    split
    · rename_i r hr
      have := ih (X ++ [r])
      simp only [List.length_append, List.length_singleton] at this
      omega
    · simp

/-- the rows the loop keeps extend the rows it started from -/
theorem loop_prefix (step : Nat → List β → Option β) (fuel : Nat) (X : List β) :
    (loop step fuel X).1.take X.length = X := by
  induction fuel generalizing X with
  | zero => simp [loop]
  | succ f ih =>
    unfold loop
    split
    · rename_i r hr
      have h := ih (X ++ [r])
      have : ((loop step f (X ++ [r])).1.take (X ++ [r]).length).take X.length = (X ++ [r]).take X.length := by rw [h]
      simpa [List.take_take] using this
    · simp

/-- as long as the diverging step agrees with a total one where it succeeds, every row the loop keeps is the row of
the computation that never diverges -/
theorem loop_agrees (step : Nat → List β → Option β) (stepT : Nat → List β → β)
    (h : ∀ k X r, step k X = some r → r = stepT k X) (fuel : Nat) (X : List β) :
    (loop step fuel X).1 = (loopT stepT fuel X).take (loop step fuel X).1.length := by
  induction fuel generalizing X with
  | zero => simp [loop, loopT]
  | succ f ih =>
    unfold loop loopT
    split
    · rename_i r hr
      have e := h _ _ _ hr
      subst e
      exact ih _
    · have : X = ((loopT stepT (f + 1) X)).take X.length := by
        clear ih
        have key : ∀ (g : Nat) (Y : List β), (loopT stepT g Y).take Y.length = Y := by
          intro g
          induction g with
          | zero => intro Y; simp [loopT]
          | succ g ihg =>
            intro Y
            unfold loopT
            have h2 := ihg (Y ++ [stepT Y.length Y])
            have : ((loopT stepT g (Y ++ [stepT Y.length Y])).take (Y ++ [stepT Y.length Y]).length).take Y.length
                = (Y ++ [stepT Y.length Y]).take Y.length := by rw [h2]
            simpa [List.take_take] using this
        exact (key (f + 1) X).symm
      simpa [loopT] using this

theorem fill_length (n : Nat) (r : List β × Option Nat)
    (h1 : r.2 = none → r.1.length = n) (h2 : ∀ c, r.2 = some c → c ≤ r.1.length ∧ c ≤ n) :
    (fill n r).length = n := by
  unfold fill
  split
  · rename_i h; simpa using h1 h
  · rename_i c h
    have := h2 c h
    simp only [List.length_append, List.length_map, List.length_take, List.length_replicate]
    omega

/-- **one row per input sample, also when the prediction diverges** -/
theorem episode_length (step : Nat → List β → Option β) (m n : Nat) (x0 : List β)
    (h0 : x0.length = m) (hm : m ≤ n) : (episode step m n x0).length = n := by
  unfold episode
  apply fill_length
  · intro h
    have := loop_length step (n - m) x0 h
    omega
  · intro c h
    have hc := loop_crash step (n - m) x0 c h
    have hg := loop_grows step (n - m) x0
    omega

/-- **NaN exactly from the crash index on** -/
theorem fill_pattern (n : Nat) (r : List β × Option Nat)
    (h1 : r.2 = none → r.1.length = n) (h2 : ∀ c, r.2 = some c → c ≤ r.1.length ∧ c ≤ n) :
    (fill n r).map Option.isNone = nanPattern n r.2 := by
  apply List.ext_getElem
  · simp [fill_length n r h1 h2, nanPattern]
  · intro i hi1 hi2
    simp only [List.getElem_map, nanPattern, List.getElem_range]
    unfold fill
    split
    · rename_i h
      simp [h]
    · rename_i c h
      have hc := h2 c h
      simp only [h]
      by_cases hic : i < c
      · rw [List.getElem_append_left (by simp; omega)]
        simp; omega
      · rw [List.getElem_append_right (by simp; omega)]
        simp; omega

/-- **before the crash index the reported rows are the rows of the computation that does not diverge** -/
theorem episode_prefix (step : Nat → List β → Option β) (stepT : Nat → List β → β)
    (h : ∀ k X r, step k X = some r → r = stepT k X) (m n : Nat) (x0 : List β) (i : Nat) (r : β)
    (hi : (episode step m n x0)[i]? = some (some r)) : (loopT stepT (n - m) x0)[i]? = some r := by
  unfold episode fill at hi
  have ha := loop_agrees step stepT h (n - m) x0
  split at hi
  · rename_i hn
    rw [List.getElem?_map] at hi
    cases hx : (loop step (n - m) x0).1[i]? with
    | none => simp [hx] at hi
    | some v =>
      simp only [hx, Option.map_some, Option.some.injEq] at hi
      subst hi
      rw [ha] at hx
      rw [List.getElem?_take] at hx
      split at hx
      · exact hx
      · simp at hx
  · rename_i c hc
    by_cases hic : i < ((loop step (n - m) x0).1.take c).length
    · rw [List.getElem?_append_left (by simpa using hic)] at hi
      rw [List.getElem?_map] at hi
      cases hx : ((loop step (n - m) x0).1.take c)[i]? with
      | none => simp [hx] at hi
      | some v =>
        simp only [hx, Option.map_some, Option.some.injEq] at hi
        subst hi
        rw [List.getElem?_take] at hx
        split at hx
        · rw [ha, List.getElem?_take] at hx
          split at hx
          · exact hx
          · simp at hx
        · simp at hx
    · rw [List.getElem?_append_right (by simpa using hic)] at hi
      simp only [List.length_map] at hi
      rw [List.getElem?_replicate] at hi
      split at hi <;> simp at hi

/-- **divergence is local to its episode**: what one episode of a call returns is a function of that episode's own
initial rows, length and step outcomes - whatever happens (or diverges) in the other episodes of the call -/
theorem call_local (pre post : List (Nat × (Nat → List β → Option β) × Nat × Nat × List β))
    (e : Nat × (Nat → List β → Option β) × Nat × Nat × List β) :
    (call (pre ++ e :: post))[pre.length]? = some (e.1, episode e.2.1 e.2.2.1 e.2.2.2.1 e.2.2.2.2) := by
  simp [call]

end Pk.Diverge
