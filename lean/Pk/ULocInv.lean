import Pk.XLocInv
/-! Input-block locality of the inverse (mirror image of `XLocInv`): the input block of `inverse_transform`
depends only on the lifted-input block of its argument.  Core Lean only. -/
namespace Pk
variable {α : Type} {κ : Type}

variable (env : κ → RowFn α)

structure ULocInv (env : κ → RowFn α) : Prop where
  uloc : ∀ k w r r', r.u = r'.u → ((env k).g w r).u = ((env k).g w r').u

theorem onlyU_eq_of_u (X X' : Ep α) (h : X.map (·.u) = X'.map (·.u)) : onlyU X = onlyU X' := by
  unfold onlyU
  exact map_congr_of_map_eq (·.u) (fun r => (⟨[], r.u⟩ : Row α)) X X' h (fun r r' hr => by simp [hr])

theorem map_u_zipXU' (A' B' : Ep α) (h : A'.length = B'.length) :
    (List.zipWith (fun a b => (⟨a.x, b.u⟩ : Row α)) A' B').map (·.u) = B'.map (·.u) := by
  induction A' generalizing B' with
  | nil => cases B' with
    | nil => simp
    | cons b t => simp at h
  | cons a t ih =>
    cases B' with
    | nil => simp at h
    | cons b t' => simp at h; simp [ih t' h]

theorem zipXU_u (A B : Ep α) :
    (zipXU A B).map (·.u) = (lastN (min A.length B.length) B).map (·.u) := by
  unfold zipXU
  simp only []
  apply map_u_zipXU'
  rw [lastN_length, lastN_length]; omega

theorem undelayEp_u (wx wu dx du : Nat) (Y Y' : Ep α) (h : Y.map (·.u) = Y'.map (·.u)) :
    (undelayEp wx wu dx du Y).map (·.u) = (undelayEp wx wu dx du Y').map (·.u) := by
  have hlen := length_of_map_eq _ Y Y' h
  by_cases hY : Y = []
  · subst hY
    have : Y' = [] := List.eq_nil_of_length_eq_zero (by simpa using hlen.symm)
    subst this; rfl
  · have hY' : Y' ≠ [] := by
      intro h0; subst h0; exact hY (List.eq_nil_of_length_eq_zero (by simpa using hlen))
    have hx : Y.map (·.x) ≠ [] := by simpa using hY
    have hu : Y.map (·.u) ≠ [] := by simpa using hY
    have hx' : Y'.map (·.x) ≠ [] := by simpa using hY'
    have hu' : Y'.map (·.u) ≠ [] := by simpa using hY'
    unfold undelayEp
    simp only []
    rw [map_snd_zipWith Row.mk (·.u) (fun _ _ => rfl) _ _ (by simp [lastN_length]),
        map_snd_zipWith Row.mk (·.u) (fun _ _ => rfl) _ _ (by simp [lastN_length])]
    rw [undelayCols_length _ _ _ hx, undelayCols_length _ _ _ hu, undelayCols_length _ _ _ hx',
      undelayCols_length _ _ _ hu', h]
    simp only [List.length_map, hlen]

mutual
theorem Stage.inv_u_local (hL : ULocInv env) (s : Stage κ) (w : Nat × Nat) (Y Y' : Ep α)
    (h : Y.map (·.u) = Y'.map (·.u)) :
    (Stage.inv env s w Y).map (·.u) = (Stage.inv env s w Y').map (·.u) := by
  cases s with
  | rw k =>
    simp only [Stage.inv, List.map_map]
    exact map_congr_of_map_eq (·.u) _ Y Y' h (fun r r' e => hL.uloc k w r r' e)
  | delay dx du => obtain ⟨wx, wu⟩ := w; simpa [Stage.inv] using undelayEp_u wx wu dx du Y Y' h
  | split a b =>
    obtain ⟨wx, wu⟩ := w
    have hlen := length_of_map_eq _ Y Y' h
    simp only [Stage.inv]
    rw [zipXU_u, zipXU_u, onlyU_eq_of_u Y Y' h]
    by_cases hY : Y = []
    · subst hY
      have : Y' = [] := List.eq_nil_of_length_eq_zero (by simpa using hlen.symm)
      subst this; rfl
    · have hY' : Y' ≠ [] := by
        intro h0; subst h0; exact hY (List.eq_nil_of_length_eq_zero (by simpa using hlen))
      have hx : onlyX Y ≠ [] := by simpa [onlyX] using hY
      have hx' : onlyX Y' ≠ [] := by simpa [onlyX] using hY'
      rw [Stages.length_inv env a _ _ hx, Stages.length_inv env a _ _ hx', onlyX_length, onlyX_length, hlen]
  | pipe ss => simpa [Stage.inv] using Stages.inv_u_local hL ss w Y Y' h
theorem Stages.inv_u_local (hL : ULocInv env) (ss : Stages κ) (w : Nat × Nat) (Y Y' : Ep α)
    (h : Y.map (·.u) = Y'.map (·.u)) :
    (Stages.inv env ss w Y).map (·.u) = (Stages.inv env ss w Y').map (·.u) := by
  cases ss with
  | nil => simpa [Stages.inv] using h
  | cons s rest =>
    simp only [Stages.inv]
    exact Stage.inv_u_local hL s w _ _ (Stages.inv_u_local hL rest _ Y Y' h)
end

theorem rowFn_ulocInv (ops : Ops α) (ok : α → Prop) : ULocInv (rowFn ops ok) where
  uloc := by
    intro k w r r' h
    obtain ⟨wx, wu⟩ := w
    cases k <;> simp [rowFn, takeInv, h]

end Pk
