import Pk.Kinds
import Pk.XLoc
/-! Row-level laws of the concrete kinds: left inverse, output widths, state-block locality.
These instantiate the abstract `EnvLaws` / `XLoc` of the stage-tree theorems. Core Lean only. -/
namespace Pk
variable {α : Type}

theorem length_flatMap_const {β γ : Type} (l : List β) (f : β → List γ) (n : Nat)
    (h : ∀ b ∈ l, (f b).length = n) : (l.flatMap f).length = l.length * n := by
  induction l with
  | nil => simp
  | cons b t ih =>
    have hb := h b (by simp)
    have := ih (fun b' hb' => h b' (by simp [hb']))
    simp only [List.flatMap_cons, List.length_append, List.length_cons, hb, this, Nat.succ_mul]; omega

theorem mapIdxFrom_length {β γ : Type} (f : Nat → β → γ) (j : Nat) (l : List β) :
    (mapIdxFrom f j l).length = l.length := by
  induction l generalizing j with
  | nil => rfl
  | cons b t ih => simp [mapIdxFrom, ih]

theorem mapIdxFrom_inv {β : Type} (f g : Nat → β → β) (h : ∀ j v, g j (f j v) = v) (j : Nat) (l : List β) :
    mapIdxFrom g j (mapIdxFrom f j l) = l := by
  induction l generalizing j with
  | nil => rfl
  | cons b t ih => simp [mapIdxFrom, h, ih]

theorem angleCount_succ (feat : List Nat) (lo w : Nat) :
    angleCount feat lo (w+1) = (if feat.contains lo then 1 else 0) + angleCount feat (lo+1) w := by
  unfold angleCount
  rw [List.range'_succ, List.filter_cons]
  split <;> simp <;> omega

theorem flatMapIdx_angle_length (ops : Ops α) (feat : List Nat) (j : Nat) (l : List α) :
    (flatMapIdx (angleEnc ops feat) j l).length = l.length + angleCount feat j l.length := by
  induction l generalizing j with
  | nil => simp [flatMapIdx, angleCount]
  | cons b t ih =>
    simp only [flatMapIdx, List.length_append, List.length_cons, ih, angleCount_succ, angleEnc]
    split <;> simp <;> omega

theorem angleDec_enc (ops : Ops α) (ok : α → Prop) (hL : ops.Lawful ok) (feat : List Nat) (j : Nat) (l : List α)
    (hok : ∀ v ∈ l, ok v) :
    angleDec ops feat l.length j (flatMapIdx (angleEnc ops feat) j l) = l := by
  induction l generalizing j with
  | nil => simp [angleDec]
  | cons b t ih =>
    have hb := hok b (by simp)
    have ht := ih (j+1) (fun v hv => hok v (by simp [hv]))
    simp only [List.length_cons, angleDec, flatMapIdx, angleEnc]
    by_cases hc : feat.contains j = true
    · simp only [hc, if_true, List.cons_append, List.nil_append]
      rw [hL.atan2_sin_cos b hb, ht]
    · simp only [hc, List.cons_append, List.nil_append]
      simp [ht]

theorem takeInv_append (x u ex eu : List α) :
    takeInv (x.length, u.length) (⟨x ++ ex, u ++ eu⟩ : Row α) = ⟨x, u⟩ := by
  simp [takeInv]

/-- output widths of every kind, as a function of the input widths only (no law of the opaque functions needed) -/
theorem rowFn_wx_len (ops : Ops α) (ok : α → Prop) (k : Kind) (r : Row α) :
    ((rowFn ops ok k).f r).x.length = (kindW k (r.x.length, r.u.length)).1 := by
  cases k with
  | poly order io => simp [rowFn, kindW]
  | bilinear => simp [rowFn, kindW]
  | const => simp [rowFn, kindW]
  | rbf id n => simp only [rowFn, kindW]; split <;> simp_all
  | kernel id n => simp only [rowFn, kindW]; split <;> simp_all
  | sk id => simp [rowFn, kindW, mapIdxFrom_length]
  | angle feat => simp [rowFn, kindW, flatMapIdx_angle_length]

theorem rowFn_wu_len (ops : Ops α) (ok : α → Prop) (k : Kind) (r : Row α) :
    ((rowFn ops ok k).f r).u.length = (kindW k (r.x.length, r.u.length)).2 := by
  cases k with
  | poly order io => simp [rowFn, kindW]
  | bilinear =>
    simp only [rowFn, kindW, List.length_append]
    rw [length_flatMap_const r.u _ r.x.length (by intro b _; simp)]
  | const => simp [rowFn, kindW]
  | rbf id n => simp only [rowFn, kindW]; split <;> simp_all
  | kernel id n => simp only [rowFn, kindW]; split <;> simp_all
  | sk id => simp [rowFn, kindW, mapIdxFrom_length]
  | angle feat => simp [rowFn, kindW, flatMapIdx_angle_length]

/-- every kind satisfies the abstract laws the tree theorems need -/
theorem rowFn_laws (ops : Ops α) (ok : α → Prop) (hL : ops.Lawful ok) : EnvLaws (rowFn ops ok) where
  inv := by
    intro k wx wu r hx hu hd
    subst hx; subst hu
    cases r with
    | mk x u =>
    cases k with
    | poly order io => simp [rowFn, takeInv]
    | bilinear => simp [rowFn, takeInv]
    | const => simp [rowFn, takeInv]
    | rbf id n =>
      simp only [rowFn]
      split <;> simp [takeInv]
    | kernel id n =>
      simp only [rowFn]
      split <;> simp [takeInv]
    | sk id =>
      simp only [rowFn]
      rw [mapIdxFrom_inv _ _ (hL.sk_inv id), mapIdxFrom_inv _ _ (hL.sk_inv id)]
    | angle feat =>
      simp only [rowFn] at hd ⊢
      rw [angleDec_enc ops ok hL feat 0 x (fun v hv => hd v (by simp [hv])),
          angleDec_enc ops ok hL feat x.length u (fun v hv => hd v (by simp [hv]))]
  wx := by
    intro k r
    rw [rowFn_wx_len]; cases k <;> rfl
  wu := by
    intro k r
    rw [rowFn_wu_len]; cases k <;> rfl

theorem getD_append_lt (x u u' : List α) (d : α) (i : Nat) (h : i < x.length) :
    (x ++ u).getD i d = (x ++ u').getD i d := by
  simp [List.getD_eq_getElem?_getD, List.getElem?_append_left h]

theorem mem_of_mem_runs (c : List Nat) (ip : Nat × Nat) (h : ip ∈ runs c) : ip.1 ∈ c := by
  induction c generalizing ip with
  | nil => simp [runs] at h
  | cons i t ih =>
    simp only [runs] at h
    split at h
    · rename_i j p rest heq
      split at h
      · rename_i hij
        simp only [List.mem_cons] at h
        rcases h with rfl | h
        · simp [hij]
        · exact List.mem_cons_of_mem _ (ih ip (by rw [heq]; simp [h]))
      · simp only [List.mem_cons] at h
        rcases h with rfl | rfl | h
        · simp
        · exact List.mem_cons_of_mem _ (ih _ (by rw [heq]; simp))
        · exact List.mem_cons_of_mem _ (ih ip (by rw [heq]; simp [h]))
    · simp only [List.mem_singleton] at h
      subst h; simp

theorem monoVal_stateOnly (ops : Ops α) (x u u' : List α) (c : List Nat) (h : stateOnly x.length c = true) :
    monoVal ops (x ++ u) c = monoVal ops (x ++ u') c := by
  unfold monoVal
  congr 1
  apply List.map_congr_left
  intro ip hip
  have hi : ip.1 ∈ c := mem_of_mem_runs c ip hip
  simp only [stateOnly, List.all_eq_true, decide_eq_true_eq] at h
  simp only [getD_append_lt x u u' _ ip.1 (h ip.1 hi)]

/-- C02 at row level for every kind: the lifted state block is a function of the state block -/
theorem rowFn_xloc (ops : Ops α) (ok : α → Prop) : XLoc (rowFn ops ok) where
  xloc := by
    intro k r r' hx hu
    cases r with
    | mk x u =>
    cases r' with
    | mk x' u' =>
    simp only at hx hu
    subst hx
    cases k with
    | poly order io =>
      simp only [rowFn, hu]
      congr 1
      apply List.map_congr_left
      intro c hc
      simp only [polyX, List.mem_filter] at hc
      exact monoVal_stateOnly ops x u u' c hc.2
    | bilinear => simp [rowFn]
    | const => simp [rowFn]
    | rbf id n =>
      simp only [rowFn, hu]
      split
      · rename_i h0
        have e1 : u' = [] := List.eq_nil_of_length_eq_zero h0
        have e2 : u = [] := List.eq_nil_of_length_eq_zero (by omega)
        simp [e1, e2]
      · rfl
    | kernel id n =>
      simp only [rowFn, hu]
      split
      · rename_i h0
        have e1 : u' = [] := List.eq_nil_of_length_eq_zero h0
        have e2 : u = [] := List.eq_nil_of_length_eq_zero (by omega)
        simp [e1, e2]
      · rfl
    | sk id => simp [rowFn]
    | angle feat => simp [rowFn]

end Pk
