import Pk.Score
import Pk.InvFlow
import Pk.PredictLaws
/-! Matrix-level refinement of `predict` and of the two-matrix call form of `predict_trajectory`: label by label they
are the per-episode functions applied to that episode's own rows (what the scorers of C08 compare).  Core Lean only. -/
namespace Pk
variable {α κ : Type} [Add α] [Mul α] [OfNat α 0]

theorem episodeOf_map_snd {ρ σ : Type} (f : ρ → σ) (X : Mat ρ) (l : Nat) :
    episodeOf l (X.map fun q => (q.1, f q.2)) = (episodeOf l X).map f := by
  simp [episodeOf, List.filter_map, Function.comp_def]

/-- `predict` on a multi-episode matrix is, label by label, the one-step prediction of that episode alone -/
theorem predictFlat_refines (env : κ → RowFn α) (p : Pipe α κ) (X : FlatMat α)
    (hG : Guard (Stage.loss p.s + 1) (toPairs p.w.1 X)) (l : Nat) :
    episodeOf l (predictFlat env p X) = predictEp env p (episodeOf l (toPairs p.w.1 X)) := by
  unfold predictFlat predictEp retractStateEp
  simp only []
  rw [episodeOf_map_snd, Stage.mi_refines, episodeOf_perEpisode _ (by simp), Stage.mt_refines env p.s _ hG l]
  simp [List.map_map, Function.comp_def, Pipe.wOut]

theorem labels_eq_of_episodes {ρ σ : Type} (X : Mat ρ) (Y : Mat σ)
    (h : ∀ l, episodeOf l Y ≠ [] ↔ episodeOf l X ≠ []) : labels Y = labels X := by
  apply asc_ext _ _ (asc_labels Y) (asc_labels X)
  intro l
  rw [mem_labels_iff, mem_labels_iff]
  exact h l

/-- the two-matrix call form of `predict_trajectory`, label by label: with initial conditions and inputs extracted
from one data matrix `Xun`, the prediction of episode `l` is the trajectory computed from that episode's own first `m`
states and own inputs -/
theorem predictTrajectory_refines (env : κ → RowFn α) (p : Pipe α κ) (relift rl ri : Bool) (Xun : FlatMat α)
    (f g : List α → List α) (hm : 1 ≤ p.m) (Xp : FlatMat α)
    (hok : predictTrajectory env p relift rl ri (extractIC p.m f Xun) (some (extractInput g Xun)) = .ok Xp)
    (l : Nat) (hl : l ∈ labels Xun) :
    episodeOf l Xp = trajEp env p relift rl ri (((episodeOf l Xun).take p.m).map f) ((episodeOf l Xun).map g) := by
  have hx0 : ∀ l, episodeOf l (extractIC p.m f Xun) = ((episodeOf l Xun).take p.m).map f := by
    intro l; unfold extractIC; rw [episodeOf_perEpisode _ (by simp)]
  have hu : ∀ l, episodeOf l (extractInput g Xun) = (episodeOf l Xun).map g := by
    intro l; unfold extractInput; rw [episodeOf_perEpisode _ (by simp)]
  have hL0 : labels (extractIC p.m f Xun) = labels Xun := by
    apply labels_eq_of_episodes
    intro l; rw [hx0]
    cases h : episodeOf l Xun with
    | nil => simp
    | cons a t =>
      obtain ⟨k, hk⟩ : ∃ k, p.m = k + 1 := ⟨p.m - 1, by omega⟩
      simp [hk]
  have hLu : labels (extractInput g Xun) = labels Xun := by
    apply labels_eq_of_episodes
    intro l; rw [hu]; simp
  unfold predictTrajectory at hok
  simp only [splitEps, hL0, hLu, zipWith_map_map] at hok
  split at hok
  · cases hok
  · injection hok with hok
    rw [← hok, List.map_map]
    have := episodeOf_combine_family l
      (fun l' => trajEp env p relift rl ri (episodeOf l' (extractIC p.m f Xun)) (episodeOf l' (extractInput g Xun)))
      (labels Xun) (asc_labels Xun)
    simp only [Function.comp_def] at this ⊢
    rw [this, if_pos hl, hx0, hu]

end Pk
