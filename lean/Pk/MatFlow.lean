import Pk.Tree
import Pk.Mat
/-! Design experiment: the matrix-level flow of the stage tree (as the code routes rows) refines the
per-episode meaning, under the guard that no episode is shorter than `loss + 1 = min_samples_`. -/
namespace Pk
variable {α : Type}

abbrev M (α : Type) := Mat (Row α)

def mapRows {ρ : Type} (f : ρ → ρ) (X : Mat ρ) : Mat ρ := X.map fun p => (p.1, f p.2)
def perEpisode {ρ : Type} (g : List ρ → List ρ) (X : Mat ρ) : Mat ρ :=
  combine ((splitEps X).map fun p => (p.1, g p.2))

variable (env : κ → RowFn α)

mutual
def Stage.mt : Stage κ → M α → M α
  | .rw k, X => mapRows (env k).f X
  | .delay dx du, X => perEpisode (delayEp dx du) X
  | .split a b, X =>
      let Ts := Stages.mt a (perEpisode onlyX X)
      let Tu := Stages.mt b (perEpisode onlyU X)
      combine (List.zipWith (fun ps pu => (ps.1, zipXU ps.2 pu.2)) (splitEps Ts) (splitEps Tu))
  | .pipe ss, X => Stages.mt ss X
def Stages.mt : Stages κ → M α → M α
  | .nil, X => X
  | .cons s rest, X => Stages.mt rest (Stage.mt s X)
end

/-! generic facts about labels / episodes -/
section generic
variable {ρ : Type}

theorem episodeOf_mapRows (f : ρ → ρ) (X : Mat ρ) (l : Nat) :
    episodeOf l (mapRows f X) = (episodeOf l X).map f := by
  simp [episodeOf, mapRows, List.filter_map, Function.comp_def]

theorem mem_labels_iff (X : Mat ρ) (l : Nat) : l ∈ labels X ↔ episodeOf l X ≠ [] := by
  rw [mem_labels]
  constructor
  · rintro ⟨p, hp, hl⟩ h0
    simp only [episodeOf, List.map_eq_nil_iff, List.filter_eq_nil_iff] at h0
    exact h0 p hp (by simp [hl])
  · intro h
    induction X with
    | nil => simp [episodeOf] at h
    | cons q t ih =>
      by_cases hq : q.1 = l
      · exact ⟨q, by simp, hq⟩
      · have : episodeOf l (q :: t) = episodeOf l t := by
          simp [episodeOf, List.filter_cons, hq]
        rw [this] at h
        obtain ⟨p, hp, hl⟩ := ih h
        exact ⟨p, by simp [hp], hl⟩

theorem asc_ext (L L' : List Nat) (h : Asc L) (h' : Asc L') (hm : ∀ l, l ∈ L ↔ l ∈ L') : L = L' := by
  induction L generalizing L' with
  | nil =>
    cases L' with
    | nil => rfl
    | cons b t => exact absurd ((hm b).mpr (by simp)) (by simp)
  | cons a t ih =>
    cases L' with
    | nil => exact absurd ((hm a).mp (by simp)) (by simp)
    | cons b t' =>
      have hat := asc_head_lt a t h
      have hbt := asc_head_lt b t' h'
      have hAt : Asc t := by cases t with
        | nil => simp [Asc]
        | cons c t2 => exact h.2
      have hAt' : Asc t' := by cases t' with
        | nil => simp [Asc]
        | cons c t2 => exact h'.2
      have hab : a = b := by
        have h1 := (hm a).mp (by simp)
        have h2 := (hm b).mpr (by simp)
        simp only [List.mem_cons] at h1 h2
        rcases h1 with h1 | h1
        · exact h1
        · rcases h2 with h2 | h2
          · exact h2.symm
          · have := hbt a h1; have := hat b h2; omega
      subst hab
      congr 1
      apply ih t' hAt hAt'
      intro l
      have := hm l
      simp only [List.mem_cons] at this
      constructor
      · intro hl
        have hne : l ≠ a := fun e => by subst e; exact Nat.lt_irrefl _ (hat l hl)
        rcases this.mp (Or.inr hl) with e | e
        · exact absurd e hne
        · exact e
      · intro hl
        have hne : l ≠ a := fun e => by subst e; exact Nat.lt_irrefl _ (hbt l hl)
        rcases this.mpr (Or.inr hl) with e | e
        · exact absurd e hne
        · exact e

/-- `episodeOf` of a recombined family of blocks indexed by an ascending label list -/
theorem episodeOf_combine_family (l : Nat) (F : Nat → List ρ) (L : List Nat) (hL : Asc L) :
    episodeOf l (combine (L.map fun l' => (l', F l'))) = if l ∈ L then F l else [] := by
  induction L with
  | nil => simp [combine, episodeOf]
  | cons a t ih =>
    have hlt := asc_head_lt a t hL
    have hAt : Asc t := by cases t with
      | nil => simp [Asc]
      | cons b t' => exact hL.2
    have ih' := ih hAt
    simp only [combine, List.map_cons, List.flatMap_cons, episodeOf, List.filter_append, List.map_append] at ih' ⊢
    by_cases hal : a = l
    · subst hal
      have hnot : a ∉ t := fun hm => Nat.lt_irrefl _ (hlt a hm)
      simp only [hnot, if_false] at ih'
      rw [ih']
      simp [List.filter_map, Function.comp_def]
    · have h1 : List.filter (fun p => p.1 == l) (List.map (fun r => (a, r)) (F a)) = [] := by
        simp [List.filter_map, Function.comp_def, hal]
      rw [h1, ih']
      have hla : ¬ l = a := fun h => hal h.symm
      simp [hla]

theorem episodeOf_perEpisode (g : List ρ → List ρ) (hg : g [] = []) (X : Mat ρ) (l : Nat) :
    episodeOf l (perEpisode g X) = g (episodeOf l X) := episodeOf_route l g hg X

theorem zipWith_map_map {β γ δ : Type} (h : β → γ → δ) (f : Nat → β) (g : Nat → γ) (L : List Nat) :
    List.zipWith h (L.map f) (L.map g) = L.map (fun l => h (f l) (g l)) := by
  induction L with
  | nil => rfl
  | cons a t ih => simp [ih]
end generic

theorem tr_nil_stage (s : Stage κ) : Stage.tr env s ([] : Ep α) = [] := by
  have := Stage.length_tr env s ([] : Ep α); simpa using this
theorem tr_nil_stages (ss : Stages κ) : Stages.tr env ss ([] : Ep α) = [] := by
  have := Stages.length_tr env ss ([] : Ep α); simpa using this

/-- the guard: every episode present has at least `m` rows -/
def Guard (m : Nat) (X : M α) : Prop := ∀ l ∈ labels X, m ≤ (episodeOf l X).length

/-- if every episode of `Y` is the (non-empty when present) image of the episode of `X`, labels agree -/
theorem labels_eq_of_refines (X Y : M α) (g : Ep α → Ep α) (hg : g [] = [])
    (href : ∀ l, episodeOf l Y = g (episodeOf l X))
    (hne : ∀ l ∈ labels X, g (episodeOf l X) ≠ []) : labels Y = labels X := by
  apply asc_ext _ _ (asc_labels Y) (asc_labels X)
  intro l
  rw [mem_labels_iff, mem_labels_iff, href l]
  constructor
  · intro h1 h2; rw [h2, hg] at h1; exact h1 rfl
  · intro h1; exact hne l ((mem_labels_iff X l).mpr h1)

mutual
theorem Stage.mt_refines (s : Stage κ) (X : M α) (hG : Guard (Stage.loss s + 1) X) :
    ∀ l, episodeOf l (Stage.mt env s X) = Stage.tr env s (episodeOf l X) := by
  cases s with
  | rw k => intro l; simp [Stage.mt, Stage.tr, episodeOf_mapRows]
  | delay dx du =>
    intro l
    simp only [Stage.mt, Stage.tr]
    exact episodeOf_perEpisode _ (by simp [delayEp, delayCols]) X l
  | split a b =>
    intro l
    simp only [Stage.loss] at hG
    -- the two column-split matrices
    have hXs : ∀ l, episodeOf l (perEpisode onlyX X) = onlyX (episodeOf l X) :=
      fun l => episodeOf_perEpisode onlyX (by simp [onlyX]) X l
    have hXu : ∀ l, episodeOf l (perEpisode onlyU X) = onlyU (episodeOf l X) :=
      fun l => episodeOf_perEpisode onlyU (by simp [onlyU]) X l
    have hLs : labels (perEpisode onlyX X) = labels X :=
      labels_eq_of_refines X _ onlyX (by simp [onlyX]) hXs (by
        intro l hl h0
        have := (mem_labels_iff X l).mp hl
        simp [onlyX] at h0; exact this h0)
    have hLu : labels (perEpisode onlyU X) = labels X :=
      labels_eq_of_refines X _ onlyU (by simp [onlyU]) hXu (by
        intro l hl h0
        have := (mem_labels_iff X l).mp hl
        simp [onlyU] at h0; exact this h0)
    have hGs : Guard (Stages.loss a + 1) (perEpisode onlyX X) := by
      intro l hl; rw [hLs] at hl; rw [hXs l, onlyX_length]; have := hG l hl; omega
    have hGu : Guard (Stages.loss b + 1) (perEpisode onlyU X) := by
      intro l hl; rw [hLu] at hl; rw [hXu l, onlyU_length]; have := hG l hl; omega
    have hTs := Stages.mt_refines a (perEpisode onlyX X) hGs
    have hTu := Stages.mt_refines b (perEpisode onlyU X) hGu
    -- labels of both branch outputs equal the labels of X
    have hLTs : labels (Stages.mt env a (perEpisode onlyX X)) = labels X := by
      rw [← hLs]
      apply labels_eq_of_refines _ _ (Stages.tr env a) (tr_nil_stages env a) hTs
      intro l hl h0
      have hlen := Stages.length_tr env a (episodeOf l (perEpisode onlyX X))
      rw [h0] at hlen
      have := hGs l hl
      simp at hlen; omega
    have hLTu : labels (Stages.mt env b (perEpisode onlyU X)) = labels X := by
      rw [← hLu]
      apply labels_eq_of_refines _ _ (Stages.tr env b) (tr_nil_stages env b) hTu
      intro l hl h0
      have hlen := Stages.length_tr env b (episodeOf l (perEpisode onlyU X))
      rw [h0] at hlen
      have := hGu l hl
      simp at hlen; omega
    simp only [Stage.mt, Stage.tr]
    unfold splitEps
    rw [hLTs, hLTu, zipWith_map_map]
    rw [episodeOf_combine_family l
      (fun l' => zipXU (episodeOf l' (Stages.mt env a (perEpisode onlyX X)))
                       (episodeOf l' (Stages.mt env b (perEpisode onlyU X)))) _ (asc_labels X)]
    split
    · rw [hTs l, hTu l, hXs l, hXu l]
    · rename_i hl
      have : episodeOf l X = [] := by
        cases h0 : episodeOf l X with
        | nil => rfl
        | cons r t => exact absurd ((mem_labels_iff X l).mpr (by rw [h0]; simp)) hl
      rw [this]
      simp [onlyX, onlyU, tr_nil_stages, zipXU, lastN]
  | pipe ss =>
    intro l
    simp only [Stage.mt, Stage.tr]
    exact Stages.mt_refines ss X (by simpa [Stage.loss] using hG) l
theorem Stages.mt_refines (ss : Stages κ) (X : M α) (hG : Guard (Stages.loss ss + 1) X) :
    ∀ l, episodeOf l (Stages.mt env ss X) = Stages.tr env ss (episodeOf l X) := by
  cases ss with
  | nil => intro l; simp [Stages.mt, Stages.tr]
  | cons s rest =>
    intro l
    simp only [Stages.loss] at hG
    simp only [Stages.mt, Stages.tr]
    have hs := Stage.mt_refines s X (by intro l' hl'; have := hG l' hl'; omega)
    have hLY : labels (Stage.mt env s X) = labels X := by
      apply labels_eq_of_refines X _ (Stage.tr env s) (tr_nil_stage env s) hs
      intro l' hl' h0
      have hlen := Stage.length_tr env s (episodeOf l' X)
      rw [h0] at hlen
      have := hG l' hl'
      simp at hlen; omega
    have hGY : Guard (Stages.loss rest + 1) (Stage.mt env s X) := by
      intro l' hl'
      rw [hLY] at hl'
      rw [hs l', Stage.length_tr]
      have := hG l' hl'; omega
    rw [Stages.mt_refines rest (Stage.mt env s X) hGY l, hs l]
end

end Pk
