/-! Design experiment: matrix-level routing (split by label / per-episode map / combine) refines the
per-episode meaning. Core Lean only. -/
namespace Pk
variable {ρ : Type}

abbrev Mat (ρ : Type) := List (Nat × ρ)

def episodeOf (l : Nat) (X : Mat ρ) : List ρ := (X.filter (fun p => p.1 == l)).map (·.2)

/-- insert into an ascending duplicate-free list (`np.flatnonzero(np.bincount(..))` order) -/
def insertAsc (a : Nat) : List Nat → List Nat
  | [] => [a]
  | b :: t => if a < b then a :: b :: t else if a = b then b :: t else b :: insertAsc a t

def labels (X : Mat ρ) : List Nat := X.foldr (fun p acc => insertAsc p.1 acc) []

def splitEps (X : Mat ρ) : List (Nat × List ρ) := (labels X).map fun l => (l, episodeOf l X)

def combine (E : List (Nat × List ρ)) : Mat ρ := E.flatMap fun p => p.2.map fun r => (p.1, r)


theorem mem_insertAsc (a x : Nat) (L : List Nat) : x ∈ insertAsc a L ↔ x = a ∨ x ∈ L := by
  induction L with
  | nil => simp [insertAsc]
  | cons b t ih =>
    simp only [insertAsc]
    split
    · simp
    · split
      · rename_i h; subst h; simp
      · simp [ih]; constructor
        · rintro (h | h | h) <;> simp [h]
        · rintro (h | h | h) <;> simp [h]

/-- ascending and duplicate free -/
def Asc : List Nat → Prop
  | [] => True
  | [_] => True
  | a :: b :: t => a < b ∧ Asc (b :: t)

theorem asc_insertAsc (a : Nat) (L : List Nat) (h : Asc L) : Asc (insertAsc a L) := by
  induction L with
  | nil => simp [insertAsc, Asc]
  | cons b t ih =>
    simp only [insertAsc]
    split
    · rename_i hab; exact ⟨hab, h⟩
    · split
      · exact h
      · rename_i h1 h2
        have hba : b < a := by omega
        cases t with
        | nil => simp [insertAsc, Asc, hba]
        | cons c t' =>
          have hbc : b < c := h.1
          have ih' := ih h.2
          simp only [insertAsc] at ih' ⊢
          split
          · exact ⟨hba, by rename_i hac; exact ⟨hac, h.2⟩⟩
          · split
            · exact ⟨hbc, h.2⟩
            · rename_i h3 h4
              simp only [h3, h4, if_false] at ih'
              exact ⟨hbc, ih'⟩

theorem asc_labels (X : Mat ρ) : Asc (labels X) := by
  induction X with
  | nil => simp [labels, Asc]
  | cons p t ih => simpa [labels] using asc_insertAsc p.1 _ ih

theorem mem_labels (X : Mat ρ) (l : Nat) : l ∈ labels X ↔ ∃ p ∈ X, p.1 = l := by
  induction X with
  | nil => simp [labels]
  | cons p t ih =>
    have : labels (p :: t) = insertAsc p.1 (labels t) := rfl
    rw [this, mem_insertAsc, ih]
    constructor
    · rintro (h | ⟨q, hq, hql⟩)
      · exact ⟨p, by simp, h.symm⟩
      · exact ⟨q, by simp [hq], hql⟩
    · rintro ⟨q, hq, hql⟩
      simp only [List.mem_cons] at hq
      rcases hq with rfl | hq
      · exact Or.inl hql.symm
      · exact Or.inr ⟨q, hq, hql⟩

theorem asc_head_lt (a : Nat) (t : List Nat) (h : Asc (a :: t)) : ∀ x ∈ t, a < x := by
  induction t generalizing a with
  | nil => simp
  | cons b t' ih =>
    intro x hx
    simp only [List.mem_cons] at hx
    rcases hx with rfl | hx
    · exact h.1
    · exact Nat.lt_trans h.1 (ih b h.2 x hx)

theorem episodeOf_combine_blocks (l : Nat) (g : List ρ → List ρ) (L : List Nat) (hL : Asc L) (X : Mat ρ) :
    episodeOf l (combine (L.map fun l' => (l', g (episodeOf l' X))))
      = if l ∈ L then g (episodeOf l X) else [] := by
  induction L with
  | nil => simp [combine, episodeOf]
  | cons a t ih =>
    have hlt := asc_head_lt a t hL
    have hAt : Asc t := by
      cases t with
      | nil => simp [Asc]
      | cons b t' => exact hL.2
    have ih' := ih hAt
    simp only [combine, List.map_cons, List.flatMap_cons, episodeOf, List.filter_append, List.map_append] at ih' ⊢
    by_cases hal : a = l
    · subst hal
      have hnot : a ∉ t := fun hm => Nat.lt_irrefl _ (hlt a hm)
      simp only [hnot, if_false] at ih'
      rw [ih']
      simp [List.filter_map, Function.comp_def]
    · have h1 : (List.filter (fun p => p.1 == l) (List.map (fun r => (a, r)) (g (List.map (fun x => x.2) (List.filter (fun p => p.1 == a) X))))) = [] := by
        simp [List.filter_map, Function.comp_def, hal]
      rw [h1, ih']
      have hla : ¬ l = a := fun h => hal h.symm
      simp [hla]

/-- C03 backbone: routing by label, applying `g` per episode and recombining gives `g` of each episode -/
theorem episodeOf_route (l : Nat) (g : List ρ → List ρ) (hg : g [] = []) (X : Mat ρ) :
    episodeOf l (combine ((splitEps X).map fun p => (p.1, g p.2))) = g (episodeOf l X) := by
  have : (splitEps X).map (fun p => (p.1, g p.2)) = (labels X).map fun l' => (l', g (episodeOf l' X)) := by
    simp [splitEps, List.map_map, Function.comp_def]
  rw [this, episodeOf_combine_blocks l g _ (asc_labels X) X]
  split
  · rfl
  · rename_i h
    have : episodeOf l X = [] := by
      simp only [episodeOf, List.map_eq_nil_iff, List.filter_eq_nil_iff]
      intro p hp hpl
      exact h ((mem_labels X l).mpr ⟨p, hp, by simpa using hpl⟩)
    rw [this, hg]

end Pk
