import Pk.Tree
/-! The concrete episode-independent lifting functions of `pykoop/lifting_functions.py` and
`pykoop/util.py` as row functions over rows-as-pairs `⟨x, u⟩`, generic in the cell type `α`.

* `poly`     — `PolynomialLiftingFn`: scikit-learn's monomial enumeration followed by pykoop's
               4-way stable partition (original states, other state-only monomials, original inputs,
               other input-containing monomials).
* `bilinear` — `BilinearInputLiftingFn`
* `const`    — `ConstantLiftingFn`
* `rbf`      — `RbfLiftingFn` (feature values opaque: `ops.rbf id c row`)
* `kernel`   — `KernelApproxLiftingFn` (feature values opaque)
* `sk`       — `SkLearnLiftingFn` wrapping a column-wise invertible transformer (opaque columns maps)
* `angle`    — `AnglePreprocessor` with `unwrap_inverse = False`

Core Lean only; this file is executable and is what the driver runs. -/
namespace Pk

/-- the cell operations the row-wise stages use -/
structure Ops (α : Type) where
  one : α
  mul : α → α → α
  /-- monomial: product of the listed cells raised to the listed (positive) powers -/
  mono : List (α × Nat) → α
  cos : α → α
  sin : α → α
  /-- `atan2 s c` -/
  atan2 : α → α → α
  /-- column map of wrapped transformer `id` on flat column `j` -/
  sk : Nat → Nat → α → α
  skInv : Nat → Nat → α → α
  /-- RBF feature `c` of stage `id` evaluated on the row `[x; u]` -/
  rbf : Nat → Nat → List α → List α → α
  /-- kernel-approximation feature `c` of stage `id` evaluated on the row `[x; u]` -/
  kern : Nat → Nat → List α → List α → α

inductive Kind where
  | poly (order : Nat) (interactionOnly : Bool)
  | bilinear
  | const
  | rbf (id n : Nat)
  | kernel (id n : Nat)
  | sk (id : Nat)
  | angle (feat : List Nat)
deriving Repr, DecidableEq

/-- `itertools.combinations_with_replacement(range(lo, n), d)` (or `combinations` when
`io`), lexicographic: scikit-learn's `PolynomialFeatures._combinations` for one degree. -/
def combos (io : Bool) (n : Nat) : Nat → Nat → List (List Nat)
  | 0, _ => [[]]
  | d+1, lo => (List.range' lo (n - lo)).flatMap fun i =>
      (combos io n d (if io then i+1 else i)).map (i :: ·)

/-- monomials of degree 2..order over `n` features, in scikit-learn's column order -/
def polyCombos (order : Nat) (io : Bool) (n : Nat) : List (List Nat) :=
  (List.range' 2 (order - 1)).flatMap fun d => combos io n d 0

/-- a monomial lands in the lifted-state block iff it involves no input feature -/
def stateOnly (nx : Nat) (c : List Nat) : Bool := c.all (· < nx)

def polyX (order : Nat) (io : Bool) (nx nu : Nat) : List (List Nat) :=
  (polyCombos order io (nx + nu)).filter (stateOnly nx)
def polyU (order : Nat) (io : Bool) (nx nu : Nat) : List (List Nat) :=
  (polyCombos order io (nx + nu)).filter (fun c => !stateOnly nx c)

variable {α : Type}

/-- run-length encoding of a non-decreasing index list: `(feature, power)` pairs — a row of
scikit-learn's `powers_` restricted to its non-zero entries -/
def runs : List Nat → List (Nat × Nat)
  | [] => []
  | i :: t =>
    match runs t with
    | (j, p) :: rest => if i = j then (j, p+1) :: rest else (i, 1) :: (j, p) :: rest
    | [] => [(i, 1)]

def monoVal (ops : Ops α) (v : List α) (c : List Nat) : α :=
  ops.mono ((runs c).map fun (i, p) => (v.getD i ops.one, p))

/-- `flatMap` with the column index -/
def flatMapIdx {β γ : Type} (f : Nat → β → List γ) : Nat → List β → List γ
  | _, [] => []
  | j, b :: t => f j b ++ flatMapIdx f (j+1) t

def mapIdxFrom {β γ : Type} (f : Nat → β → γ) : Nat → List β → List γ
  | _, [] => []
  | j, b :: t => f j b :: mapIdxFrom f (j+1) t

def angleEnc (ops : Ops α) (feat : List Nat) (j : Nat) (v : α) : List α :=
  if feat.contains j then [ops.cos v, ops.sin v] else [v]

/-- decode `w` input columns starting at flat index `j` from the lifted cells -/
def angleDec (ops : Ops α) (feat : List Nat) : Nat → Nat → List α → List α
  | 0, _, _ => []
  | w+1, j, cells =>
    if feat.contains j then
      match cells with
      | c :: s :: rest => ops.atan2 s c :: angleDec ops feat w (j+1) rest
      | _ => []
    else
      match cells with
      | v :: rest => v :: angleDec ops feat w (j+1) rest
      | [] => []

def takeInv : Nat × Nat → Row α → Row α := fun (wx, wu) r => ⟨r.x.take wx, r.u.take wu⟩

def angleCount (feat : List Nat) (lo w : Nat) : Nat :=
  ((List.range' lo w).filter (feat.contains ·)).length

/-- fitted output widths `(n_states_out_, n_inputs_out_)` of each kind, from its `_fit_one_ep` -/
def kindW : Kind → Nat × Nat → Nat × Nat
  | .poly order io, (nx, nu) => (nx + (polyX order io nx nu).length, nu + (polyU order io nx nu).length)
  | .bilinear, (nx, nu) => (nx, nu + nu * nx)
  | .const, (nx, nu) => (nx + 1, nu)
  | .rbf _ n, (nx, nu) => if nu = 0 then (nx + n, nu) else (nx, nu + n)
  | .kernel _ n, (nx, nu) => if nu = 0 then (nx + n, nu) else (nx, nu + n)
  | .sk _, w => w
  | .angle feat, (nx, nu) => (nx + angleCount feat 0 nx, nu + angleCount feat nx nu)

/-- the row function, its inverse and its output widths for each kind -/
def rowFn (ops : Ops α) (angleOk : α → Prop := fun _ => True) : Kind → RowFn α
  | .poly order io =>
    { f := fun r =>
        let v := r.x ++ r.u
        ⟨r.x ++ (polyX order io r.x.length r.u.length).map (monoVal ops v),
         r.u ++ (polyU order io r.x.length r.u.length).map (monoVal ops v)⟩
      g := takeInv
      wx := fun nx nu => (kindW (.poly order io) (nx, nu)).1
      wu := fun nx nu => (kindW (.poly order io) (nx, nu)).2 }
  | .bilinear =>
    { f := fun r => ⟨r.x, r.u ++ r.u.flatMap fun uk => r.x.map fun xi => ops.mul xi uk⟩
      g := takeInv
      wx := fun nx nu => (kindW .bilinear (nx, nu)).1
      wu := fun nx nu => (kindW .bilinear (nx, nu)).2 }
  | .const =>
    { f := fun r => ⟨r.x ++ [ops.one], r.u⟩
      g := takeInv
      wx := fun nx nu => (kindW .const (nx, nu)).1
      wu := fun nx nu => (kindW .const (nx, nu)).2 }
  | .rbf id n =>
    { f := fun r =>
        let feats := (List.range n).map fun c => ops.rbf id c r.x r.u
        if r.u.length = 0 then ⟨r.x ++ feats, r.u⟩ else ⟨r.x, r.u ++ feats⟩
      g := takeInv
      wx := fun nx nu => (kindW (.rbf id n) (nx, nu)).1
      wu := fun nx nu => (kindW (.rbf id n) (nx, nu)).2 }
  | .kernel id n =>
    { f := fun r =>
        let feats := (List.range n).map fun c => ops.kern id c r.x r.u
        if r.u.length = 0 then ⟨r.x ++ feats, r.u⟩ else ⟨r.x, r.u ++ feats⟩
      g := takeInv
      wx := fun nx nu => (kindW (.kernel id n) (nx, nu)).1
      wu := fun nx nu => (kindW (.kernel id n) (nx, nu)).2 }
  | .sk id =>
    { f := fun r => ⟨mapIdxFrom (ops.sk id) 0 r.x, mapIdxFrom (ops.sk id) r.x.length r.u⟩
      g := fun (wx, _) r => ⟨mapIdxFrom (ops.skInv id) 0 r.x, mapIdxFrom (ops.skInv id) wx r.u⟩
      wx := fun nx nu => (kindW (.sk id) (nx, nu)).1
      wu := fun nx nu => (kindW (.sk id) (nx, nu)).2 }
  | .angle feat =>
    { f := fun r => ⟨flatMapIdx (angleEnc ops feat) 0 r.x, flatMapIdx (angleEnc ops feat) r.x.length r.u⟩
      g := fun (wx, wu) r => ⟨angleDec ops feat wx 0 r.x, angleDec ops feat wu wx r.u⟩
      wx := fun nx nu => (kindW (.angle feat) (nx, nu)).1
      wu := fun nx nu => (kindW (.angle feat) (nx, nu)).2
      dom := fun r => ∀ v ∈ r.x ++ r.u, angleOk v }

/-- the laws of the opaque cell functions that the round trip needs -/
structure Ops.Lawful (ops : Ops α) (angleOk : α → Prop) : Prop where
  sk_inv : ∀ id j v, ops.skInv id j (ops.sk id j v) = v
  atan2_sin_cos : ∀ v, angleOk v → ops.atan2 (ops.sin v) (ops.cos v) = v

end Pk
