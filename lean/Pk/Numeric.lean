import Pk.Parse
/-! Floating-point instances of the numeric lifting formulas, evaluated with Lean's `Float` (IEEE double, libm):
`RandomFourierKernelApprox.transform` given the fitted weights / offsets, and `RbfLiftingFn._transform_one_ep`
given the fitted centres.  Values are exchanged as IEEE bit patterns.  Core Lean only; executable. -/
namespace Pk.Numeric

def fdot (a b : List Float) : Float := (List.zipWith (· * ·) a b).foldl (· + ·) 0.0

/-- `RandomFourierKernelApprox.transform` on one row.  `W` is given by columns (one list per component, each of
length `n_features`), `b` are the offsets (used by `weight_offset` only). -/
def rffRow (weightOnly : Bool) (shape : Float) (W : List (List Float)) (b : List Float) (x : List Float) : List Float :=
  let D := W.length.toFloat
  let s := Float.sqrt (2.0 * shape)
  let xs := x.map (s * ·)
  let prods := W.map fun w => fdot xs w
  if weightOnly then
    ((prods.map Float.cos) ++ (prods.map Float.sin)).map (Float.sqrt (1.0 / D) * ·)
  else
    (List.zipWith (fun p o => Float.sqrt 2.0 * Float.cos (p + o)) prods b).map (Float.sqrt (1.0 / D) * ·)

inductive Rbf where
  | exponential | gaussian | multiquadric | inverseQuadratic | inverseMultiquadric | thinPlate | bump
deriving Repr, DecidableEq

def rbfFn : Rbf → Float → Float
  | .exponential, r => Float.exp (-r)
  | .gaussian, r => Float.exp (-(r * r))
  | .multiquadric, r => Float.sqrt (1.0 + r * r)
  | .inverseQuadratic, r => 1.0 / (1.0 + r * r)
  | .inverseMultiquadric, r => 1.0 / Float.sqrt (1.0 + r * r)
  | .thinPlate, r => r * r * Float.log r
  | .bump, r => if r < 1.0 then Float.exp (-1.0 / (1.0 - r * r)) else 0.0

/-- default offset: zero for every named function except `thin_plate` (1e-3) -/
def defaultOffset : Rbf → Float
  | .thinPlate => 1e-3
  | _ => 0.0

def norm2 (v : List Float) : Float := Float.sqrt ((v.map fun a => a * a).foldl (· + ·) 0.0)

/-- `RbfLiftingFn._transform_one_ep` on one row `[x; u]`: the row followed by `R(shape·‖row − c‖ + offset)` per centre -/
def rbfRow (kind : Rbf) (shape offset : Float) (centers : List (List Float)) (row : List Float) : List Float :=
  row ++ centers.map fun c => rbfFn kind (shape * norm2 (List.zipWith (· - ·) row c) + offset)

end Pk.Numeric
