import Pk.Kinds
/-! The value domains the driver instantiates the generic model at. Core Lean only.

* `intOps`  — tagged integer cells (exact; algebraic kinds only)
* `strOps`  — symbolic terms printed as S-expressions, evaluated by the harness with the fitted
              numeric parameters of the real estimators
* `depOps`  — dependency sets: every operation is union, so an output cell is the set of input cells
              it may depend on -/
namespace Pk

def intOps : Ops Int :=
  { one := 1
    mul := (· * ·)
    mono := fun l => l.foldl (fun acc (v, p) => acc * v ^ p) 1
    cos := id, sin := id, atan2 := fun s _ => s
    sk := fun _ _ v => v, skInv := fun _ _ v => v
    rbf := fun _ _ _ _ => 0, kern := fun _ _ _ _ => 0 }

def ratOps : Ops Rat :=
  { one := 1
    mul := (· * ·)
    mono := fun l => l.foldl (fun acc (v, p) => acc * v ^ p) 1
    cos := id, sin := id, atan2 := fun s _ => s
    sk := fun _ _ v => v, skInv := fun _ _ v => v
    rbf := fun _ _ _ _ => 0, kern := fun _ _ _ _ => 0 }

def sexp (head : String) (args : List String) : String :=
  "(" ++ " ".intercalate (head :: args) ++ ")"

def strOps : Ops String :=
  { one := "1"
    mul := fun a b => sexp "mul" [a, b]
    mono := fun l => sexp "mono" (l.map fun (v, p) => sexp "pow" [v, toString p])
    cos := fun a => sexp "cos" [a]
    sin := fun a => sexp "sin" [a]
    atan2 := fun s c => sexp "atan2" [s, c]
    sk := fun id j v => sexp "sk" [toString id, toString j, v]
    skInv := fun id j v => sexp "skinv" [toString id, toString j, v]
    rbf := fun id c x u => sexp "rbf" (toString id :: toString c :: (x ++ u))
    kern := fun id c x u => sexp "kern" (toString id :: toString c :: (x ++ u)) }

/-- merge of two ascending duplicate-free lists -/
def unionAsc : List Nat → List Nat → List Nat
  | [], b => b
  | a, [] => a
  | x :: a, y :: b =>
    if x < y then x :: unionAsc a (y :: b)
    else if y < x then y :: unionAsc (x :: a) b
    else x :: unionAsc a b
termination_by a b => a.length + b.length

def unions (l : List (List Nat)) : List Nat := l.foldl unionAsc []

def depOps : Ops (List Nat) :=
  { one := []
    mul := unionAsc
    mono := fun l => unions (l.map (·.1))
    cos := id, sin := id
    atan2 := unionAsc
    sk := fun _ _ v => v, skInv := fun _ _ v => v
    rbf := fun _ _ x u => unions (x ++ u)
    kern := fun _ _ x u => unions (x ++ u) }

def showDep (d : List Nat) : String :=
  if d.isEmpty then "-" else ",".intercalate (d.map toString)

end Pk
