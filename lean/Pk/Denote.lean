import Pk.Names
import Pk.KindLaws
/-! Symbolic cells (`Term`) and the whole-pipeline denotation of lifted columns.

A lifted column of ANY tree is described by one symbolic term over the original features
(`vx i`, `vu i`), the delay operator `D k` and the cell operations of the row-wise stages:

* rendering the term with the string operations gives the column's feature name
  (`Stage.names_eq_render`), and
* evaluating the term on an episode at time `r + loss` gives the column's value in lifted row `r`
  (`Stage.tr_eq_eval`).

Both facts are instances of one naturality law: every row-wise stage commutes with every homomorphism
of cell operations (`rowFn_natural`).  Core Lean only. -/
namespace Pk

/-- symbolic cells -/
inductive Term where
  | vx (i : Nat)
  | vu (i : Nat)
  | D (k : Nat) (t : Term)
  | one
  | mul (a b : Term)
  | mono (l : List (Term × Nat))
  | cos (a : Term)
  | sin (a : Term)
  | sk (id j : Nat) (a : Term)
  | rbf (id c : Nat) (xs us : List Term)
  | kern (id c : Nat) (xs us : List Term)

/-- the free cell operations (the inverse-only operations `atan2`, `skInv` never occur in a transform) -/
def termOps : Ops Term :=
  { one := .one
    mul := .mul
    mono := .mono
    cos := .cos
    sin := .sin
    atan2 := fun s _ => s
    sk := .sk
    skInv := fun _ _ v => v
    rbf := .rbf
    kern := .kern }

def Row.map {α β : Type} (h : α → β) (r : Row α) : Row β := ⟨r.x.map h, r.u.map h⟩

/-- a map of cells that commutes with the operations a transform uses -/
structure OpsHom {α β : Type} (A : Ops α) (B : Ops β) (h : α → β) : Prop where
  one : h A.one = B.one
  mul : ∀ a b, h (A.mul a b) = B.mul (h a) (h b)
  mono : ∀ l, h (A.mono l) = B.mono (l.map fun q => (h q.1, q.2))
  cos : ∀ a, h (A.cos a) = B.cos (h a)
  sin : ∀ a, h (A.sin a) = B.sin (h a)
  sk : ∀ id j a, h (A.sk id j a) = B.sk id j (h a)
  rbf : ∀ id c xs us, h (A.rbf id c xs us) = B.rbf id c (xs.map h) (us.map h)
  kern : ∀ id c xs us, h (A.kern id c xs us) = B.kern id c (xs.map h) (us.map h)

theorem flatMap_congr_on {β ι : Type} (L : List ι) (A B : ι → List β) (h : ∀ i ∈ L, A i = B i) :
    L.flatMap A = L.flatMap B := by
  induction L with
  | nil => rfl
  | cons a t ih => simp only [List.flatMap_cons, h a (by simp), ih (fun i hi => h i (by simp [hi]))]

section natural
variable {α β : Type} {A : Ops α} {B : Ops β} {h : α → β}

theorem monoVal_natural (hh : OpsHom A B h) (v : List α) (c : List Nat) :
    h (monoVal A v c) = monoVal B (v.map h) c := by
  unfold monoVal
  rw [hh.mono, List.map_map]
  congr 1
  apply List.map_congr_left
  intro q _
  simp only [Function.comp]
  congr 1
  simp only [List.getD_eq_getElem?_getD, List.getElem?_map]
  cases v[q.1]? <;> simp [hh.one]

theorem mapIdxFrom_natural (f : Nat → α → α) (f' : Nat → β → β) (hf : ∀ j a, h (f j a) = f' j (h a))
    (j : Nat) (l : List α) : (mapIdxFrom f j l).map h = mapIdxFrom f' j (l.map h) := by
  induction l generalizing j with
  | nil => rfl
  | cons a t ih => simp [mapIdxFrom, hf, ih]

theorem flatMapIdx_natural (f : Nat → α → List α) (f' : Nat → β → List β)
    (hf : ∀ j a, (f j a).map h = f' j (h a)) (j : Nat) (l : List α) :
    (flatMapIdx f j l).map h = flatMapIdx f' j (l.map h) := by
  induction l generalizing j with
  | nil => rfl
  | cons a t ih => simp [flatMapIdx, hf, ih]

/-- every row-wise stage commutes with every homomorphism of cell operations -/
theorem rowFn_natural (hh : OpsHom A B h) (okA : α → Prop) (okB : β → Prop) (k : Kind) (r : Row α) :
    (rowFn B okB k).f (r.map h) = ((rowFn A okA k).f r).map h := by
  cases k with
  | poly order io =>
    simp only [rowFn, Row.map, List.length_map, List.map_append, List.map_map, Row.mk.injEq]
    constructor <;>
    · congr 1
      apply List.map_congr_left
      intro c _
      simp only [Function.comp]
      rw [monoVal_natural hh, List.map_append]
  | bilinear =>
    simp only [rowFn, Row.map, List.map_append, List.map_flatMap, List.flatMap_map, List.map_map, Row.mk.injEq,
      true_and]
    congr 1
    apply flatMap_congr_on
    intro uk _
    apply List.map_congr_left
    intro xi _
    simp [Function.comp, hh.mul]
  | const => simp [rowFn, Row.map, hh.one]
  | rbf id n =>
    simp only [rowFn, Row.map, List.length_map]
    split <;> simp [Row.map, hh.rbf, Function.comp_def]
  | kernel id n =>
    simp only [rowFn, Row.map, List.length_map]
    split <;> simp [Row.map, hh.kern, Function.comp_def]
  | sk id =>
    simp only [rowFn, Row.map, List.length_map, Row.mk.injEq]
    exact ⟨(mapIdxFrom_natural _ _ (hh.sk id) 0 r.x).symm, (mapIdxFrom_natural _ _ (hh.sk id) _ r.u).symm⟩
  | angle feat =>
    simp only [rowFn, Row.map, List.length_map, Row.mk.injEq]
    have hf : ∀ j a, (angleEnc A feat j a).map h = angleEnc B feat j (h a) := by
      intro j a
      unfold angleEnc
      split <;> simp [hh.cos, hh.sin]
    exact ⟨(flatMapIdx_natural _ _ hf 0 r.x).symm, (flatMapIdx_natural _ _ hf _ r.u).symm⟩

end natural

/-! ### symbolic transform -/

def delayTerms (d : Nat) (ts : List Term) : List Term :=
  (List.range (d+1)).flatMap fun k => ts.map (Term.D k)

mutual
/-- the terms of the lifted columns, given the terms of the input columns -/
def Stage.terms : S → Row Term → Row Term
  | .rw k, nm => (rowFn termOps (fun _ => True) k).f nm
  | .delay dx du, nm => ⟨delayTerms dx nm.x, delayTerms du nm.u⟩
  | .split a b, nm => ⟨(Stages.terms a ⟨nm.x, []⟩).x, (Stages.terms b ⟨[], nm.u⟩).u⟩
  | .pipe ss, nm => Stages.terms ss nm
def Stages.terms : Ss → Row Term → Row Term
  | .nil, nm => nm
  | .cons s rest, nm => Stages.terms rest (Stage.terms s nm)
end

/-- the terms of the original features -/
def varsRow (nx nu : Nat) : Row Term := ⟨(List.range nx).map .vx, (List.range nu).map .vu⟩

/-! ### rendering: terms to names -/

mutual
/-- the name a term is printed as, given the names of the original features -/
def Term.render (fmt : Fmt) (nm : Row String) : Term → String
  | .vx i => nm.x.getD i ""
  | .vu i => nm.u.getD i ""
  | .D k t => delayName fmt k (t.render fmt nm)
  | .one => (nameOps fmt).one
  | .mul a b => (nameOps fmt).mul (a.render fmt nm) (b.render fmt nm)
  | .mono l => (nameOps fmt).mono (Term.renderPairs fmt nm l)
  | .cos a => (nameOps fmt).cos (a.render fmt nm)
  | .sin a => (nameOps fmt).sin (a.render fmt nm)
  | .sk id j a => (nameOps fmt).sk id j (a.render fmt nm)
  | .rbf id c xs us => (nameOps fmt).rbf id c (Term.renderList fmt nm xs) (Term.renderList fmt nm us)
  | .kern id c xs us => (nameOps fmt).kern id c (Term.renderList fmt nm xs) (Term.renderList fmt nm us)
def Term.renderList (fmt : Fmt) (nm : Row String) : List Term → List String
  | [] => []
  | a :: r => a.render fmt nm :: Term.renderList fmt nm r
def Term.renderPairs (fmt : Fmt) (nm : Row String) : List (Term × Nat) → List (String × Nat)
  | [] => []
  | (a, p) :: r => (a.render fmt nm, p) :: Term.renderPairs fmt nm r
end

theorem renderList_eq (fmt : Fmt) (nm : Row String) (l : List Term) :
    Term.renderList fmt nm l = l.map (Term.render fmt nm) := by
  induction l with
  | nil => rfl
  | cons a r ih => simp [Term.renderList, ih]

theorem renderPairs_eq (fmt : Fmt) (nm : Row String) (l : List (Term × Nat)) :
    Term.renderPairs fmt nm l = l.map fun q => (Term.render fmt nm q.1, q.2) := by
  induction l with
  | nil => rfl
  | cons a r ih => cases a; simp [Term.renderPairs, ih]

theorem render_hom (fmt : Fmt) (nm : Row String) : OpsHom termOps (nameOps fmt) (Term.render fmt nm) where
  one := by simp [termOps, Term.render]
  mul := by intro a b; simp [termOps, Term.render]
  mono := by intro l; simp [termOps, Term.render, renderPairs_eq]
  cos := by intro a; simp [termOps, Term.render]
  sin := by intro a; simp [termOps, Term.render]
  sk := by intro id j a; simp [termOps, Term.render]
  rbf := by intro id c xs us; simp [termOps, Term.render, renderList_eq]
  kern := by intro id c xs us; simp [termOps, Term.render, renderList_eq]

theorem delayNames_render (fmt : Fmt) (nm : Row String) (d : Nat) (ts : List Term) :
    delayNames fmt d (ts.map (Term.render fmt nm)) = (delayTerms d ts).map (Term.render fmt nm) := by
  unfold delayNames delayTerms
  rw [List.map_flatMap]
  apply flatMap_congr_on
  intro k _
  simp [List.map_map, Function.comp_def, Term.render]

mutual
/-- names of every tree = rendering of its terms -/
theorem Stage.names_eq_render (fmt : Fmt) (nm : Row String) (s : S) (ts : Row Term) :
    Stage.names fmt s (ts.map (Term.render fmt nm)) = (Stage.terms s ts).map (Term.render fmt nm) := by
  cases s with
  | rw k =>
    simp only [Stage.names, Stage.terms]
    exact rowFn_natural (render_hom fmt nm) _ _ k ts
  | delay dx du =>
    simp only [Stage.names, Stage.terms, Row.map, delayNames_render]
  | split a b =>
    have ha := Stages.names_eq_render fmt nm a ⟨ts.x, []⟩
    have hb := Stages.names_eq_render fmt nm b ⟨[], ts.u⟩
    simp only [Row.map, List.map_nil] at ha hb
    simp only [Stage.names, Stage.terms, Row.map, ha, hb]
  | pipe ss =>
    simp only [Stage.names, Stage.terms]
    exact Stages.names_eq_render fmt nm ss ts
theorem Stages.names_eq_render (fmt : Fmt) (nm : Row String) (ss : Ss) (ts : Row Term) :
    Stages.names fmt ss (ts.map (Term.render fmt nm)) = (Stages.terms ss ts).map (Term.render fmt nm) := by
  cases ss with
  | nil => simp [Stages.names, Stages.terms]
  | cons s rest =>
    simp only [Stages.names, Stages.terms]
    rw [Stage.names_eq_render fmt nm s ts]
    exact Stages.names_eq_render fmt nm rest _
end

theorem getD_range_map {β : Type} (l : List β) (d : β) :
    (List.range l.length).map (fun i => l.getD i d) = l := by
  apply List.ext_getElem
  · simp
  · intro i h1 h2
    simp [List.getD_eq_getElem?_getD, List.getElem?_eq_getElem h2]

theorem varsRow_render (fmt : Fmt) (nm : Row String) :
    (varsRow nm.x.length nm.u.length).map (Term.render fmt nm) = nm := by
  cases nm with
  | mk x u =>
    simp only [varsRow, Row.map, List.map_map, Row.mk.injEq]
    exact ⟨by simpa [Function.comp_def, Term.render] using getD_range_map x "",
           by simpa [Function.comp_def, Term.render] using getD_range_map u ""⟩

/-! ### evaluation: terms to values -/

section eval
variable {α : Type} (ops : Ops α) (X : Ep α)

mutual
/-- the value of a term on episode `X` at time `τ`: variables read the episode, `D k` looks `k` samples back -/
def Term.eval : Term → Nat → α
  | .vx i, τ => ((X.map (·.x)).getD τ []).getD i ops.one
  | .vu i, τ => ((X.map (·.u)).getD τ []).getD i ops.one
  | .D k t, τ => t.eval (τ - k)
  | .one, _ => ops.one
  | .mul a b, τ => ops.mul (a.eval τ) (b.eval τ)
  | .mono l, τ => ops.mono (Term.evalPairs l τ)
  | .cos a, τ => ops.cos (a.eval τ)
  | .sin a, τ => ops.sin (a.eval τ)
  | .sk id j a, τ => ops.sk id j (a.eval τ)
  | .rbf id c xs us, τ => ops.rbf id c (Term.evalList xs τ) (Term.evalList us τ)
  | .kern id c xs us, τ => ops.kern id c (Term.evalList xs τ) (Term.evalList us τ)
def Term.evalList : List Term → Nat → List α
  | [], _ => []
  | a :: r, τ => a.eval τ :: Term.evalList r τ
def Term.evalPairs : List (Term × Nat) → Nat → List (α × Nat)
  | [], _ => []
  | (a, p) :: r, τ => (a.eval τ, p) :: Term.evalPairs r τ
end

theorem evalList_eq (l : List Term) (τ : Nat) :
    Term.evalList ops X l τ = l.map (fun a => Term.eval ops X a τ) := by
  induction l with
  | nil => rfl
  | cons a r ih => simp [Term.evalList, ih]

theorem evalPairs_eq (l : List (Term × Nat)) (τ : Nat) :
    Term.evalPairs ops X l τ = l.map fun q => (Term.eval ops X q.1 τ, q.2) := by
  induction l with
  | nil => rfl
  | cons a r ih => cases a; simp [Term.evalPairs, ih]

theorem eval_hom (τ : Nat) : OpsHom termOps ops (fun t => Term.eval ops X t τ) where
  one := by simp [termOps, Term.eval]
  mul := by intro a b; simp [termOps, Term.eval]
  mono := by intro l; simp [termOps, Term.eval, evalPairs_eq]
  cos := by intro a; simp [termOps, Term.eval]
  sin := by intro a; simp [termOps, Term.eval]
  sk := by intro id j a; simp [termOps, Term.eval]
  rbf := by intro id c xs us; simp [termOps, Term.eval, evalList_eq]
  kern := by intro id c xs us; simp [termOps, Term.eval, evalList_eq]

/-- `Y` is the table of the terms `ts` on the base episode `X`, shifted by `o` samples -/
def Denotes (ts : Row Term) (o : Nat) (Y : Ep α) : Prop :=
  ∀ r, r < Y.length → Y[r]? = some (ts.map fun t => Term.eval ops X t (r + o))

end eval

/-! ### values of every tree = evaluation of its terms -/

section values
variable {α : Type} (ops : Ops α) (ok : α → Prop) (X : Ep α)

theorem getElem?_zipXU (A B : Ep α) (r : Nat) (a b : Row α)
    (ha : A[A.length - min A.length B.length + r]? = some a)
    (hb : B[B.length - min A.length B.length + r]? = some b) :
    (zipXU A B)[r]? = some ⟨a.x, b.u⟩ := by
  unfold zipXU
  simp only [List.getElem?_zipWith, lastN, List.getElem?_drop]
  rw [ha, hb]

theorem delayRow_denotes (ts : List Term) (o T d r : Nat) (hdT : d ≤ T) (cols : List (List α))
    (hc : ∀ t, t < cols.length → cols[t]? = some (ts.map fun q => Term.eval ops X q (t + o)))
    (hr : r + T < cols.length) :
    delayRow cols d (r + T) = (delayTerms d ts).map fun q => Term.eval ops X q (r + (o + T)) := by
  unfold delayRow delayTerms
  rw [List.map_flatMap, List.flatten_eq_flatMap, List.flatMap_map]
  apply flatMap_congr_on
  intro i hi
  have hi' : i < d + 1 := List.mem_range.mp hi
  rw [List.getD_eq_getElem?_getD, hc (r + T - i) (by omega)]
  simp only [Option.getD_some, List.map_map, id]
  apply List.map_congr_left
  intro q _
  simp only [Function.comp, Term.eval]
  congr 1; omega

mutual
/-- if `Y` tabulates the terms `ts` (shifted by `o`), the transformed episode tabulates the transformed terms,
shifted by the samples the stage consumes -/
theorem Stage.tr_denotes (s : S) (ts : Row Term) (o : Nat) (Y : Ep α) (hY : Denotes ops X ts o Y) :
    Denotes ops X (Stage.terms s ts) (o + Stage.loss s) (Stage.tr (rowFn ops ok) s Y) := by
  cases s with
  | rw k =>
    intro r hr
    simp only [Stage.tr, List.length_map] at hr
    simp only [Stage.tr, Stage.terms, Stage.loss, List.getElem?_map, hY r hr, Option.map_some, Nat.add_zero]
    congr 1
    exact rowFn_natural (eval_hom ops X (r + o)) (fun _ => True) ok k ts
  | delay dx du =>
    intro r hr
    simp only [Stage.tr, delayEp_length] at hr
    simp only [Stage.tr, Stage.terms, Stage.loss, delayEp, List.getElem?_zipWith, delayCols,
      List.getElem?_map, List.length_map]
    rw [List.getElem?_range (by omega)]
    simp only [Option.map_some, Row.map]
    have hx : ∀ t, t < (Y.map (·.x)).length →
        (Y.map (·.x))[t]? = some (ts.x.map fun q => Term.eval ops X q (t + o)) := by
      intro t ht
      simp only [List.length_map] at ht
      simp [List.getElem?_map, hY t ht, Row.map]
    have hu : ∀ t, t < (Y.map (·.u)).length →
        (Y.map (·.u))[t]? = some (ts.u.map fun q => Term.eval ops X q (t + o)) := by
      intro t ht
      simp only [List.length_map] at ht
      simp [List.getElem?_map, hY t ht, Row.map]
    rw [delayRow_denotes ops X ts.x o (max dx du) dx r (by omega) _ hx (by simp; omega),
        delayRow_denotes ops X ts.u o (max dx du) du r (by omega) _ hu (by simp; omega)]
  | split a b =>
    intro r hr
    have hYx : Denotes ops X ⟨ts.x, []⟩ o (onlyX Y) := by
      intro t ht
      simp only [onlyX, List.length_map] at ht
      simp [onlyX, List.getElem?_map, hY t ht, Row.map]
    have hYu : Denotes ops X ⟨[], ts.u⟩ o (onlyU Y) := by
      intro t ht
      simp only [onlyU, List.length_map] at ht
      simp [onlyU, List.getElem?_map, hY t ht, Row.map]
    have hA := Stages.tr_denotes a ⟨ts.x, []⟩ o (onlyX Y) hYx
    have hB := Stages.tr_denotes b ⟨[], ts.u⟩ o (onlyU Y) hYu
    simp only [Stage.tr, zipXU_length, Stages.length_tr, onlyX_length, onlyU_length] at hr
    have hlA := Stages.length_tr (rowFn ops ok) a (onlyX Y)
    have hlB := Stages.length_tr (rowFn ops ok) b (onlyU Y)
    rw [onlyX_length] at hlA
    rw [onlyU_length] at hlB
    have ha := hA ((Stages.tr (rowFn ops ok) a (onlyX Y)).length
        - min (Stages.tr (rowFn ops ok) a (onlyX Y)).length (Stages.tr (rowFn ops ok) b (onlyU Y)).length + r)
      (by rw [hlA, hlB]; omega)
    have hb := hB ((Stages.tr (rowFn ops ok) b (onlyU Y)).length
        - min (Stages.tr (rowFn ops ok) a (onlyX Y)).length (Stages.tr (rowFn ops ok) b (onlyU Y)).length + r)
      (by rw [hlA, hlB]; omega)
    simp only [Stage.tr, Stage.terms, Stage.loss]
    rw [getElem?_zipXU _ _ r _ _ ha hb]
    simp only [Row.map, Option.some.injEq, Row.mk.injEq]
    rw [hlA, hlB]
    constructor
    · apply List.map_congr_left; intro q _; congr 1; omega
    · apply List.map_congr_left; intro q _; congr 1; omega
  | pipe ss =>
    simp only [Stage.tr, Stage.terms, Stage.loss]
    exact Stages.tr_denotes ss ts o Y hY
theorem Stages.tr_denotes (ss : Ss) (ts : Row Term) (o : Nat) (Y : Ep α) (hY : Denotes ops X ts o Y) :
    Denotes ops X (Stages.terms ss ts) (o + Stages.loss ss) (Stages.tr (rowFn ops ok) ss Y) := by
  cases ss with
  | nil => simpa [Stages.tr, Stages.terms, Stages.loss] using hY
  | cons s rest =>
    simp only [Stages.tr, Stages.terms, Stages.loss]
    have h1 := Stage.tr_denotes s ts o Y hY
    have h2 := Stages.tr_denotes rest _ _ _ h1
    rw [Nat.add_assoc] at h2
    exact h2
end

/-- a typed episode tabulates the terms of its own features -/
theorem denotes_self (nx nu : Nat) (hX : Typed nx nu X) : Denotes ops X (varsRow nx nu) 0 X := by
  intro r hr
  have hmem := hX X[r] (List.getElem_mem hr)
  rw [List.getElem?_eq_getElem hr]
  congr 1
  have hxr : ((X.map (·.x)).getD r []) = X[r].x := by
    simp [List.getD_eq_getElem?_getD, List.getElem?_eq_getElem hr]
  have hur : ((X.map (·.u)).getD r []) = X[r].u := by
    simp [List.getD_eq_getElem?_getD, List.getElem?_eq_getElem hr]
  cases hrow : X[r] with
  | mk x u =>
    rw [hrow] at hmem hxr hur
    simp only [varsRow, Row.map, List.map_map, Row.mk.injEq, Function.comp_def, Term.eval, Nat.add_zero, hxr, hur]
    exact ⟨by rw [← hmem.1]; exact (getD_range_map x ops.one).symm,
           by rw [← hmem.2]; exact (getD_range_map u ops.one).symm⟩

/-- **values of every tree**: lifted row `r` is the evaluation of the tree's terms at time `r + loss` -/
theorem Stage.tr_eq_eval (s : S) (nx nu : Nat) (hX : Typed nx nu X) (r : Nat)
    (hr : r < (Stage.tr (rowFn ops ok) s X).length) :
    (Stage.tr (rowFn ops ok) s X)[r]?
      = some ((Stage.terms s (varsRow nx nu)).map fun t => Term.eval ops X t (r + Stage.loss s)) := by
  have := Stage.tr_denotes ops ok X s (varsRow nx nu) 0 X (denotes_self ops X nx nu hX) r hr
  simpa [Nat.add_comm] using this

end values

end Pk
