/-! `pykoop/tsvd.py`: parameter validation and the retained-rank rule of `Tsvd.fit` as a function of the
singular values (as `scipy.linalg.svd` returns them: non-negative, non-increasing).  The two
optimal-hard-threshold methods call `optht` (opaque).  Core Lean only; executable. -/
namespace Pk.Tsvd

inductive Method where
  | economy
  | unknownNoise
  | knownNoise
  | cutoff
  | rank
  | invalid
deriving Repr, DecidableEq

inductive Out where
  | rank (r : Nat)
  | valueError
  | opaque          -- rank chosen by `optht`
deriving Repr, DecidableEq

/-- index of the last singular value exceeding the cutoff, plus one (`np.max(np.where(sig > c)) + 1`), 0 if none -/
def cutoffRank (c : Rat) (sig : List Rat) : Nat :=
  match (List.range sig.length).reverse.find? (fun i => decide (c < sig.getD i 0)) with
  | some i => i + 1
  | none => 0

/-- the retained rank or the error `fit` raises. `param = none` is `truncation_param=None`;
for `rank` the parameter is a natural number -/
def fitRank (m : Method) (param : Option Rat) (sig : List Rat) : Out :=
  let needs := m = .knownNoise ∨ m = .cutoff ∨ m = .rank
  if param.isNone ∧ needs then .valueError
  else if (match param with | some p => decide (p < 0) | none => false) then .valueError
  else if m = .invalid then .valueError
  else
    let r : Option Nat := match m with
      | .economy => some sig.length
      | .cutoff => some (cutoffRank (param.getD 0) sig)
      | .rank => some (min (param.getD 0).num.toNat sig.length)   -- slicing `[:r]` keeps at most all
      | _ => none
    match r with
    | none => .opaque
    | some r =>
      -- the statistics line takes `np.min` of the retained values: an empty selection raises ValueError
      if r = 0 then .valueError else .rank r

/-- the three factors are cut at the same index -/
def truncate {β : Type} (r : Nat) (cols : List β) : List β := cols.take r

end Pk.Tsvd
