/-! `pykoop/centers.py`: `_feature_range` (plain / symmetric), `GridCenters` (per-feature `linspace`, Cartesian product
in `np.meshgrid(...).reshape(n, -1).T` order), range-scaled random / quasi-random centres `min + u (max − min)`,
`DataCenters`.  Exact rationals.  Core Lean only; executable. -/
namespace Pk.Centers

abbrev RMat := List (List Rat)

def column (X : RMat) (j : Nat) : List Rat := X.map fun r => r.getD j 0

def lmax (l : List Rat) : Rat := l.foldl max (l.headD 0)
def lmin (l : List Rat) : Rat := l.foldl min (l.headD 0)
def rabs (x : Rat) : Rat := if x < 0 then -x else x

/-- `_feature_range`: per-feature `(min, max)`; symmetric: `(-max|x|, max|x|)` -/
def featureRange (symmetric : Bool) (X : RMat) (nFeatures : Nat) : List (Rat × Rat) :=
  (List.range nFeatures).map fun j =>
    let c := column X j
    if symmetric then
      let m := lmax (c.map rabs)
      (-m, m)
    else (lmin c, lmax c)

/-- `np.linspace(lo, hi, k)` (`k = 1` gives `[lo]`) -/
def linspace (lo hi : Rat) (k : Nat) : List Rat :=
  if k ≤ 1 then (if k = 0 then [] else [lo])
  else (List.range k).map fun (i : Nat) => lo + ((i : Nat) : Rat) * (hi - lo) / ((k - 1 : Nat) : Rat)

/-- lexicographic Cartesian product, first factor slowest -/
def cart : List (List Rat) → List (List Rat)
  | [] => [[]]
  | l :: rest => l.flatMap fun a => (cart rest).map (a :: ·)

/-- the order of `np.array(np.meshgrid(*ls)).reshape(n, -1).T` with the default `'xy'` indexing:
second factor slowest, then the first, then the remaining ones lexicographically -/
def grid : List (List Rat) → List (List Rat)
  | l0 :: l1 :: rest => l1.flatMap fun a1 => l0.flatMap fun a0 => (cart rest).map fun t => a0 :: a1 :: t
  | ls => cart ls

def gridCenters (symmetric : Bool) (k : Nat) (X : RMat) (nFeatures : Nat) : RMat :=
  grid ((featureRange symmetric X nFeatures).map fun (lo, hi) => linspace lo hi k)

/-- `stats.uniform.rvs(loc=min, scale=max-min)` / `qmc.scale`: unit-cube points mapped into the range -/
def scaled (range : List (Rat × Rat)) (u : List Rat) : List Rat :=
  List.zipWith (fun (lo, hi) t => lo + t * (hi - lo)) range u

end Pk.Centers
