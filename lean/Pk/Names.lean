import Pk.Fit
/-! Feature names: `_transform_feature_names` of every stage kind, `get_feature_names_out`
(`symbols_only`, `format`, `episode_feature` overrides) and `get_feature_names_in`.
For the episode-independent kinds the names are produced by the *same* generic row function as the values,
instantiated at the string operations `nameOps` — a column's name is built from the input names by the
operations that build the column's value from the input values.  Core Lean only; executable. -/
namespace Pk

inductive Fmt where
  | plain
  | latex
deriving Repr, DecidableEq

def powName (fmt : Fmt) (v : String) (p : Nat) : String :=
  if p = 1 then v
  else match fmt with
    | .plain => s!"{v}^{p}"
    | .latex => v ++ "^{" ++ toString p ++ "}"

def timesStr : Fmt → String
  | .plain => "*"
  | .latex => " "

def argStr (fmt : Fmt) (nu : Nat) : String :=
  match fmt, nu with
  | .plain, 0 => "x"
  | .plain, _ => "x, u"
  | .latex, 0 => "{\\bf x}"
  | .latex, _ => "{\\bf x}, {\\bf u}"

def idxStr (fmt : Fmt) (i : Nat) : String :=
  match fmt with
  | .plain => toString i
  | .latex => "{" ++ toString i ++ "}"

/-- the string operations: names as a value domain.  `SK<id>` stands for the wrapped transformer's
class name (substituted by the harness; `\mathrm{..}` in latex). -/
def nameOps (fmt : Fmt) : Ops String :=
  { one := "1"
    mul := fun a b => a ++ timesStr fmt ++ b
    mono := fun l => (timesStr fmt).intercalate (l.map fun (v, p) => powName fmt v p)
    cos := fun a => match fmt with
      | .plain => s!"cos({a})"
      | .latex => "\\cos{(" ++ a ++ ")}"
    sin := fun a => match fmt with
      | .plain => s!"sin({a})"
      | .latex => "\\sin{(" ++ a ++ ")}"
    atan2 := fun s _ => s
    sk := fun id _ v => s!"SK{id}({v})"
    skInv := fun _ _ v => v
    rbf := fun _ c _ u => s!"R_{idxStr fmt c}({argStr fmt u.length})"
    kern := fun _ c _ u => s!"z_{idxStr fmt c}({argStr fmt u.length})" }

def delayName (fmt : Fmt) (k : Nat) (v : String) : String :=
  if k = 0 then v
  else match fmt with
    | .plain => s!"D{k}({v})"
    | .latex => "D_{" ++ toString k ++ "}(" ++ v ++ ")"

/-- `DelayLiftingFn._transform_feature_names`: for delay 0..d, every feature -/
def delayNames (fmt : Fmt) (d : Nat) (names : List String) : List String :=
  (List.range (d+1)).flatMap fun k => names.map (delayName fmt k)

mutual
/-- `_transform_feature_names` through the tree, on (state names, input names) -/
def Stage.names (fmt : Fmt) : S → Row String → Row String
  | .rw k, nm => (rowFn (nameOps fmt) (fun _ => True) k).f nm
  | .delay dx du, nm => ⟨delayNames fmt dx nm.x, delayNames fmt du nm.u⟩
  | .split a b, nm => ⟨(Stages.names fmt a ⟨nm.x, []⟩).x, (Stages.names fmt b ⟨[], nm.u⟩).u⟩
  | .pipe ss, nm => Stages.names fmt ss nm
def Stages.names (fmt : Fmt) : Ss → Row String → Row String
  | .nil, nm => nm
  | .cons s rest, nm => Stages.names fmt rest (Stage.names fmt s nm)
end

def epName : Fmt → String
  | .plain => "ep"
  | .latex => "\\mathrm{episode}"

/-- `_generate_feature_names(lifted=False)` -/
def genNamesIn (fmt : Fmt) (nx nu : Nat) : Row String :=
  match fmt with
  | .plain => ⟨(List.range nx).map (fun k => s!"x{k}"), (List.range nu).map (fun k => s!"u{k}")⟩
  | .latex => ⟨(List.range nx).map (fun k => "x_{" ++ toString k ++ "}"),
               (List.range nu).map (fun k => "u_{" ++ toString k ++ "}")⟩

/-- `_generate_feature_names(lifted=True)` -/
def genNamesOut (fmt : Fmt) (nxo nuo : Nat) : Row String :=
  match fmt with
  | .plain => ⟨(List.range nxo).map (fun k => s!"theta{k}"), (List.range nuo).map (fun k => s!"upsilon{k}")⟩
  | .latex => ⟨(List.range nxo).map (fun k => "\\vartheta_{" ++ toString k ++ "}"),
               (List.range nuo).map (fun k => "\\upsilon_{" ++ toString k ++ "}")⟩

/-- `get_feature_names_out`.  `given`: names captured from a DataFrame at fit time (episode name first when
fitted with an episode feature).  `callEp`: the `episode_feature` argument. -/
def featureNamesOut (s : S) (w : Nat × Nat) (fitEp : Bool) (given : Option (List String))
    (symbolsOnly : Bool) (fmt : Fmt) (callEp : Option Bool) : List String :=
  let e := callEp.getD fitEp
  let wo := Stage.outW (rowFn unitOps) s w
  if symbolsOnly then
    let nm := genNamesOut fmt wo.1 wo.2
    (if e then [epName fmt] else []) ++ nm.x ++ nm.u
  else
    -- `get_feature_names_in(format)`: generated with the FIT-time episode flag, or the given names
    let namesIn : List String := match given with
      | some g => g
      | none => let nm := genNamesIn fmt w.1 w.2
                (if fitEp then [epName fmt] else []) ++ nm.x ++ nm.u
    let body := if fitEp then namesIn.drop 1 else namesIn
    let epIn := if fitEp then namesIn.take 1 else []
    let tf := Stage.names fmt s ⟨body.take w.1, body.drop w.1⟩
    let namesTf := epIn ++ tf.x ++ tf.u
    if e && !fitEp then epName fmt :: namesTf
    else if fitEp && !e then namesTf.drop 1
    else namesTf

/-- what a later call hands over: a plain array (which carries no names), or a frame whose extracted names are
`names` (`none` when not every column name is a string) -/
inductive CallInput where
  | array
  | frame (names : Option (List String))
  deriving Repr, DecidableEq

/-- `_validate_feature_names`: a plain array has no names to compare and is accepted; a frame is accepted iff the names
extracted from it are the names captured at fit time — the same names in the same positions -/
def namesAccepted (fitNames : Option (List String)) : CallInput → Bool
  | .array => true
  | .frame callNames => fitNames == callNames

end Pk
