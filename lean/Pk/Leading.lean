import Pk.FitLaws
import Pk.Slice
/-! The leading lifted-state columns are the original state (C01, second clause): for trees whose row-wise stages
are not pre-processors (no wrapped scikit-learn transformer, no angle pre-processor), the first `n_states_in`
columns of lifted sample `j` are the state of input sample `j + loss`.  Core Lean only. -/
namespace Pk
variable {α : Type}

def Kind.noPre : Kind → Bool
  | .sk _ => false
  | .angle _ => false
  | _ => true

mutual
def Stage.noPre : S → Bool
  | .rw k => k.noPre
  | .delay _ _ => true
  | .split a b => Stages.noPre a && Stages.noPre b
  | .pipe ss => Stages.noPre ss
def Stages.noPre : Ss → Bool
  | .nil => true
  | .cons s rest => Stage.noPre s && Stages.noPre rest
end

variable (ops : Ops α) (ok : α → Prop)

theorem rowFn_prefix (k : Kind) (hk : k.noPre = true) (r : Row α) :
    ((rowFn ops ok k).f r).x.take r.x.length = r.x := by
  cases k with
  | poly order io => simp [rowFn]
  | bilinear => simp [rowFn]
  | const => simp [rowFn]
  | rbf id n => simp only [rowFn]; split <;> simp
  | kernel id n => simp only [rowFn]; split <;> simp
  | sk id => simp [Kind.noPre] at hk
  | angle feat => simp [Kind.noPre] at hk

theorem kindW_ge (k : Kind) (hk : k.noPre = true) (w : Nat × Nat) : w.1 ≤ (kindW k w).1 := by
  obtain ⟨nx, nu⟩ := w
  cases k with
  | poly order io => simp [kindW]
  | bilinear => simp [kindW]
  | const => simp [kindW]
  | rbf id n => simp only [kindW]; split <;> simp
  | kernel id n => simp only [kindW]; split <;> simp
  | sk id => simp [Kind.noPre] at hk
  | angle feat => simp [Kind.noPre] at hk

mutual
theorem Stage.outW_ge (s : S) (h : Stage.noPre s = true) (w : Nat × Nat) :
    w.1 ≤ (Stage.outW (rowFn ops ok) s w).1 := by
  cases s with
  | rw k =>
    obtain ⟨nx, nu⟩ := w
    simp only [Stage.outW, rowFn_wx]
    exact kindW_ge k (by simpa [Stage.noPre] using h) (nx, nu)
  | delay dx du =>
    obtain ⟨nx, nu⟩ := w
    simp only [Stage.outW]
    exact Nat.le_mul_of_pos_right nx (by omega)
  | split a b =>
    obtain ⟨nx, nu⟩ := w
    simp only [Stage.noPre, Bool.and_eq_true] at h
    simp only [Stage.outW]
    exact Stages.outW_ge a h.1 (nx, 0)
  | pipe ss => simp only [Stage.noPre] at h; simpa [Stage.outW] using Stages.outW_ge ss h w
theorem Stages.outW_ge (ss : Ss) (h : Stages.noPre ss = true) (w : Nat × Nat) :
    w.1 ≤ (Stages.outW (rowFn ops ok) ss w).1 := by
  cases ss with
  | nil => simp [Stages.outW]
  | cons s rest =>
    simp only [Stages.noPre, Bool.and_eq_true] at h
    simp only [Stages.outW]
    exact Nat.le_trans (Stage.outW_ge s h.1 w) (Stages.outW_ge rest h.2 _)
end

theorem take_delayRow (w : Nat) (cols : List (List α)) (hw : ∀ c ∈ cols, c.length = w)
    (d t : Nat) (hd : d ≤ t) (ht : t < cols.length) :
    (delayRow cols d t).take w = cols.getD t [] := by
  rw [delayRow_eq cols d t hd]
  have hs : slice cols (t - d) (d + 1) = slice cols (t - d) d ++ slice cols (t - d + d) 1 := by
    rw [slice_append]
  have h1 : slice cols (t - d + d) 1 = [cols.getD t []] := by
    simp [slice, show t - d + d = t by omega]
  rw [hs, h1, List.reverse_append]
  simp only [List.reverse_cons, List.reverse_nil, List.nil_append, List.flatten_cons, List.singleton_append]
  have hlen : (cols.getD t []).length = w := by
    rw [List.getD_eq_getElem?_getD, List.getElem?_eq_getElem ht]
    exact hw _ (List.getElem_mem _)
  exact List.take_left' hlen

theorem delayCols_take (w d T : Nat) (cols : List (List α)) (hw : ∀ c ∈ cols, c.length = w) (hdT : d ≤ T) :
    (delayCols d T cols).map (·.take w) = cols.drop T := by
  apply List.ext_getElem
  · simp [delayCols]
  · intro i h1 h2
    simp only [delayCols, List.length_map, List.length_range] at h1
    simp only [delayCols, List.getElem_map, List.getElem_range, List.getElem_drop]
    rw [take_delayRow w cols hw d (i + T) (by omega) (by omega)]
    rw [List.getD_eq_getElem?_getD, List.getElem?_eq_getElem (by omega)]
    simp [Nat.add_comm]

theorem delayEp_lead (wx wu dx du : Nat) (X : Ep α) (hX : Typed wx wu X) :
    (delayEp dx du X).map (fun r => r.x.take wx) = (X.drop (max dx du)).map (·.x) := by
  have hwx : ∀ c ∈ X.map (·.x), c.length = wx := by
    intro c hc; simp only [List.mem_map] at hc; obtain ⟨r, hr, rfl⟩ := hc; exact (hX r hr).1
  unfold delayEp
  simp only []
  have := map_fst_zipWith Row.mk (·.x) (fun _ _ => rfl)
    (delayCols dx (max dx du) (X.map (·.x))) (delayCols du (max dx du) (X.map (·.u))) (by simp [delayCols_length])
  have e : (List.zipWith Row.mk (delayCols dx (max dx du) (X.map (·.x))) (delayCols du (max dx du) (X.map (·.u)))).map
      (fun r => r.x.take wx)
      = ((List.zipWith Row.mk (delayCols dx (max dx du) (X.map (·.x))) (delayCols du (max dx du) (X.map (·.u)))).map (·.x)).map
          (·.take wx) := by
    rw [List.map_map]; rfl
  rw [e, this, delayCols_take wx dx (max dx du) _ hwx (Nat.le_max_left _ _), List.map_drop]

theorem map_take_take {β : Type} (a b : Nat) (h : a ≤ b) (L : List (List β)) :
    (L.map (·.take b)).map (·.take a) = L.map (·.take a) := by
  rw [List.map_map]
  apply List.map_congr_left
  intro l _
  simp [List.take_take, Nat.min_eq_left h]

mutual
theorem Stage.lead (hL : ops.Lawful ok) (s : S) (h : Stage.noPre s = true) (wx wu : Nat) (X : Ep α)
    (hX : Typed wx wu X) :
    (Stage.tr (rowFn ops ok) s X).map (fun r => r.x.take wx) = (X.drop (Stage.loss s)).map (·.x) := by
  cases s with
  | rw k =>
    simp only [Stage.tr, Stage.loss, List.drop_zero, List.map_map]
    apply List.map_congr_left
    intro r hr
    have := rowFn_prefix ops ok k (by simpa [Stage.noPre] using h) r
    simp only [Function.comp]
    rw [← (hX r hr).1]; exact this
  | delay dx du => simpa [Stage.tr, Stage.loss] using delayEp_lead wx wu dx du X hX
  | split a b =>
    simp only [Stage.noPre, Bool.and_eq_true] at h
    simp only [Stage.tr, Stage.loss]
    have hA := Stages.lead hL a h.1 wx 0 (onlyX X) (typed_onlyX wx wu X hX)
    have hlA := Stages.length_tr (rowFn ops ok) a (onlyX X)
    have hlB := Stages.length_tr (rowFn ops ok) b (onlyU X)
    rw [onlyX_length] at hlA; rw [onlyU_length] at hlB
    have e1 : (zipXU (Stages.tr (rowFn ops ok) a (onlyX X)) (Stages.tr (rowFn ops ok) b (onlyU X))).map
          (fun r => r.x.take wx)
        = ((zipXU (Stages.tr (rowFn ops ok) a (onlyX X)) (Stages.tr (rowFn ops ok) b (onlyU X))).map (·.x)).map
            (·.take wx) := by rw [List.map_map]; rfl
    rw [e1, zipXU_x, List.map_map]
    have e2 : (lastN (min (Stages.tr (rowFn ops ok) a (onlyX X)).length (Stages.tr (rowFn ops ok) b (onlyU X)).length)
          (Stages.tr (rowFn ops ok) a (onlyX X))).map ((fun x => x.take wx) ∘ fun r => r.x)
        = lastN (min (Stages.tr (rowFn ops ok) a (onlyX X)).length (Stages.tr (rowFn ops ok) b (onlyU X)).length)
            ((Stages.tr (rowFn ops ok) a (onlyX X)).map (fun r => r.x.take wx)) := by
      rw [lastN_map]; rfl
    rw [e2, hA, hlA, hlB]
    have e3 : (List.drop (Stages.loss a) (onlyX X)).map (·.x) = (List.drop (Stages.loss a) X).map (·.x) := by
      rw [List.map_drop, List.map_drop]; congr 1; simp [onlyX, List.map_map, Function.comp_def]
    rw [e3]
    simp only [lastN, List.length_map, List.length_drop, List.map_drop, List.drop_drop]
    by_cases hN : max (Stages.loss a) (Stages.loss b) ≤ X.length
    · congr 1
      omega
    · rw [List.drop_of_length_le (by simp; omega), List.drop_of_length_le (by simp; omega)]
  | pipe ss => simp only [Stage.noPre] at h; simpa [Stage.tr, Stage.loss] using Stages.lead hL ss h wx wu X hX
theorem Stages.lead (hL : ops.Lawful ok) (ss : Ss) (h : Stages.noPre ss = true) (wx wu : Nat) (X : Ep α)
    (hX : Typed wx wu X) :
    (Stages.tr (rowFn ops ok) ss X).map (fun r => r.x.take wx) = (X.drop (Stages.loss ss)).map (·.x) := by
  cases ss with
  | nil => simp only [Stages.tr, Stages.loss, List.drop_zero]
           apply List.map_congr_left
           intro r hr; rw [← (hX r hr).1]; simp
  | cons s rest =>
    simp only [Stages.noPre, Bool.and_eq_true] at h
    simp only [Stages.tr, Stages.loss]
    have hT := Stage.typed_tr (rowFn ops ok) (rowFn_laws ops ok hL) s wx wu X hX
    have hr := Stages.lead hL rest h.2 _ _ (Stage.tr (rowFn ops ok) s X) hT
    have hs := Stage.lead hL s h.1 wx wu X hX
    have hge := Stage.outW_ge ops ok s h.1 (wx, wu)
    have e : (Stages.tr (rowFn ops ok) rest (Stage.tr (rowFn ops ok) s X)).map (fun r => r.x.take wx)
        = ((Stages.tr (rowFn ops ok) rest (Stage.tr (rowFn ops ok) s X)).map
            (fun r => r.x.take (Stage.outW (rowFn ops ok) s (wx, wu)).1)).map (·.take wx) := by
      rw [List.map_map]
      apply List.map_congr_left
      intro r _
      simp [List.take_take, Nat.min_eq_left hge]
    rw [e, hr, List.map_map]
    have e2 : (List.drop (Stages.loss rest) (Stage.tr (rowFn ops ok) s X)).map ((fun x => x.take wx) ∘ fun r => r.x)
        = ((Stage.tr (rowFn ops ok) s X).map (fun r => r.x.take wx)).drop (Stages.loss rest) := by
      rw [List.map_drop]; rfl
    rw [e2, hs, ← List.map_drop, List.drop_drop]
end

end Pk
