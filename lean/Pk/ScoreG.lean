import Pk.Score
/-! The "greater is better" metrics of `score_trajectory` (`'r2'`, `'explained_variance'`) over exact rationals, as
scikit-learn computes them with `sample_weight`, `multioutput='uniform_average'` and `force_finite=True`:
per output column a fraction of explained deviance `1 − num/den` with the two conventions `num = 0 ↦ 1` and
`num ≠ 0, den = 0 ↦ 0`, then the plain mean over the columns.  `score_trajectory` does not negate these, applies
the same finiteness guards and the same `error_score` floor.  Core Lean only; executable. -/
namespace Pk

inductive GMetric where
  | r2
  | ev
deriving Repr, DecidableEq

def colOf (j : Nat) (M : List (List Rat)) : List Rat := M.map (·.getD j 0)

/-- `Σ_r w_r v_r` -/
def wsum (w v : List Rat) : Rat := rsum (List.zipWith (· * ·) w v)

def sqr (x : Rat) : Rat := x * x

/-- `_assemble_fraction_of_explained_deviance` for one column (`force_finite=True`) -/
def assemble (num den : Rat) : Rat :=
  if num = 0 then 1 else if den = 0 then 0 else 1 - num / den

/-- one output column: `p` predicted, `e` expected -/
def colGood (g : GMetric) (w p e : List Rat) : Rat :=
  let W := rsum w
  let ybar := wsum w e / W
  let d := List.zipWith (fun a b => b - a) p e
  match g with
  | .r2 => assemble (wsum w (d.map sqr)) (wsum w (e.map fun y => sqr (y - ybar)))
  | .ev =>
    let dbar := wsum w d / W
    assemble (wsum w (d.map fun x => sqr (x - dbar)) / W) (wsum w (e.map fun y => sqr (y - ybar)) / W)

def ncolsOf (E : List (List Rat)) : Nat :=
  match E with
  | [] => 0
  | r :: _ => r.length

/-- uniform average over the output columns -/
def goodness (g : GMetric) (w : List Rat) (P E : List (List Rat)) : Rat :=
  let ncols : Nat := ncolsOf E
  rsum ((List.range ncols).map fun j => colGood g w (colOf j P) (colOf j E)) / (ncols : Rat)

/-- `score_trajectory` for `'r2'` / `'explained_variance'` -/
def scoreTrajectoryG (finite : Bool) (g : GMetric) (es : ErrScore) (nSteps : Option Nat) (γ : Rat)
    (minSamples : Nat) (P E : FlatMat Rat) : ScoreOut :=
  if !finite then errOut es
  else if γ < 0 ∨ 1 < γ then .valueError
  else
    let Es := stripIC minSamples E
    let Ps := stripIC minSamples P
    let w := weightsOf nSteps γ Es
    if Ps.length != Es.length then .valueError
    else if rsum w = 0 then .valueError
    else if g = .r2 ∧ Es.length < 2 then errOut es      -- scikit-learn returns NaN: "not well-defined"
    else
      let score := goodness g w (Ps.map (·.2)) (Es.map (·.2))
      match es with
      | .val e => if score < e then .val e else .val score
      | _ => .val score

end Pk
