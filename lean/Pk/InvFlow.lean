import Pk.Flow
/-! The matrix-level `inverse_transform` (`Stage.mi`) refines the per-episode inverse (`Stage.inv`) for every
layout — no guard is needed, because the inverse of a non-empty episode is never empty.  Core Lean only. -/
namespace Pk
variable {α : Type} {κ : Type}

theorem chunks_length (w n : Nat) (r : List α) : (chunks w n r).length = n := by
  induction n generalizing r with
  | zero => rfl
  | succ k ih => simp [chunks, ih]

theorem undelayCols_nil (w d : Nat) : undelayCols w d ([] : List (List α)) = [] := by
  simp [undelayCols]

theorem undelayCols_length (w d : Nat) (rows : List (List α)) (h : rows ≠ []) :
    (undelayCols w d rows).length = rows.length + d := by
  unfold undelayCols
  cases hl : rows.getLast? with
  | none => exact absurd (List.getLast?_eq_none_iff.mp hl) h
  | some last =>
    simp only [List.length_append, List.length_map, List.length_dropLast, List.length_reverse, chunks_length]
    have : 0 < rows.length := List.length_pos_iff.mpr h
    omega

theorem undelayEp_nil (wx wu dx du : Nat) : undelayEp wx wu dx du ([] : Ep α) = [] := by
  simp [undelayEp, undelayCols_nil, lastN]

theorem undelayEp_length (wx wu dx du : Nat) (Y : Ep α) (h : Y ≠ []) :
    (undelayEp wx wu dx du Y).length = Y.length + min dx du := by
  unfold undelayEp
  have hx : Y.map (·.x) ≠ [] := by simpa using h
  have hu : Y.map (·.u) ≠ [] := by simpa using h
  simp only [List.length_zipWith, lastN_length, undelayCols_length _ _ _ hx, undelayCols_length _ _ _ hu,
    List.length_map]
  omega

variable (env : κ → RowFn α)

theorem zipXU_nil_left (B : Ep α) : zipXU ([] : Ep α) B = [] := by simp [zipXU, lastN]

mutual
theorem Stage.inv_nil (s : Stage κ) (w : Nat × Nat) : Stage.inv env s w ([] : Ep α) = [] := by
  cases s with
  | rw k => simp [Stage.inv]
  | delay dx du => obtain ⟨wx, wu⟩ := w; simp [Stage.inv, undelayEp_nil]
  | split a b =>
    obtain ⟨wx, wu⟩ := w
    simp only [Stage.inv, onlyX, onlyU, List.map_nil]
    rw [Stages.inv_nil a]; exact zipXU_nil_left _
  | pipe ss => simp only [Stage.inv]; exact Stages.inv_nil ss w
theorem Stages.inv_nil (ss : Stages κ) (w : Nat × Nat) : Stages.inv env ss w ([] : Ep α) = [] := by
  cases ss with
  | nil => simp [Stages.inv]
  | cons s rest => simp only [Stages.inv]; rw [Stages.inv_nil rest, Stage.inv_nil s]
end

mutual
/-- the inverse of a non-empty episode restores `gain` samples -/
theorem Stage.length_inv (s : Stage κ) (w : Nat × Nat) (Y : Ep α) (h : Y ≠ []) :
    (Stage.inv env s w Y).length = Y.length + Stage.gain s := by
  cases s with
  | rw k => simp [Stage.inv, Stage.gain]
  | delay dx du => obtain ⟨wx, wu⟩ := w; simp [Stage.inv, Stage.gain, undelayEp_length _ _ _ _ Y h]
  | split a b =>
    obtain ⟨wx, wu⟩ := w
    have hx : onlyX Y ≠ [] := by simpa [onlyX] using h
    have hu : onlyU Y ≠ [] := by simpa [onlyU] using h
    simp only [Stage.inv, Stage.gain, zipXU_length, Stages.length_inv a _ _ hx, Stages.length_inv b _ _ hu,
      onlyX_length, onlyU_length]
    omega
  | pipe ss => simp only [Stage.inv, Stage.gain]; exact Stages.length_inv ss w Y h
theorem Stages.length_inv (ss : Stages κ) (w : Nat × Nat) (Y : Ep α) (h : Y ≠ []) :
    (Stages.inv env ss w Y).length = Y.length + Stages.gain ss := by
  cases ss with
  | nil => simp [Stages.inv, Stages.gain]
  | cons s rest =>
    simp only [Stages.inv, Stages.gain]
    have h1 := Stages.length_inv rest (Stage.outW env s w) Y h
    have hne : Stages.inv env rest (Stage.outW env s w) Y ≠ [] := by
      intro h0; rw [h0] at h1; have : 0 < Y.length := List.length_pos_iff.mpr h; simp at h1; omega
    rw [Stage.length_inv s w _ hne, h1]; omega
end

theorem Stage.inv_ne_nil (s : Stage κ) (w : Nat × Nat) (Y : Ep α) (h : Y ≠ []) : Stage.inv env s w Y ≠ [] := by
  intro h0
  have := Stage.length_inv env s w Y h
  rw [h0] at this
  have : 0 < Y.length := List.length_pos_iff.mpr h
  simp at *; omega

theorem Stages.inv_ne_nil (ss : Stages κ) (w : Nat × Nat) (Y : Ep α) (h : Y ≠ []) : Stages.inv env ss w Y ≠ [] := by
  intro h0
  have := Stages.length_inv env ss w Y h
  rw [h0] at this
  have : 0 < Y.length := List.length_pos_iff.mpr h
  simp at *; omega

/-- labels are preserved by anything that acts per episode and keeps non-empty episodes non-empty -/
theorem labels_eq_of_refines' (X Y : M α) (g : Ep α → Ep α) (hg : g [] = [])
    (href : ∀ l, episodeOf l Y = g (episodeOf l X)) (hne : ∀ e : Ep α, e ≠ [] → g e ≠ []) :
    labels Y = labels X :=
  labels_eq_of_refines X Y g hg href (fun l hl => hne _ ((mem_labels_iff X l).mp hl))

mutual
theorem Stage.mi_refines (s : Stage κ) (w : Nat × Nat) (Y : M α) :
    ∀ l, episodeOf l (Stage.mi env s w Y) = Stage.inv env s w (episodeOf l Y) := by
  cases s with
  | rw k => intro l; simp [Stage.mi, Stage.inv, episodeOf_mapRows]
  | delay dx du =>
    intro l
    obtain ⟨wx, wu⟩ := w
    simp only [Stage.mi, Stage.inv]
    exact episodeOf_perEpisode _ (undelayEp_nil wx wu dx du) Y l
  | split a b =>
    intro l
    obtain ⟨wx, wu⟩ := w
    have hXs : ∀ l, episodeOf l (perEpisode onlyX Y) = onlyX (episodeOf l Y) :=
      fun l => episodeOf_perEpisode onlyX (by simp [onlyX]) Y l
    have hXu : ∀ l, episodeOf l (perEpisode onlyU Y) = onlyU (episodeOf l Y) :=
      fun l => episodeOf_perEpisode onlyU (by simp [onlyU]) Y l
    have hLs : labels (perEpisode onlyX Y) = labels Y :=
      labels_eq_of_refines' Y _ onlyX (by simp [onlyX]) hXs (by intro e he; simpa [onlyX] using he)
    have hLu : labels (perEpisode onlyU Y) = labels Y :=
      labels_eq_of_refines' Y _ onlyU (by simp [onlyU]) hXu (by intro e he; simpa [onlyU] using he)
    have hTs := Stages.mi_refines a (wx, 0) (perEpisode onlyX Y)
    have hTu := Stages.mi_refines b (0, wu) (perEpisode onlyU Y)
    have hLTs : labels (Stages.mi env a (wx, 0) (perEpisode onlyX Y)) = labels Y := by
      rw [← hLs]
      exact labels_eq_of_refines' _ _ (Stages.inv env a (wx, 0)) (Stages.inv_nil env a _) hTs
        (fun e he => Stages.inv_ne_nil env a _ e he)
    have hLTu : labels (Stages.mi env b (0, wu) (perEpisode onlyU Y)) = labels Y := by
      rw [← hLu]
      exact labels_eq_of_refines' _ _ (Stages.inv env b (0, wu)) (Stages.inv_nil env b _) hTu
        (fun e he => Stages.inv_ne_nil env b _ e he)
    simp only [Stage.mi, Stage.inv]
    unfold splitEps
    rw [hLTs, hLTu, zipWith_map_map]
    rw [episodeOf_combine_family l
      (fun l' => zipXU (episodeOf l' (Stages.mi env a (wx, 0) (perEpisode onlyX Y)))
                       (episodeOf l' (Stages.mi env b (0, wu) (perEpisode onlyU Y)))) _ (asc_labels Y)]
    split
    · rw [hTs l, hTu l, hXs l, hXu l]
    · rename_i hl
      have : episodeOf l Y = [] := by
        cases h0 : episodeOf l Y with
        | nil => rfl
        | cons r t => exact absurd ((mem_labels_iff Y l).mpr (by rw [h0]; simp)) hl
      rw [this]
      simp [onlyX, onlyU, Stages.inv_nil, zipXU, lastN]
  | pipe ss =>
    intro l
    simp only [Stage.mi, Stage.inv]
    exact Stages.mi_refines ss w Y l
theorem Stages.mi_refines (ss : Stages κ) (w : Nat × Nat) (Y : M α) :
    ∀ l, episodeOf l (Stages.mi env ss w Y) = Stages.inv env ss w (episodeOf l Y) := by
  cases ss with
  | nil => intro l; simp [Stages.mi, Stages.inv]
  | cons s rest =>
    intro l
    simp only [Stages.mi, Stages.inv]
    rw [Stage.mi_refines s w _ l, Stages.mi_refines rest _ Y l]
end

end Pk
