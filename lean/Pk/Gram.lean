/-! `Edmd._fit_regressor` over exact rationals: `G = Θ₊Ψᵀ`, `H = ΨΨᵀ + αI` (the common `1/q` dropped, see
`C06_scaling`), Gauss–Jordan solution of `U H = G`, and a *certificate check* `U H = G` in ℚ, so that what is
printed provably satisfies the normal equations without trusting the elimination routine.
Core Lean only; executable. -/
namespace Pk.Gram

abbrev RMat := List (List Rat)

def rdot (a b : List Rat) : Rat := (List.zipWith (· * ·) a b).foldl (· + ·) 0

def transpose (A : RMat) : RMat :=
  match A with
  | [] => []
  | r :: _ => (List.range r.length).map fun j => A.map fun row => row.getD j 0

/-- `A Bᵀ` with `B` given by rows -/
def mulT (A B : RMat) : RMat := A.map fun a => B.map fun b => rdot a b

def mul (A B : RMat) : RMat := mulT A (transpose B)

def addDiag (α : Rat) (A : RMat) : RMat :=
  (A.zip (List.range A.length)).map fun (row, i) =>
    (row.zip (List.range row.length)).map fun (v, j) => if i = j then v + α else v

/-- one elimination step on the augmented rows `[M | R]` for pivot column `c` -/
def pivotStep (rows : List (List Rat)) (c : Nat) : Option (List (List Rat)) :=
  match (List.range rows.length).find? (fun i => c ≤ i && (rows.getD i []).getD c 0 != 0) with
  | none => none
  | some pi =>
    let prow := rows.getD pi []
    let pv := prow.getD c 0
    let prow' := prow.map (· / pv)
    -- swap pi and c, then eliminate
    let swapped := (List.range rows.length).map fun i =>
      if i = c then prow' else if i = pi then rows.getD c [] else rows.getD i []
    some ((List.range rows.length).map fun i =>
      if i = c then prow'
      else
        let r := swapped.getD i []
        let f := r.getD c 0
        List.zipWith (fun a b => a - f * b) r prow')

/-- solve `M X = R` (square `M`); `none` when singular -/
def solve (M R : RMat) : Option RMat :=
  let n := M.length
  let aug := List.zipWith (· ++ ·) M R
  let res := (List.range n).foldl (fun acc c => acc.bind fun rows => pivotStep rows c) (some aug)
  res.map fun rows => rows.map (·.drop n)

/-- EDMD over ℚ: returns `U` (rows) with the certificate checked, or `none` -/
def edmd (α : Rat) (Psi Theta : RMat) : Option RMat :=
  let H := addDiag α (mulT Psi Psi)          -- ΨΨᵀ + αI  (symmetric)
  let G := mulT Theta Psi                     -- ΘΨᵀ
  -- U H = G  ⇔  H Uᵀ = Gᵀ  (H symmetric)
  match solve H (transpose G) with
  | none => none
  | some Ut =>
    let U := transpose Ut
    if mul U H = G then some U else none

end Pk.Gram
