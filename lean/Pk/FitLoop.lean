/-! The alternating A/B loop shared by the five iterative LMI regressors
(`LmiEdmdSpectralRadiusConstr`, `LmiDmdcSpectralRadiusConstr`, `LmiEdmdHinfReg`, `LmiDmdcHinfReg`,
`LmiEdmdDissipativityConstr`) as a state machine over solver outcomes.  Core Lean only; executable. -/
namespace Pk.FitLoop

structure AOut (U : Type) where
  optimal : Bool
  u : U
  obj : Rat
deriving Repr

structure BOut (P : Type) where
  optimal : Bool
  p : P
deriving Repr

inductive Stop where
  | user | aFailed | tol | bFailed | maxIter
deriving Repr, DecidableEq

structure Result (U P : Type) where
  u : U
  p : P
  stop : Stop
  nIter : Nat
  log : List Rat
deriving Repr

variable {U P : Type}

/-- `solveA P k` / `solveB U k`: what the solver reports for sub-problem A_k / B_k;
`stopA k` / `stopB k`: whether the polite-stop flag is seen just before solving A_k / B_k;
`close curr prev`: the `np.allclose` tolerance test. -/
structure Env (U P : Type) where
  solveA : P → Nat → AOut U
  solveB : U → Nat → BOut P
  stopA : Nat → Bool
  stopB : Nat → Bool
  close : Rat → Rat → Bool

/-- the tolerance test is only made from the second logged objective on -/
def closeHit (e : Env U P) (log : List Rat) (obj : Rat) : Bool :=
  match log.getLast? with
  | some prev => e.close obj prev
  | none => false

/-- iterations `k, k+1, …` with `fuel` iterations left -/
def loop (e : Env U P) : Nat → Nat → U → P → List Rat → Result U P
  | 0, k, u, p, log => ⟨u, p, .maxIter, k, log⟩               -- for-else: `n_iter_ = max_iter`
  | fuel+1, k, u, p, log =>
    if e.stopA k then ⟨u, p, .user, k+1, log⟩
    else
      let a := e.solveA p k
      if !a.optimal then ⟨u, p, .aFailed, k+1, log⟩
      else
        let log' := log ++ [a.obj]
        if closeHit e log a.obj then ⟨a.u, p, .tol, k+1, log'⟩
        else if e.stopB k then ⟨a.u, p, .user, k+1, log'⟩
        else
          let b := e.solveB a.u k
          if !b.optimal then ⟨a.u, p, .bFailed, k+1, log'⟩
          else loop e fuel (k+1) a.u b.p log'

/-- `_fit_regressor`: start from `U = 0`, `P = I` -/
def fit (e : Env U P) (maxIter : Nat) (u0 : U) (p0 : P) : Result U P := loop e maxIter 0 u0 p0 []

end Pk.FitLoop
