import Pk.XLoc
import Pk.InvFlow
import Pk.KindLaws
/-! State-block locality of the inverse: the state block of `inverse_transform` depends only on the lifted-state
block of its argument.  With the round trip (C01) this gives `retract_state ∘ lift_state = id` on the trailing
samples (C16).  Core Lean only. -/
namespace Pk
variable {α : Type} {κ : Type}

variable (env : κ → RowFn α)

structure XLocInv (env : κ → RowFn α) : Prop where
  xloc : ∀ k w r r', r.x = r'.x → ((env k).g w r).x = ((env k).g w r').x

theorem undelayEp_x (wx wu dx du : Nat) (Y Y' : Ep α) (h : Y.map (·.x) = Y'.map (·.x)) :
    (undelayEp wx wu dx du Y).map (·.x) = (undelayEp wx wu dx du Y').map (·.x) := by
  have hlen := length_of_map_eq _ Y Y' h
  by_cases hY : Y = []
  · subst hY
    have : Y' = [] := List.eq_nil_of_length_eq_zero (by simpa using hlen.symm)
    subst this; rfl
  · have hY' : Y' ≠ [] := by
      intro h0; subst h0; exact hY (List.eq_nil_of_length_eq_zero (by simpa using hlen))
    have hx : Y.map (·.x) ≠ [] := by simpa using hY
    have hu : Y.map (·.u) ≠ [] := by simpa using hY
    have hx' : Y'.map (·.x) ≠ [] := by simpa using hY'
    have hu' : Y'.map (·.u) ≠ [] := by simpa using hY'
    unfold undelayEp
    simp only []
    rw [map_fst_zipWith Row.mk (·.x) (fun _ _ => rfl) _ _ (by simp [lastN_length]),
        map_fst_zipWith Row.mk (·.x) (fun _ _ => rfl) _ _ (by simp [lastN_length])]
    rw [undelayCols_length _ _ _ hx, undelayCols_length _ _ _ hu, undelayCols_length _ _ _ hx',
      undelayCols_length _ _ _ hu', h]
    simp only [List.length_map, hlen]

mutual
theorem Stage.inv_x_local (hL : XLocInv env) (s : Stage κ) (w : Nat × Nat) (Y Y' : Ep α)
    (h : Y.map (·.x) = Y'.map (·.x)) :
    (Stage.inv env s w Y).map (·.x) = (Stage.inv env s w Y').map (·.x) := by
  cases s with
  | rw k =>
    simp only [Stage.inv, List.map_map]
    exact map_congr_of_map_eq (·.x) _ Y Y' h (fun r r' e => hL.xloc k w r r' e)
  | delay dx du => obtain ⟨wx, wu⟩ := w; simpa [Stage.inv] using undelayEp_x wx wu dx du Y Y' h
  | split a b =>
    obtain ⟨wx, wu⟩ := w
    have hlen := length_of_map_eq _ Y Y' h
    simp only [Stage.inv]
    rw [zipXU_x, zipXU_x, onlyX_eq_of_x Y Y' h]
    by_cases hY : Y = []
    · subst hY
      have : Y' = [] := List.eq_nil_of_length_eq_zero (by simpa using hlen.symm)
      subst this; rfl
    · have hY' : Y' ≠ [] := by
        intro h0; subst h0; exact hY (List.eq_nil_of_length_eq_zero (by simpa using hlen))
      have hu : onlyU Y ≠ [] := by simpa [onlyU] using hY
      have hu' : onlyU Y' ≠ [] := by simpa [onlyU] using hY'
      rw [Stages.length_inv env b _ _ hu, Stages.length_inv env b _ _ hu', onlyU_length, onlyU_length, hlen]
  | pipe ss => simpa [Stage.inv] using Stages.inv_x_local hL ss w Y Y' h
theorem Stages.inv_x_local (hL : XLocInv env) (ss : Stages κ) (w : Nat × Nat) (Y Y' : Ep α)
    (h : Y.map (·.x) = Y'.map (·.x)) :
    (Stages.inv env ss w Y).map (·.x) = (Stages.inv env ss w Y').map (·.x) := by
  cases ss with
  | nil => simpa [Stages.inv] using h
  | cons s rest =>
    simp only [Stages.inv]
    exact Stage.inv_x_local hL s w _ _ (Stages.inv_x_local hL rest _ Y Y' h)
end

/-- every concrete kind's inverse reads the state block only -/
theorem rowFn_xlocInv (ops : Ops α) (ok : α → Prop) : XLocInv (rowFn ops ok) where
  xloc := by
    intro k w r r' h
    obtain ⟨wx, wu⟩ := w
    cases k <;> simp [rowFn, takeInv, h]

end Pk
