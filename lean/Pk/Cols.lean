/-! `DelayLiftingFn._delay` / `_undelay` on one column block (state or input) of one episode, and the
suffix-stable round trip `undelay (lastN k (delay X)) = lastN (k+d) X`. Core Lean only. -/
namespace Pk
variable {α : Type}

def lastN (k : Nat) (l : List β) : List β := l.drop (l.length - k)

/-- split a row into `n` chunks of width `w` -/
def chunks (w : Nat) : Nat → List α → List (List α)
  | 0, _ => []
  | n+1, r => r.take w :: chunks w n (r.drop w)

/-- delayed block at time `t`: cols[t] ++ cols[t-1] ++ … ++ cols[t-d] -/
def delayRow (cols : List (List α)) (d t : Nat) : List α :=
  ((List.range (d+1)).map (fun i => cols.getD (t - i) [])).flatten

/-- `_delay` followed by the tail truncation to offset `T ≥ d` (T = max dx du) -/
def delayCols (d T : Nat) (cols : List (List α)) : List (List α) :=
  (List.range (cols.length - T)).map (fun j => delayRow cols d (j + T))

/-- `_undelay` for feature width `w` -/
def undelayCols (w d : Nat) (rows : List (List α)) : List (List α) :=
  match rows.getLast? with
  | none => []
  | some last => rows.dropLast.map (fun r => r.drop (w * d)) ++ (chunks w (d+1) last).reverse


theorem chunks_flatten (w : Nat) (bs : List (List α)) (h : ∀ b ∈ bs, b.length = w) :
    chunks w bs.length bs.flatten = bs := by
  induction bs with
  | nil => rfl
  | cons b bs ih =>
    have hb : b.length = w := h b (by simp)
    have ih' := ih (fun b' hb' => h b' (by simp [hb']))
    simp only [List.length_cons, chunks, List.flatten_cons]
    rw [List.take_left' hb, List.drop_left' hb, ih']

theorem drop_flatten_widths (w : Nat) (bs : List (List α)) (b : List α)
    (h : ∀ b' ∈ bs, b'.length = w) : (bs.flatten ++ b).drop (w * bs.length) = b := by
  induction bs with
  | nil => simp
  | cons c cs ih =>
    have hc : c.length = w := h c (by simp)
    have ih' := ih (fun b' hb' => h b' (by simp [hb']))
    simp only [List.flatten_cons, List.length_cons, List.append_assoc]
    have e : w * (cs.length + 1) = c.length + w * cs.length := by rw [hc, Nat.mul_succ]; omega
    rw [e, ← List.drop_drop, List.drop_left]
    exact ih'


/-- `len` consecutive blocks starting at `a` -/
def slice (cols : List (List α)) (a len : Nat) : List (List α) :=
  (List.range len).map (fun i => cols.getD (a + i) [])

theorem slice_length (cols : List (List α)) (a len : Nat) : (slice cols a len).length = len := by
  simp [slice]

theorem slice_append (cols : List (List α)) (a l1 l2 : Nat) :
    slice cols a l1 ++ slice cols (a + l1) l2 = slice cols a (l1 + l2) := by
  apply List.ext_getElem
  · simp [slice]
  · intro i h1 h2
    simp only [slice, List.length_append, List.length_map, List.length_range] at h1 h2
    by_cases hi : i < l1
    · rw [List.getElem_append_left (by simp [slice]; exact hi)]
      simp [slice]
    · rw [List.getElem_append_right (by simp [slice]; omega)]
      simp only [slice, List.getElem_map, List.getElem_range, List.length_map, List.length_range]
      congr 1; omega

theorem slice_eq_lastN (cols : List (List α)) (m : Nat) (hm : m ≤ cols.length) :
    slice cols (cols.length - m) m = lastN m cols := by
  apply List.ext_getElem
  · simp [slice, lastN]; omega
  · intro i h1 h2
    simp only [slice, List.length_map, List.length_range] at h1
    simp only [slice, lastN, List.getElem_map, List.getElem_range, List.getElem_drop]
    rw [List.getD_eq_getElem?_getD, List.getElem?_eq_getElem (by omega)]
    rfl

/-- all blocks of `slice` have width `w` when in range -/
theorem slice_widths (w : Nat) (cols : List (List α)) (hw : ∀ c ∈ cols, c.length = w) (a len : Nat)
    (h : a + len ≤ cols.length) : ∀ b ∈ slice cols a len, b.length = w := by
  intro b hb
  simp only [slice, List.mem_map, List.mem_range] at hb
  obtain ⟨i, hi, rfl⟩ := hb
  rw [List.getD_eq_getElem?_getD, List.getElem?_eq_getElem (by omega)]
  exact hw _ (List.getElem_mem _)

/-- the delayed block at time `t` is the flattened reversed slice `[t-d .. t]` -/
theorem delayRow_eq (cols : List (List α)) (d t : Nat) (hd : d ≤ t) :
    delayRow cols d t = ((slice cols (t - d) (d+1)).reverse).flatten := by
  unfold delayRow slice
  congr 1
  apply List.ext_getElem
  · simp
  · intro i h1 h2
    simp only [List.length_map, List.length_range] at h1
    simp only [List.getElem_map, List.getElem_range, List.getElem_reverse, List.length_map, List.length_range]
    congr 1; omega


theorem chunks_delayRow (w : Nat) (cols : List (List α)) (hw : ∀ c ∈ cols, c.length = w)
    (d t : Nat) (hd : d ≤ t) (ht : t < cols.length) :
    (chunks w (d+1) (delayRow cols d t)).reverse = slice cols (t - d) (d+1) := by
  rw [delayRow_eq cols d t hd]
  have hlen : (slice cols (t - d) (d+1)).reverse.length = d + 1 := by simp [slice_length]
  have hws : ∀ b ∈ (slice cols (t - d) (d+1)).reverse, b.length = w := by
    intro b hb
    exact slice_widths w cols hw (t - d) (d+1) (by omega) b (List.mem_reverse.mp hb)
  have := chunks_flatten w _ hws
  rw [hlen] at this
  rw [this, List.reverse_reverse]

theorem drop_delayRow (w : Nat) (cols : List (List α)) (hw : ∀ c ∈ cols, c.length = w)
    (d t : Nat) (hd : d ≤ t) (ht : t < cols.length) :
    (delayRow cols d t).drop (w * d) = cols.getD (t - d) [] := by
  rw [delayRow_eq cols d t hd]
  -- slice (t-d) (d+1) = [cols[t-d]] ++ slice (t-d+1) d ; reversed: (slice (t-d+1) d).reverse ++ [cols[t-d]]
  have hs : slice cols (t - d) (d + 1) = slice cols (t - d) 1 ++ slice cols (t - d + 1) d := by
    rw [slice_append]; congr 1; omega
  have h1 : slice cols (t - d) 1 = [cols.getD (t - d) []] := by simp [slice]
  rw [hs, h1, List.reverse_append, List.flatten_append]
  simp only [List.reverse_cons, List.reverse_nil, List.nil_append, List.flatten_cons, List.flatten_nil,
    List.append_nil]
  have hws : ∀ b ∈ (slice cols (t - d + 1) d).reverse, b.length = w := by
    intro b hb
    exact slice_widths w cols hw (t - d + 1) d (by omega) b (List.mem_reverse.mp hb)
  have := drop_flatten_widths w _ (cols.getD (t - d) []) hws
  simpa [slice_length] using this


theorem lastN_delayCols (d T k : Nat) (cols : List (List α)) (hk : k + T ≤ cols.length) :
    lastN k (delayCols d T cols)
      = (List.range k).map (fun i => delayRow cols d (cols.length - k + i)) := by
  apply List.ext_getElem
  · simp [lastN, delayCols]; omega
  · intro i h1 h2
    simp only [List.length_map, List.length_range] at h2
    simp only [lastN, delayCols, List.getElem_drop, List.getElem_map, List.getElem_range,
      List.length_map, List.length_range]
    congr 1; omega

theorem undelay_lastN_delay (w d T k : Nat) (cols : List (List α)) (hw : ∀ c ∈ cols, c.length = w)
    (hdT : d ≤ T) (hk1 : 1 ≤ k) (hk : k + T ≤ cols.length) :
    undelayCols w d (lastN k (delayCols d T cols)) = lastN (k + d) cols := by
  obtain ⟨k', rfl⟩ : ∃ k', k = k' + 1 := ⟨k - 1, by omega⟩
  rw [lastN_delayCols d T (k'+1) cols hk, List.range_succ, List.map_append]
  simp only [List.map_cons, List.map_nil]
  unfold undelayCols
  rw [List.getLast?_concat]
  simp only [List.dropLast_concat]
  -- the two parts
  have hlast : cols.length - (k'+1) + k' = cols.length - 1 := by omega
  rw [hlast, chunks_delayRow w cols hw d (cols.length - 1) (by omega) (by omega)]
  have hfront : ((List.range k').map (fun i => delayRow cols d (cols.length - (k'+1) + i))).map
        (fun r => r.drop (w * d)) = slice cols (cols.length - (k'+1) - d) k' := by
    rw [List.map_map]
    apply List.ext_getElem
    · simp [slice]
    · intro i h1 h2
      simp only [List.length_map, List.length_range] at h1
      simp only [List.getElem_map, List.getElem_range, Function.comp, slice]
      rw [drop_delayRow w cols hw d _ (by omega) (by omega)]
      congr 1; omega
  rw [hfront]
  have e1 : cols.length - 1 - d = cols.length - (k'+1) - d + k' := by omega
  rw [e1, slice_append]
  have e2 : cols.length - (k'+1) - d = cols.length - (k' + 1 + d) := by omega
  have e3 : k' + (d+1) = k' + 1 + d := by omega
  rw [e2, e3]
  exact slice_eq_lastN cols (k'+1+d) (by omega)

end Pk
