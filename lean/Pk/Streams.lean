/-! How `fit` of `RandomFourierKernelApprox` (and `UniformRandomCenters`) consumes randomness: several
`rvs(random_state = self.random_state)` calls.  With an integer (or `None`) seed every call builds a *fresh*
generator from the seed and therefore reads the stream from position 0; with a `RandomState` instance the calls
consume consecutive segments.  Core Lean only. -/
namespace Pk.Streams

inductive Seed where
  | int           -- an integer seed: every call restarts the stream
  | instance      -- a RandomState instance: calls continue where the last one stopped
deriving Repr, DecidableEq

/-- stream positions read by a sequence of draws of the given sizes -/
def positions : Seed → Nat → List Nat → List (List Nat)
  | _, _, [] => []
  | .int, _, n :: rest => List.range n :: positions .int 0 rest
  | .instance, pos, n :: rest => (List.range n).map (pos + ·) :: positions .instance (pos + n) rest

end Pk.Streams
