import Pk.KindLaws
/-! `fit`: the dimension arithmetic and the error branches of every `fit` in the tree
(`EpisodeIndependentLiftingFn.fit`, `DelayLiftingFn`, `SplitPipeline.fit`,
`KoopmanPipeline.fit_transformers`), `n_samples_in`, and the fitted attributes of every stage.
Core Lean only; executable. -/
namespace Pk

inductive FitErr where
  | valueError      -- ValueError (parameter validation, zero-width input to check_array)
  | runtimeError    -- the two RuntimeErrors of SplitPipeline.fit
  | indexError      -- angle_features out of range
deriving Repr, DecidableEq

abbrev S := Stage Kind
abbrev Ss := Stages Kind

def kindFitErr : Kind → Nat × Nat → Option FitErr
  | .poly order _, _ => if order = 0 then some .valueError else none
  | .angle feat, (nx, nu) => if feat.all (· < nx + nu) then none else some .indexError
  | _, _ => none

mutual
/-- `fit` on input widths `(n_states_in_, n_inputs_in_)`: the output widths or the error raised -/
def Stage.fit : S → Nat × Nat → Except FitErr (Nat × Nat)
  | .rw k, (nx, nu) =>
    match kindFitErr k (nx, nu) with
    | some e => .error e
    | none => if nx + nu = 0 then .error .valueError else .ok (kindW k (nx, nu))
  | .delay dx du, (nx, nu) =>
    if nx + nu = 0 then .error .valueError else .ok (nx * (dx+1), nu * (du+1))
  | .split a b, (nx, nu) =>
    match Stages.fitChain a (nx, 0) with
    | .error e => .error e
    | .ok wa =>
      match Stages.fitChain b (0, nu) with
      | .error e => .error e
      | .ok wb =>
        if wa.2 ≠ 0 then .error .runtimeError
        else if wb.1 ≠ 0 then .error .runtimeError
        else .ok (wa.1, wb.2)
  | .pipe ss, w => Stages.fitChain ss w
def Stages.fitChain : Ss → Nat × Nat → Except FitErr (Nat × Nat)
  | .nil, w => .ok w
  | .cons s rest, w =>
    match Stage.fit s w with
    | .error e => .error e
    | .ok w' => Stages.fitChain rest w'
end

mutual
/-- `n_samples_in(k)` exactly as the code folds it over the stages, last stage first -/
def Stage.nSamplesIn : S → Nat → Nat
  | .rw _, k => k
  | .delay dx du, k => k + max dx du
  | .split a b, k => max (Stages.nSamplesIn a k) (Stages.nSamplesIn b k)
  | .pipe ss, k => Stages.nSamplesIn ss k
def Stages.nSamplesIn : Ss → Nat → Nat
  | .nil, k => k
  | .cons s rest, k => Stage.nSamplesIn s (Stages.nSamplesIn rest k)
end

/-- the fitted attributes of one estimator -/
structure Attrs where
  nxIn : Nat
  nuIn : Nat
  nxOut : Nat
  nuOut : Nat
  minSamples : Nat
deriving Repr, DecidableEq

def Stage.minSamples : S → Nat
  | .rw _ => 1
  | .delay dx du => max dx du + 1
  | s => Stage.nSamplesIn s 1

variable {α : Type}

/-- widths do not depend on the cell type: evaluate them at the trivial ops -/
def unitOps : Ops Unit :=
  { one := (), mul := fun _ _ => (), mono := fun _ => (), cos := id, sin := id, atan2 := fun _ _ => (), sk := fun _ _ _ => (),
    skInv := fun _ _ _ => (), rbf := fun _ _ _ _ => (), kern := fun _ _ _ _ => () }

mutual
/-- attributes of every estimator of the tree in pre-order (each stage, then its sub-stages) -/
def Stage.attrs : S → Nat × Nat → List Attrs
  | .rw k, w => [⟨w.1, w.2, (kindW k w).1, (kindW k w).2, 1⟩]
  | .delay dx du, w => [⟨w.1, w.2, w.1 * (dx+1), w.2 * (du+1), max dx du + 1⟩]
  | .split a b, w =>
    let wa := Stages.outW (rowFn unitOps) a (w.1, 0)
    let wb := Stages.outW (rowFn unitOps) b (0, w.2)
    ⟨w.1, w.2, wa.1, wb.2, Stage.nSamplesIn (.split a b) 1⟩
      :: (Stages.attrs a (w.1, 0) ++ Stages.attrs b (0, w.2))
  | .pipe ss, w =>
    let wo := Stages.outW (rowFn unitOps) ss w
    ⟨w.1, w.2, wo.1, wo.2, Stages.nSamplesIn ss 1⟩ :: Stages.attrs ss w
def Stages.attrs : Ss → Nat × Nat → List Attrs
  | .nil, _ => []
  | .cons s rest, w => Stage.attrs s w ++ Stages.attrs rest (Stage.outW (rowFn unitOps) s w)
end

end Pk
