import Pk.Flow
/-! Token-stream parser and printers for the driver's line protocol. Core Lean only. -/
namespace Pk

abbrev P := StateT (List String) (Except String)

def tok : P String := do
  match (← get) with
  | [] => throw "eof"
  | t :: rest => set rest; pure t

def pNat : P Nat := do
  let t ← tok
  match t.toNat? with
  | some n => pure n
  | none => throw s!"nat expected: {t}"

def pInt : P Int := do
  let t ← tok
  match t.toInt? with
  | some n => pure n
  | none => throw s!"int expected: {t}"

def pBool : P Bool := do
  let n ← pNat
  pure (n != 0)

def pMany {β : Type} (n : Nat) (p : P β) : P (List β) := do
  let mut out : Array β := #[]
  for _ in [0:n] do
    out := out.push (← p)
  pure out.toList

/-- a parsed stage, or the error the constructor arguments make `fit` raise before anything else -/
inductive PStage where
  | ok (s : S)
  | bad          -- negative delay: ValueError from `_validate_parameters`

mutual
partial def pStage : P S := do
  let t ← tok
  match t with
  | "poly" => do let o ← pNat; let io ← pBool; pure (.rw (.poly o io))
  | "bilinear" => pure (.rw .bilinear)
  | "const" => pure (.rw .const)
  | "rbf" => do let id ← pNat; let n ← pNat; pure (.rw (.rbf id n))
  | "kernel" => do let id ← pNat; let n ← pNat; pure (.rw (.kernel id n))
  | "sk" => do let id ← pNat; pure (.rw (.sk id))
  | "angle" => do let k ← pNat; let fs ← pMany k pNat; pure (.rw (.angle fs))
  | "delay" => do let dx ← pNat; let du ← pNat; pure (.delay dx du)
  | "split" => do let a ← pStages; let b ← pStages; pure (.split a b)
  | "pipe" => do let ss ← pStages; pure (.pipe ss)
  | _ => throw s!"stage expected: {t}"
partial def pStages : P Ss := do
  let n ← pNat
  let l ← pMany n pStage
  pure (l.foldr Stages.cons .nil)
end

/-- `R C` then R rows of `label c_1 … c_C` -/
def pMat {β : Type} (cell : P β) : P (FlatMat β) := do
  let r ← pNat
  let c ← pNat
  pMany r (do let l ← pNat; let cs ← pMany c cell; pure (l, cs))

def showMat {β : Type} (sh : β → String) (X : FlatMat β) : String :=
  let w := match X with
    | [] => 0
    | p :: _ => p.2.length
  let rows := X.map fun p => toString p.1 ++ " " ++ " ".intercalate (p.2.map sh)
  s!"{X.length} {w} " ++ " ".intercalate rows

def pRat : P Rat := do
  let t ← tok
  match t.splitOn "/" with
  | [a] => match a.toInt? with
    | some n => pure (n : Rat)
    | none => throw s!"rat expected: {t}"
  | [a, b] => match a.toInt?, b.toNat? with
    | some n, some d => pure ((n : Rat) / (d : Rat))
    | _, _ => throw s!"rat expected: {t}"
  | _ => throw s!"rat expected: {t}"

def showRat (r : Rat) : String := if r.den == 1 then toString r.num else s!"{r.num}/{r.den}"

def runP {β : Type} (p : P β) (toks : List String) : Except String (β × List String) := p.run toks

end Pk
