import Pk.Predict
/-! `score_trajectory`, `_weights_from_data_matrix` and the scorer wiring of
`KoopmanPipeline.make_scorer` over exact rationals, for the error metrics
(`neg_mean_squared_error`, `neg_mean_absolute_error`, `neg_mean_absolute_percentage_error`; the
"greater is better" metrics are in `Pk/ScoreG.lean`).  Core Lean only; executable. -/
namespace Pk

/-- weights of one episode of `n` (already IC-stripped) samples -/
def weightsEp (nSteps : Option Nat) (γ : Rat) (n : Nat) : List Rat :=
  let nz := match nSteps with
    | none => n
    | some s => min s n
  (List.range nz).map (fun k => γ ^ k) ++ List.replicate (n - nz) 0

/-- `_weights_from_data_matrix`: per label in ascending order -/
def weightsOf {ρ : Type} (nSteps : Option Nat) (γ : Rat) (X : Mat ρ) : List Rat :=
  (splitEps X).flatMap fun e => weightsEp nSteps γ e.2.length

inductive Metric where
  | mse
  | mae
  | mape     -- `neg_mean_absolute_percentage_error`: |pred − true| / max(|true|, eps)
deriving Repr, DecidableEq

inductive ErrScore where
  | raise
  | nan
  | val (r : Rat)       -- a finite number
  | negInf
deriving Repr, DecidableEq

inductive ScoreOut where
  | val (r : Rat)
  | nan
  | negInf
  | valueError
deriving Repr, DecidableEq

/-- `np.finfo(np.float64).eps`, the floor scikit-learn puts under `|y_true|` -/
def mapeEps : Rat := 1 / 4503599627370496

/-- error of one cell: `a` predicted, `b` expected -/
def cellErr (m : Metric) (a b : Rat) : Rat :=
  match m with
  | .mse => (a - b) * (a - b)
  | .mae => if a - b < 0 then b - a else a - b
  | .mape =>
    let d := if a - b < 0 then b - a else a - b
    let s := if b < 0 then -b else b
    d / (if s < mapeEps then mapeEps else s)

def rsum (l : List Rat) : Rat := l.foldl (· + ·) 0

/-- weighted error, `multioutput='uniform_average'`:  Σ_r w_r Σ_c err_rc / (Σ_r w_r · ncols) -/
def weightedErr (m : Metric) (w : List Rat) (P E : List (List Rat)) : Rat :=
  let ncols : Nat := match E with
    | [] => 0
    | r :: _ => r.length
  let num := rsum (List.zipWith (fun wr pe => wr * rsum (List.zipWith (cellErr m) pe.1 pe.2)) w (List.zip P E))
  num / (rsum w * (ncols : Rat))

def errOut : ErrScore → ScoreOut
  | .raise => .valueError
  | .nan => .nan
  | .val r => .val r
  | .negInf => .negInf

/-- `score_trajectory` for the error metrics. `finite` says whether both input arrays are finite. -/
def scoreTrajectory (finite : Bool) (metric : Metric) (es : ErrScore) (nSteps : Option Nat) (γ : Rat)
    (minSamples : Nat) (P E : FlatMat Rat) : ScoreOut :=
  if !finite then errOut es
  else if γ < 0 ∨ 1 < γ then .valueError        -- raised by `_weights_from_data_matrix`
  else
    let Es := stripIC minSamples E
    let Ps := stripIC minSamples P
    let w := weightsOf nSteps γ Es
    if Ps.length != Es.length then .valueError
    else if rsum w = 0 then .valueError     -- all weights zero: the metric raises ValueError
    else
      let score := - weightedErr metric w (Ps.map (·.2)) (Es.map (·.2))
      match es with
      | .val e => if score < e then .val e else .val score
      | _ => .val score

section scorer
variable {κ : Type} (env : κ → RowFn Rat) (p : Pipe Rat κ)

/-- the scorer returned by `make_scorer` (error metrics), exactly as wired in the code -/
def scorer (multistep relift : Bool) (metric : Metric) (es : ErrScore) (nSteps : Option Nat) (γ : Rat)
    (X : FlatMat Rat) : ScoreOut :=
  let nu := p.w.2
  let Xun := shiftUn X
  let Xsh := shiftSh (dropInputs nu) X
  if multistep then
    let x0 := extractIC p.m (dropInputs nu) Xun
    let u := extractInput (keepInputs nu) Xun
    match predictTrajectory env p relift false false x0 (some u) with
    | .error _ => .valueError
    | .ok Xp => scoreTrajectory true metric es nSteps γ p.m Xp Xsh
  else
    scoreTrajectory true metric es none 1 p.m (predictFlat env p Xun) Xsh
end scorer

end Pk
