import Pk.Flow
/-! The six `lift* / retract*` helpers of `KoopmanLiftingFn` at the level the API sees: raw matrices
whose first column is the episode label iff the call has an episode feature.  Exactly as written in
`koopman_pipeline.py` (after the `fix:` that resolves `episode_feature=None` to the fit-time value
before slicing).  Core Lean only; executable. -/
namespace Pk
variable {α : Type} {κ : Type}

abbrev Raw (α : Type) := List (List α)

/-- what a cell type must provide so that a label can live in a data column -/
structure Cells (α : Type) where
  zero : α
  lab : α → Nat
  ofLab : Nat → α

variable (cs : Cells α)

/-- `split_episodes` bookkeeping: peel the label column off (label 0 when there is none) -/
def splitRaw (ep : Bool) (X : Raw α) : FlatMat α :=
  X.map fun r =>
    if ep then
      match r with
      | [] => (0, [])
      | c :: t => (cs.lab c, t)
    else (0, r)

def combineRaw (ep : Bool) (X : FlatMat α) : Raw α :=
  X.map fun p => if ep then cs.ofLab p.1 :: p.2 else p.2

variable (env : κ → RowFn α)

/-- the fitted estimator (fit-time flag `fitEp`, input widths `w`) seen through the API -/
structure Fitted (κ : Type) where
  s : Stage κ
  w : Nat × Nat
  fitEp : Bool

def transformRaw (F : Fitted κ) (X : Raw α) : Raw α :=
  combineRaw cs F.fitEp (transformFlat env F.s F.w.1 (splitRaw cs F.fitEp X))

def inverseRaw (F : Fitted κ) (Y : Raw α) : Raw α :=
  combineRaw cs F.fitEp (inverseFlat env F.s F.w (splitRaw cs F.fitEp Y))

/-- the flag logic shared by `lift` and `retract`; `core` is `transform` or `inverse_transform` -/
def viaFlagRaw (F : Fitted κ) (core : Raw α → Raw α) (callEp : Option Bool) (X : Raw α) : Raw α :=
  match callEp with
  | none => core X
  | some c =>
    if c = F.fitEp then core X
    else if F.fitEp then
      -- fitted with an episode feature, called without: pad a zero label column, strip it afterwards
      (core (X.map (cs.zero :: ·))).map List.tail
    else
      -- fitted without, called with: split, transform every episode alone, recombine
      combineRaw cs true
        (combine ((splitEps (splitRaw cs true X)).map fun p => (p.1, core p.2)))

def liftRaw (F : Fitted κ) (callEp : Option Bool) (X : Raw α) : Raw α :=
  viaFlagRaw cs F (transformRaw cs env F) callEp X
def retractRaw (F : Fitted κ) (callEp : Option Bool) (Y : Raw α) : Raw α :=
  viaFlagRaw cs F (inverseRaw cs env F) callEp Y

def epCols (e : Bool) : Nat := if e then 1 else 0

def liftState (F : Fitted κ) (callEp : Option Bool) (X : Raw α) : Raw α :=
  let e := callEp.getD F.fitEp
  let Xpad := X.map (· ++ List.replicate F.w.2 cs.zero)
  (liftRaw cs env F (some e) Xpad).map (List.take ((Stage.outW env F.s F.w).1 + epCols e))

def retractState (F : Fitted κ) (callEp : Option Bool) (Y : Raw α) : Raw α :=
  let e := callEp.getD F.fitEp
  let Ypad := Y.map (· ++ List.replicate (Stage.outW env F.s F.w).2 cs.zero)
  (retractRaw cs env F (some e) Ypad).map (List.take (F.w.1 + epCols e))

def liftInput (F : Fitted κ) (callEp : Option Bool) (X : Raw α) : Raw α :=
  let e := callEp.getD F.fitEp
  let nxo := (Stage.outW env F.s F.w).1
  (liftRaw cs env F (some e) X).map fun r =>
    if e then r.take 1 ++ r.drop (nxo + 1) else r.drop nxo

def retractInput (F : Fitted κ) (callEp : Option Bool) (Y : Raw α) : Raw α :=
  let e := callEp.getD F.fitEp
  let nxo := (Stage.outW env F.s F.w).1
  let Ypad := Y.map fun r =>
    if e then r.take 1 ++ List.replicate nxo cs.zero ++ r.drop 1 else List.replicate nxo cs.zero ++ r
  (retractRaw cs env F (some e) Ypad).map fun r =>
    if e then r.take 1 ++ r.drop (F.w.1 + 1) else r.drop F.w.1

end Pk
