import Pk.Flow
/-! `KoopmanPipeline.predict` and `predict_trajectory` (`koopman_pipeline.py`), per episode over rows-as-pairs
and at matrix level (`_split_state_input_episodes`, both call forms, the four output shapes).
Arithmetic over any type with `+`, `*`, `0`; the NaN "crash" branch of the code is floating-point
behaviour and is not modelled (C20 records what it implies).  Core Lean only; executable. -/
namespace Pk
variable {α : Type} {κ : Type} [Add α] [Mul α] [OfNat α 0]

def dot (a b : List α) : α := (List.zipWith (· * ·) a b).foldl (· + ·) 0

/-- `K v` for a matrix given by its rows -/
def matVec (K : List (List α)) (v : List α) : List α := K.map fun row => dot row v

def zeros (n : Nat) : List α := List.replicate n 0

variable (env : κ → RowFn α)

/-- everything `predict*` reads from a fitted pipeline -/
structure Pipe (α κ : Type) where
  s : Stage κ
  w : Nat × Nat
  /-- Koopman matrix `coef_.T`, one list per row; shape `p_theta × (p_theta + p_upsilon)` -/
  K : List (List α)

variable (p : Pipe α κ)

def Pipe.wOut : Nat × Nat := Stage.outW env p.s p.w
def Pipe.m : Nat := Stage.loss p.s + 1

/-- `lift_state` on one episode of states: pad zero inputs, transform, keep the state block -/
def liftStateEp (X : List (List α)) : List (List α) :=
  (Stage.tr env p.s (X.map fun x => ⟨x, zeros p.w.2⟩)).map (·.x)

/-- `lift_input` on one episode of states and inputs: transform, keep the input block -/
def liftInputEp (X U : List (List α)) : List (List α) :=
  (Stage.tr env p.s (List.zipWith Row.mk X U)).map (·.u)

/-- `retract_state` on one episode of lifted states: pad zero lifted inputs, inverse, keep the state block -/
def retractStateEp (Th : List (List α)) : List (List α) :=
  (Stage.inv env p.s p.w (Th.map fun t => ⟨t, zeros (p.wOut env).2⟩)).map (·.x)

/-- `retract_input` on one episode of lifted inputs: pad zero lifted states, inverse, keep the input block -/
def retractInputEp (Up : List (List α)) : List (List α) :=
  (Stage.inv env p.s p.w (Up.map fun u => ⟨zeros (p.wOut env).1, u⟩)).map (·.u)

/-- one-step prediction for every sample of one episode (`predict`): transform, multiply by the Koopman
matrix, pad zero lifted inputs, inverse, keep the state -/
def predictEp (X : Ep α) : List (List α) :=
  let Xt := Stage.tr env p.s X
  let Th := Xt.map fun r => matVec p.K (r.x ++ r.u)
  retractStateEp env p Th

/-- `sl`-free window helper: rows `[i, i+len)` -/
def window {β : Type} (i len : Nat) (l : List β) : List β := (l.drop i).take len

/-- the re-lifting loop: `X` holds the states known so far (initially the `m` initial conditions); each
step lifts the last `m` states and inputs, advances one step with `K`, retracts and appends the last row -/
def trajRelift (U : List (List α)) : Nat → List (List α) → List (List α)
  | 0, X => X
  | fuel+1, X =>
    let k := X.length
    let m := p.m
    let Xw := window (k - m) m X
    let Uw := window (k - m) m U
    let Th := liftStateEp env p Xw
    let Up := liftInputEp env p Xw Uw
    let Thk := List.zipWith (fun t u => matVec p.K (t ++ u)) Th Up
    let xk := (retractStateEp env p Thk).getLast?.getD []
    trajRelift U fuel (X ++ [xk])

/-- state trajectory of one episode with re-lifting: `n = |U|` rows, the first `m` are `X0` verbatim -/
def trajStatesRelift (X0 U : List (List α)) : List (List α) :=
  trajRelift env p U (U.length - p.m) X0

/-- the loop without re-lifting: carries the lifted state `th`, the known states `X`, and logs (Θ, Υ) -/
def trajNoRelift (U : List (List α)) :
    Nat → Nat → List α → List (List α) → List (List α) → List (List α) →
    List (List α) × List (List α) × List (List α)
  | 0, _, _, X, Ths, Ups => (X, Ths, Ups)
  | fuel+1, k, th, X, Ths, Ups =>
    -- k = 1, 2, …, n_steps
    let m := p.m
    let nSteps := U.length - m + 1
    let Xw := window (k - 1) m X
    let Uw := window (k - 1) m U
    let up := ((liftInputEp env p Xw Uw).head?).getD []
    let Ups' := Ups ++ [up]
    if k < nSteps then
      let th' := matVec p.K (th ++ up)
      let xk := (retractStateEp env p [th']).getLast?.getD []
      trajNoRelift U fuel (k+1) th' (X ++ [xk]) (Ths ++ [th']) Ups'
    else
      trajNoRelift U fuel (k+1) th X Ths Ups'

def trajNoReliftAll (X0 U : List (List α)) : List (List α) × List (List α) × List (List α) :=
  let th0 := ((liftStateEp env p X0).head?).getD []
  trajNoRelift env p U (U.length - p.m + 1) 1 th0 X0 [th0] []

/-- one episode of `predict_trajectory` output, for the four `return_lifted × return_input` shapes -/
def trajEp (relift returnLifted returnInput : Bool) (X0 U : List (List α)) : List (List α) :=
  let (X, Th, Up) :=
    if relift then
      let X := trajStatesRelift env p X0 U
      (X, liftStateEp env p X, liftInputEp env p X U)
    else trajNoReliftAll env p X0 U
  if returnLifted then
    if returnInput then List.zipWith (· ++ ·) Th Up else Th
  else if returnInput then List.zipWith (· ++ ·) X U else X

inductive TrajErr where
  | valueError
deriving Repr, DecidableEq

/-- `_split_state_input_episodes` + the loop over episodes + `combine_episodes`.
`X0orX` and `U` are flat matrices (label, cells); `U = none` is the single-matrix call form.
Width checks are done by the caller of the model (the driver) on the raw shapes. -/
def predictTrajectory (relift returnLifted returnInput : Bool)
    (X0orX : FlatMat α) (U : Option (FlatMat α)) : Except TrajErr (FlatMat α) :=
  let nx := p.w.1
  let m := p.m
  let eps : List (Nat × List (List α) × List (List α)) :=
    match U with
    | none => (splitEps X0orX).map fun e => (e.1, (e.2.take m).map (·.take nx), e.2.map (·.drop nx))
    | some U => List.zipWith (fun ex eu => (ex.1, ex.2, eu.2)) (splitEps X0orX) (splitEps U)
  if eps.any (fun e => e.2.1.length != m || e.2.2.length < m) then .error .valueError
  else .ok (combine (eps.map fun e => (e.1, trajEp env p relift returnLifted returnInput e.2.1 e.2.2)))

/-- `predict` at matrix level: per label, `predictEp`; rows regrouped as `inverse_transform` does -/
def predictFlat (X : FlatMat α) : FlatMat α :=
  let Xt := Stage.mt env p.s (toPairs p.w.1 X)
  -- `regressor_.predict` splits by label and recombines (ascending labels), also for row-wise pipelines
  let Pred : M α := perEpisode (fun e => e.map fun r => ⟨matVec p.K (r.x ++ r.u), zeros (p.wOut env).2⟩) Xt
  (Stage.mi env p.s p.w Pred).map fun q => (q.1, q.2.x)

end Pk
