import Pk.MatFlow
import Pk.Fit
/-! Matrix-level model of the public API around the stage tree, exactly as the code routes rows:
`inverse_transform`, the flat ↔ pair conversion at the API boundary, the episode utilities
(`shift_episodes`, `extract_initial_conditions`, `extract_input`, `strip_initial_conditions`),
and the six `lift*/retract*` helpers with their `episode_feature` argument.  Core Lean only. -/
namespace Pk
variable {α : Type} {κ : Type}

variable (env : κ → RowFn α)

mutual
/-- `inverse_transform` at matrix level, given the fit-time input widths -/
def Stage.mi : Stage κ → Nat × Nat → M α → M α
  | .rw k, w, Y => mapRows ((env k).g w) Y
  | .delay dx du, (wx, wu), Y => perEpisode (undelayEp wx wu dx du) Y
  | .split a b, (wx, wu), Y =>
      let Ts := Stages.mi a (wx, 0) (perEpisode onlyX Y)
      let Tu := Stages.mi b (0, wu) (perEpisode onlyU Y)
      combine (List.zipWith (fun ps pu => (ps.1, zipXU ps.2 pu.2)) (splitEps Ts) (splitEps Tu))
  | .pipe ss, w, Y => Stages.mi ss w Y
def Stages.mi : Stages κ → Nat × Nat → M α → M α
  | .nil, _, Y => Y
  | .cons s rest, w, Y => Stage.mi s w (Stages.mi rest (Stage.outW env s w) Y)
end

/-! ### flat matrices (what the API sees): label + flat row -/

abbrev FlatMat (α : Type) := Mat (List α)

def toPairs (nx : Nat) (X : FlatMat α) : M α := X.map fun p => (p.1, ⟨p.2.take nx, p.2.drop nx⟩)
def toFlat (X : M α) : FlatMat α := X.map fun p => (p.1, p.2.x ++ p.2.u)

/-- `transform` on a flat matrix fitted with `(nx, nu)` -/
def transformFlat (s : Stage κ) (nx : Nat) (X : FlatMat α) : FlatMat α :=
  toFlat (Stage.mt env s (toPairs nx X))

/-- `inverse_transform` on a flat lifted matrix -/
def inverseFlat (s : Stage κ) (w : Nat × Nat) (Y : FlatMat α) : FlatMat α :=
  toFlat (Stage.mi env s w (toPairs (Stage.outW env s w).1 Y))

/-! ### episode utilities -/
section utils
variable {ρ : Type}

/-- `shift_episodes`: per episode, all but the last row / all but the first row -/
def shiftUn (X : Mat ρ) : Mat ρ := perEpisode List.dropLast X
def shiftSh (f : ρ → ρ) (X : Mat ρ) : Mat ρ := perEpisode (fun e => e.tail.map f) X
/-- `strip_initial_conditions` -/
def stripIC (m : Nat) (X : Mat ρ) : Mat ρ := perEpisode (List.drop m) X
/-- `extract_initial_conditions` (rows), the column cut is `f` -/
def extractIC (m : Nat) (f : ρ → ρ) (X : Mat ρ) : Mat ρ := perEpisode (fun e => (e.take m).map f) X
def extractInput (f : ρ → ρ) (X : Mat ρ) : Mat ρ := perEpisode (List.map f) X
end utils

/-- drop the trailing `nu` columns (`X_i[:, :-n_inputs]`, guarded by `n_inputs == 0` in the code) -/
def dropInputs (nu : Nat) (r : List α) : List α := r.take (r.length - nu)
/-- keep the trailing `nu` columns (`X_i[:, n_states:]` with `n_states = width - n_inputs`) -/
def keepInputs (nu : Nat) (r : List α) : List α := r.drop (r.length - nu)

/-! ### lift / retract helpers

`fitEp` is `episode_feature_`; `callEp : Option Bool` is the argument. With the episode feature absent
every label of the model matrix is 0 (that is how `split_episodes` treats it).  When the estimator
was fitted with an episode feature and is called without, the code pads a zero label column; when
fitted without and called with, it splits, transforms each episode alone and recombines. -/

/-- route a call through the flag logic of `lift` / `retract`; `core` is transform or inverse on a flat
matrix as the fitted estimator sees it. -/
def viaFlag (fitEp : Bool) (callEp : Option Bool) (core : FlatMat α → FlatMat α) (X : FlatMat α) : FlatMat α :=
  match callEp with
  | none => core X
  | some c =>
    if c = fitEp then core X
    else if fitEp then core X     -- padded with a zero label column: all labels 0 already, stripped after
    else combine ((splitEps X).map fun p => (p.1, (core (p.2.map fun r => (0, r))).map (·.2)))

def lift (s : Stage κ) (nx : Nat) (fitEp : Bool) (callEp : Option Bool) (X : FlatMat α) : FlatMat α :=
  viaFlag fitEp callEp (transformFlat env s nx) X
def retract (s : Stage κ) (w : Nat × Nat) (fitEp : Bool) (callEp : Option Bool) (X : FlatMat α) : FlatMat α :=
  viaFlag fitEp callEp (inverseFlat env s w) X

end Pk
