/-! Estimator history machine: constructor parameters (a deep, flattened `name__sub` ↦ value map),
optional fitted state, and the process-global `polite_stop` flag of `lmi_regressors.py`.
`fit` stores a function of (parameters, data, flag) only; every other call leaves the fitted state alone;
only `set_params` changes parameters.  Core Lean only; executable. -/
namespace Pk.Est

abbrev Params := List (String × Int)

def setParam (k : String) (v : Int) : Params → Params
  | [] => []                                  -- unknown key: sklearn raises; the machine ignores it
  | (k', v') :: rest => if k' = k then (k', v) :: rest else (k', v') :: setParam k v rest

def getParam (k : String) (p : Params) : Option Int := (p.find? (·.1 = k)).map (·.2)

inductive Op (D : Type) where
  | fit (d : D)
  | read (x : D)          -- transform / inverse_transform / predict / score / get_feature_names_out
  | setParam (k : String) (v : Int)
  | getParams
  | clone
  | stop                  -- polite stop request (SIGINT handler)
deriving Repr

structure World (F : Type) where
  params : Params
  fitted : Option F
  stopFlag : Bool

variable {D F R : Type} (Fit : Params → D → Bool → F) (Read : F → D → R)

def step (w : World F) : Op D → World F × Option R
  | .fit d => ({ w with fitted := some (Fit w.params d w.stopFlag) }, none)
  | .read x => (w, w.fitted.map fun f => Read f x)
  | .setParam k v => ({ w with params := setParam k v w.params }, none)
  | .getParams => (w, none)
  | .clone => (w, none)
  | .stop => ({ w with stopFlag := true }, none)

def run (w : World F) : List (Op D) → World F
  | [] => w
  | op :: rest => run (step Fit Read w op).1 rest

def paramsAfter : Params → List (Op D) → Params
  | p, [] => p
  | p, .setParam k v :: rest => paramsAfter (setParam k v p) rest
  | p, _ :: rest => paramsAfter p rest

def hasStop : List (Op D) → Bool
  | [] => false
  | .stop :: _ => true
  | _ :: rest => hasStop rest

end Pk.Est
