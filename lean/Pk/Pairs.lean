import Pk.Flow
/-! Training pairs of `KoopmanRegressor.fit`: the rows of `shift_episodes`' two outputs, zipped.
Core Lean only. -/
namespace Pk
variable {ρ : Type}

/-- the (unshifted row, shifted row) pairs the regressor is handed: row `i` of `X_unshifted` with row `i`
of `X_shifted` (episode column already stripped) -/
def trainPairs (f : ρ → ρ) (X : Mat ρ) : List (ρ × ρ) :=
  List.zip ((shiftUn X).map (·.2)) ((shiftSh f X).map (·.2))

/-- the within-episode consecutive pairs of one episode -/
def epPairs (f : ρ → ρ) (e : List ρ) : List (ρ × ρ) := List.zip e.dropLast (e.tail.map f)

theorem perEpisode_eq (g : List ρ → List ρ) (X : Mat ρ) :
    perEpisode g X = (labels X).flatMap fun l => (g (episodeOf l X)).map fun r => (l, r) := by
  simp [perEpisode, combine, splitEps, List.flatMap_map]

theorem zip_flatMap_blocks {β γ ι : Type} (L : List ι) (A : ι → List β) (B : ι → List γ)
    (h : ∀ i ∈ L, (A i).length = (B i).length) :
    List.zip (L.flatMap A) (L.flatMap B) = L.flatMap fun i => List.zip (A i) (B i) := by
  induction L with
  | nil => simp
  | cons a t ih =>
    simp only [List.flatMap_cons]
    rw [List.zip_append (h a (by simp)), ih (fun i hi => h i (by simp [hi]))]

theorem flatMap_congr_mem {β ι : Type} (L : List ι) (A B : ι → List β) (h : ∀ i ∈ L, A i = B i) :
    L.flatMap A = L.flatMap B := by
  induction L with
  | nil => rfl
  | cons a t ih => simp only [List.flatMap_cons, h a (by simp), ih (fun i hi => h i (by simp [hi]))]

theorem trainPairs_eq (f : ρ → ρ) (X : Mat ρ) :
    trainPairs f X = (labels X).flatMap fun l => epPairs f (episodeOf l X) := by
  unfold trainPairs shiftUn shiftSh
  rw [perEpisode_eq, perEpisode_eq, List.map_flatMap, List.map_flatMap]
  simp only [List.map_map, Function.comp_def, List.map_id']
  rw [zip_flatMap_blocks]
  · rfl
  · intro l _; simp

end Pk
