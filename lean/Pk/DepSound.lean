import Pk.Denote
import Pk.Inst
/-! Soundness of the dependency-set instance `depOps`.

The harness runs the model at the dependency-set domain (every input cell carries a set of marks, every
operation is a union) and compares the resulting sets with what perturbing the real implementation's inputs
changes.  This file proves that the sets mean what that comparison assumes: a lifted cell whose dependency set
does not contain mark `j` has the same VALUE on any two episodes that differ only in cells marked `j` — for
every tree, every value domain, every row and column.  Core Lean only. -/
namespace Pk

theorem mem_unionAsc (a b : List Nat) (x : Nat) : x ∈ unionAsc a b ↔ x ∈ a ∨ x ∈ b := by
  fun_induction unionAsc a b with
  | case1 b => simp
  | case2 a h => simp
  | case3 x' a y b hlt ih => simp only [List.mem_cons, ih]; grind
  | case4 x' a y b h1 hlt ih => simp only [List.mem_cons, ih]; grind
  | case5 x' a y b h1 h2 ih =>
    have : x' = y := by omega
    subst this
    simp only [List.mem_cons, ih]; grind

theorem mem_foldl_unionAsc (L : List (List Nat)) (acc : List Nat) (x : Nat) :
    x ∈ L.foldl unionAsc acc ↔ x ∈ acc ∨ ∃ d ∈ L, x ∈ d := by
  induction L generalizing acc with
  | nil => simp
  | cons d t ih =>
    simp only [List.foldl_cons, ih, mem_unionAsc, List.mem_cons]
    constructor
    · rintro ((h | h) | ⟨e, he, hx⟩)
      · exact Or.inl h
      · exact Or.inr ⟨d, Or.inl rfl, h⟩
      · exact Or.inr ⟨e, Or.inr he, hx⟩
    · rintro (h | ⟨e, he | he, hx⟩)
      · exact Or.inl (Or.inl h)
      · subst he; exact Or.inl (Or.inr hx)
      · exact Or.inr ⟨e, he, hx⟩

theorem mem_unions (L : List (List Nat)) (x : Nat) : x ∈ unions L ↔ ∃ d ∈ L, x ∈ d := by
  simp [unions, mem_foldl_unionAsc]

section sound
variable {α : Type} (ops : Ops α) (X X' : Ep α) (M : Ep (List Nat)) (j : Nat)

/-- `X` and `X'` agree on every original cell whose mark set does not contain `j` -/
def AgreeOff : Prop :=
  (∀ i τ, j ∉ Term.eval depOps M (.vx i) τ → Term.eval ops X (.vx i) τ = Term.eval ops X' (.vx i) τ)
  ∧ (∀ i τ, j ∉ Term.eval depOps M (.vu i) τ → Term.eval ops X (.vu i) τ = Term.eval ops X' (.vu i) τ)

mutual
/-- a term whose dependency set misses `j` has the same value on both episodes -/
theorem Term.eval_agree (h : AgreeOff ops X X' M j) :
    ∀ (t : Term) (τ : Nat), j ∉ Term.eval depOps M t τ → Term.eval ops X t τ = Term.eval ops X' t τ
  | .vx i, τ, hj => h.1 i τ hj
  | .vu i, τ, hj => h.2 i τ hj
  | .D k t, τ, hj => by
    simp only [Term.eval] at hj ⊢
    exact Term.eval_agree h t (τ - k) hj
  | .one, _, _ => by simp [Term.eval]
  | .mul a b, τ, hj => by
    simp only [Term.eval, depOps, mem_unionAsc, not_or] at hj ⊢
    rw [Term.eval_agree h a τ hj.1, Term.eval_agree h b τ hj.2]
  | .mono l, τ, hj => by
    simp only [Term.eval] at hj ⊢
    rw [Term.evalPairs_agree h l τ (by simpa [depOps] using hj)]
  | .cos a, τ, hj => by
    simp only [Term.eval, depOps, id] at hj ⊢
    rw [Term.eval_agree h a τ hj]
  | .sin a, τ, hj => by
    simp only [Term.eval, depOps, id] at hj ⊢
    rw [Term.eval_agree h a τ hj]
  | .sk id' c a, τ, hj => by
    simp only [Term.eval, depOps] at hj ⊢
    rw [Term.eval_agree h a τ hj]
  | .rbf id' c xs us, τ, hj => by
    simp only [Term.eval, depOps, mem_unions, List.mem_append, not_exists, not_and] at hj ⊢
    rw [Term.evalList_agree h xs τ (fun d hd => hj d (Or.inl hd)),
        Term.evalList_agree h us τ (fun d hd => hj d (Or.inr hd))]
  | .kern id' c xs us, τ, hj => by
    simp only [Term.eval, depOps, mem_unions, List.mem_append, not_exists, not_and] at hj ⊢
    rw [Term.evalList_agree h xs τ (fun d hd => hj d (Or.inl hd)),
        Term.evalList_agree h us τ (fun d hd => hj d (Or.inr hd))]
theorem Term.evalList_agree (h : AgreeOff ops X X' M j) :
    ∀ (l : List Term) (τ : Nat), (∀ d ∈ Term.evalList depOps M l τ, j ∉ d) →
      Term.evalList ops X l τ = Term.evalList ops X' l τ
  | [], _, _ => rfl
  | a :: r, τ, hj => by
    simp only [Term.evalList, List.mem_cons, forall_eq_or_imp] at hj ⊢
    rw [Term.eval_agree h a τ hj.1, Term.evalList_agree h r τ hj.2]
theorem Term.evalPairs_agree (h : AgreeOff ops X X' M j) :
    ∀ (l : List (Term × Nat)) (τ : Nat), j ∉ unions ((Term.evalPairs depOps M l τ).map (·.1)) →
      Term.evalPairs ops X l τ = Term.evalPairs ops X' l τ
  | [], _, _ => rfl
  | (a, p) :: r, τ, hj => by
    simp only [Term.evalPairs, List.map_cons, mem_unions, List.mem_cons, not_exists, not_and] at hj ⊢
    have h1 : j ∉ Term.eval depOps M a τ := hj _ (Or.inl rfl)
    have h2 : j ∉ unions ((Term.evalPairs depOps M r τ).map (·.1)) := by
      rw [mem_unions]; rintro ⟨d, hd, hx⟩; exact hj d (Or.inr hd) hx
    rw [Term.eval_agree h a τ h1, Term.evalPairs_agree h r τ h2]
end

end sound

section tree
variable {α : Type} (ops : Ops α) (ok : α → Prop) (okD : List Nat → Prop)

theorem cells_agree (X X' : Ep α) (M : Ep (List Nat)) (j : Nat) (h : AgreeOff ops X X' M j) (ts : List Term)
    (τ c : Nat) (hj : j ∉ (ts.map fun t => Term.eval depOps M t τ).getD c []) :
    (ts.map fun t => Term.eval ops X t τ)[c]? = (ts.map fun t => Term.eval ops X' t τ)[c]? := by
  simp only [List.getElem?_map, List.getD_eq_getElem?_getD] at hj ⊢
  cases hc : ts[c]? with
  | none => simp
  | some t =>
    simp only [hc, Option.map_some, Option.getD_some] at hj ⊢
    rw [Term.eval_agree ops X X' M j h t τ hj]

/-- **soundness of the dependency instance, for every tree.**  Run the tree on the marks `M`, on `X` and on `X'`
(same shape; `X`, `X'` differ only in cells whose mark set contains `j`).  Then in every lifted row, every cell
whose dependency set does not contain `j` has the same value for `X` and `X'`. -/
theorem Stage.dep_sound (s : S) (nx nu : Nat) (X X' : Ep α) (M : Ep (List Nat)) (j : Nat)
    (hX : Typed nx nu X) (hX' : Typed nx nu X') (hM : Typed nx nu M)
    (hl : X.length = M.length) (hl' : X'.length = M.length)
    (h : AgreeOff ops X X' M j) (r : Nat) (hr : r < M.length - Stage.loss s) :
    ∃ d v v', (Stage.tr (rowFn depOps okD) s M)[r]? = some d
      ∧ (Stage.tr (rowFn ops ok) s X)[r]? = some v ∧ (Stage.tr (rowFn ops ok) s X')[r]? = some v'
      ∧ (∀ c, j ∉ d.x.getD c [] → v.x[c]? = v'.x[c]?) ∧ (∀ c, j ∉ d.u.getD c [] → v.u[c]? = v'.u[c]?) := by
  have hd := Stage.tr_eq_eval depOps okD M s nx nu hM r (by rw [Stage.length_tr]; exact hr)
  have hv := Stage.tr_eq_eval ops ok X s nx nu hX r (by rw [Stage.length_tr, hl]; exact hr)
  have hv' := Stage.tr_eq_eval ops ok X' s nx nu hX' r (by rw [Stage.length_tr, hl']; exact hr)
  refine ⟨_, _, _, hd, hv, hv', ?_, ?_⟩
  · intro c hc
    exact cells_agree ops X X' M j h _ _ c hc
  · intro c hc
    exact cells_agree ops X X' M j h _ _ c hc

end tree

/-! ### row marks: provenance -/

/-- every cell of row `r` marked `[r]` -/
def rowMarks (nx nu n : Nat) : Ep (List Nat) :=
  (List.range n).map fun r => ⟨List.replicate nx [r], List.replicate nu [r]⟩

theorem typed_rowMarks (nx nu n : Nat) : Typed nx nu (rowMarks nx nu n) := by
  intro r hr
  simp only [rowMarks, List.mem_map] at hr
  obtain ⟨k, _, rfl⟩ := hr
  simp

theorem getD_getD_eq_of_getElem? {α : Type} (A B : List (List α)) (τ i : Nat) (d : α) (h : A[τ]? = B[τ]?) :
    (A.getD τ []).getD i d = (B.getD τ []).getD i d := by
  simp [List.getD_eq_getElem?_getD, h]

/-- two typed episodes of the same length that differ at most in row `j` agree off the row marks of `j` -/
theorem agreeOff_rowMarks {α : Type} (ops : Ops α) (nx nu : Nat) (X X' : Ep α) (j : Nat)
    (hX : Typed nx nu X) (hX' : Typed nx nu X') (hl : X'.length = X.length)
    (h : ∀ τ, τ ≠ j → X[τ]? = X'[τ]?) : AgreeOff ops X X' (rowMarks nx nu X.length) j := by
  constructor
  · intro i τ hj
    simp only [Term.eval] at hj ⊢
    by_cases hτ : τ = j
    · subst hτ
      by_cases hr : τ < X.length
      · have hx1 : (X.map (·.x)).getD τ [] = X[τ].x := by
          simp [List.getD_eq_getElem?_getD, List.getElem?_eq_getElem hr]
        have hx2 : (X'.map (·.x)).getD τ [] = X'[τ].x := by
          simp [List.getD_eq_getElem?_getD, List.getElem?_eq_getElem (hl ▸ hr)]
        have hw1 := (hX X[τ] (List.getElem_mem hr)).1
        have hw2 := (hX' X'[τ] (List.getElem_mem (hl ▸ hr))).1
        by_cases hi : i < nx
        · exfalso; apply hj
          simp [rowMarks, List.getD_eq_getElem?_getD, List.getElem?_eq_getElem, hr, hi, depOps]
        · rw [hx1, hx2, List.getD_eq_getElem?_getD, List.getD_eq_getElem?_getD,
            List.getElem?_eq_none (by omega), List.getElem?_eq_none (by omega)]
      · have e1 : (X.map (·.x)).getD τ [] = [] := by
          simp [List.getD_eq_getElem?_getD, List.getElem?_eq_none (Nat.le_of_not_lt hr)]
        have e2 : (X'.map (·.x)).getD τ [] = [] := by
          simp [List.getD_eq_getElem?_getD, List.getElem?_eq_none (hl ▸ Nat.le_of_not_lt hr)]
        rw [e1, e2]
    · exact getD_getD_eq_of_getElem? _ _ τ i _ (by simp [List.getElem?_map, h τ hτ])
  · intro i τ hj
    simp only [Term.eval] at hj ⊢
    by_cases hτ : τ = j
    · subst hτ
      by_cases hr : τ < X.length
      · have hx1 : (X.map (·.u)).getD τ [] = X[τ].u := by
          simp [List.getD_eq_getElem?_getD, List.getElem?_eq_getElem hr]
        have hx2 : (X'.map (·.u)).getD τ [] = X'[τ].u := by
          simp [List.getD_eq_getElem?_getD, List.getElem?_eq_getElem (hl ▸ hr)]
        have hw1 := (hX X[τ] (List.getElem_mem hr)).2
        have hw2 := (hX' X'[τ] (List.getElem_mem (hl ▸ hr))).2
        by_cases hi : i < nu
        · exfalso; apply hj
          simp [rowMarks, List.getD_eq_getElem?_getD, List.getElem?_eq_getElem, hr, hi, depOps]
        · rw [hx1, hx2, List.getD_eq_getElem?_getD, List.getD_eq_getElem?_getD,
            List.getElem?_eq_none (by omega), List.getElem?_eq_none (by omega)]
      · have e1 : (X.map (·.u)).getD τ [] = [] := by
          simp [List.getD_eq_getElem?_getD, List.getElem?_eq_none (Nat.le_of_not_lt hr)]
        have e2 : (X'.map (·.u)).getD τ [] = [] := by
          simp [List.getD_eq_getElem?_getD, List.getElem?_eq_none (hl ▸ Nat.le_of_not_lt hr)]
        rw [e1, e2]
    · exact getD_getD_eq_of_getElem? _ _ τ i _ (by simp [List.getElem?_map, h τ hτ])

end Pk
