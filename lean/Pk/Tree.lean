import Pk.Cols
/-! The lifting-function tree at episode level: transform / inverse, widths, sample loss and gain,
and the suffix-stable round trip (C01/C04 backbone). Core Lean only. -/
namespace Pk
variable {α : Type}

structure Row (α : Type) where
  x : List α
  u : List α
deriving Repr, DecidableEq

abbrev Ep (α : Type) := List (Row α)

/-- abstract episode-independent stage: row map, its left inverse, output widths -/
structure RowFn (α : Type) where
  f : Row α → Row α
  /-- inverse, given the input widths `(n_states_in_, n_inputs_in_)` the stage was fitted with -/
  g : Nat × Nat → Row α → Row α
  wx : Nat → Nat → Nat
  wu : Nat → Nat → Nat
  /-- rows on which `g` inverts `f` (e.g. angles inside `(-π, π]` for `AnglePreprocessor`) -/
  dom : Row α → Prop := fun _ => True

mutual
/-- a lifting-function tree: `rw k` is an episode-independent (row-wise) stage of kind `k`,
`delay` is `DelayLiftingFn`, `split` is `SplitPipeline`, `pipe` is a (nested) `KoopmanPipeline` chain -/
inductive Stage (κ : Type) where
  | rw (k : κ) : Stage κ
  | delay (dx du : Nat) : Stage κ
  | split (a b : Stages κ) : Stage κ
  | pipe (ss : Stages κ) : Stage κ
inductive Stages (κ : Type) where
  | nil : Stages κ
  | cons (s : Stage κ) (rest : Stages κ) : Stages κ
end

variable {κ : Type}

def Typed (wx wu : Nat) (X : Ep α) : Prop := ∀ r ∈ X, r.x.length = wx ∧ r.u.length = wu

def onlyX (X : Ep α) : Ep α := X.map fun r => ⟨r.x, []⟩
def onlyU (X : Ep α) : Ep α := X.map fun r => ⟨[], r.u⟩
def zipXU (A B : Ep α) : Ep α :=
  let n := min A.length B.length
  List.zipWith (fun a b => ⟨a.x, b.u⟩) (lastN n A) (lastN n B)

def delayEp (dx du : Nat) (X : Ep α) : Ep α :=
  let T := max dx du
  List.zipWith Row.mk (delayCols dx T (X.map (·.x))) (delayCols du T (X.map (·.u)))

def undelayEp (wx wu dx du : Nat) (Y : Ep α) : Ep α :=
  let xs := undelayCols wx dx (Y.map (·.x))
  let us := undelayCols wu du (Y.map (·.u))
  let n := min xs.length us.length
  List.zipWith Row.mk (lastN n xs) (lastN n us)

variable (env : κ → RowFn α)

mutual
def Stage.outW : Stage κ → Nat × Nat → Nat × Nat
  | .rw k, (wx, wu) => ((env k).wx wx wu, (env k).wu wx wu)
  | .delay dx du, (wx, wu) => (wx * (dx+1), wu * (du+1))
  | .split a b, (wx, wu) => ((Stages.outW a (wx, 0)).1, (Stages.outW b (0, wu)).2)
  | .pipe ss, w => Stages.outW ss w
def Stages.outW : Stages κ → Nat × Nat → Nat × Nat
  | .nil, w => w
  | .cons s rest, w => Stages.outW rest (Stage.outW s w)
end

mutual
def Stage.loss : Stage κ → Nat
  | .rw _ => 0
  | .delay dx du => max dx du
  | .split a b => max (Stages.loss a) (Stages.loss b)
  | .pipe ss => Stages.loss ss
def Stages.loss : Stages κ → Nat
  | .nil => 0
  | .cons s rest => Stage.loss s + Stages.loss rest
end

mutual
def Stage.gain : Stage κ → Nat
  | .rw _ => 0
  | .delay dx du => min dx du
  | .split a b => min (Stages.gain a) (Stages.gain b)
  | .pipe ss => Stages.gain ss
def Stages.gain : Stages κ → Nat
  | .nil => 0
  | .cons s rest => Stage.gain s + Stages.gain rest
end

mutual
def Stage.tr : Stage κ → Ep α → Ep α
  | .rw k, X => X.map (env k).f
  | .delay dx du, X => delayEp dx du X
  | .split a b, X => zipXU (Stages.tr a (onlyX X)) (Stages.tr b (onlyU X))
  | .pipe ss, X => Stages.tr ss X
def Stages.tr : Stages κ → Ep α → Ep α
  | .nil, X => X
  | .cons s rest, X => Stages.tr rest (Stage.tr s X)
end

mutual
/-- inverse, given the widths the stage was fitted with -/
def Stage.inv : Stage κ → Nat × Nat → Ep α → Ep α
  | .rw k, w, Y => Y.map ((env k).g w)
  | .delay dx du, (wx, wu), Y => undelayEp wx wu dx du Y
  | .split a b, (wx, wu), Y => zipXU (Stages.inv a (wx, 0) (onlyX Y)) (Stages.inv b (0, wu) (onlyU Y))
  | .pipe ss, w, Y => Stages.inv ss w Y
def Stages.inv : Stages κ → Nat × Nat → Ep α → Ep α
  | .nil, _, Y => Y
  | .cons s rest, w, Y => Stage.inv s w (Stages.inv rest (Stage.outW env s w) Y)
end


mutual
/-- every row that reaches a row-wise stage lies in that stage's invertibility domain -/
def Stage.dom : Stage κ → Ep α → Prop
  | .rw k, X => ∀ r ∈ X, (env k).dom r
  | .delay _ _, _ => True
  | .split a b, X => Stages.dom a (onlyX X) ∧ Stages.dom b (onlyU X)
  | .pipe ss, X => Stages.dom ss X
def Stages.dom : Stages κ → Ep α → Prop
  | .nil, _ => True
  | .cons s rest, X => Stage.dom s X ∧ Stages.dom rest (Stage.tr env s X)
end

/-! ### list lemmas -/
section lists
variable {β γ δ : Type}

theorem lastN_length (k : Nat) (l : List β) : (lastN k l).length = min k l.length := by
  simp [lastN]; omega

theorem lastN_all (k : Nat) (l : List β) (h : l.length ≤ k) : lastN k l = l := by
  simp [lastN, Nat.sub_eq_zero_of_le h]

theorem lastN_lastN (j k : Nat) (l : List β) (h : j ≤ k) : lastN j (lastN k l) = lastN j l := by
  simp only [lastN, List.length_drop, List.drop_drop]
  congr 1; omega

theorem lastN_map (k : Nat) (l : List β) (f : β → γ) : lastN k (l.map f) = (lastN k l).map f := by
  simp [lastN, List.map_drop]

theorem lastN_zipWith (k : Nat) (f : β → γ → δ) (A : List β) (B : List γ) (h : A.length = B.length) :
    lastN k (List.zipWith f A B) = List.zipWith f (lastN k A) (lastN k B) := by
  simp [lastN, List.drop_zipWith, h]

theorem zipWith_map_self (X : List β) (p : β → γ) (q : β → δ) (mk : γ → δ → β)
    (h : ∀ r, mk (p r) (q r) = r) : List.zipWith mk (X.map p) (X.map q) = X := by
  induction X with
  | nil => rfl
  | cons a t ih => simp [h, ih]

theorem map_fst_zipWith (mk : γ → δ → β) (p : β → γ) (hp : ∀ a b, p (mk a b) = a)
    (A : List γ) (B : List δ) (h : A.length = B.length) : (List.zipWith mk A B).map p = A := by
  induction A generalizing B with
  | nil => simp
  | cons a t ih =>
    cases B with
    | nil => simp at h
    | cons b t' => simp at h; simp [hp, ih t' h]

theorem map_snd_zipWith (mk : γ → δ → β) (q : β → δ) (hq : ∀ a b, q (mk a b) = b)
    (A : List γ) (B : List δ) (h : A.length = B.length) : (List.zipWith mk A B).map q = B := by
  induction A generalizing B with
  | nil => cases B with
    | nil => simp
    | cons b t' => simp at h
  | cons a t ih =>
    cases B with
    | nil => simp at h
    | cons b t' => simp at h; simp [hq, ih t' h]
end lists


theorem delayCols_length (d T : Nat) (cols : List (List α)) : (delayCols d T cols).length = cols.length - T := by
  simp [delayCols]

theorem delayEp_length (dx du : Nat) (X : Ep α) : (delayEp dx du X).length = X.length - max dx du := by
  simp [delayEp, delayCols_length]

theorem undelayEp_lastN_delayEp (wx wu dx du k : Nat) (X : Ep α) (hX : Typed wx wu X)
    (hk1 : 1 ≤ k) (hk : k + max dx du ≤ X.length) :
    undelayEp wx wu dx du (lastN k (delayEp dx du X)) = lastN (k + min dx du) X := by
  have hwx : ∀ c ∈ X.map (·.x), c.length = wx := by
    intro c hc; simp only [List.mem_map] at hc; obtain ⟨r, hr, rfl⟩ := hc; exact (hX r hr).1
  have hwu : ∀ c ∈ X.map (·.u), c.length = wu := by
    intro c hc; simp only [List.mem_map] at hc; obtain ⟨r, hr, rfl⟩ := hc; exact (hX r hr).2
  have hlen : (delayCols dx (max dx du) (X.map (·.x))).length = (delayCols du (max dx du) (X.map (·.u))).length := by
    simp [delayCols_length]
  unfold undelayEp delayEp
  simp only []
  rw [lastN_zipWith k Row.mk _ _ hlen]
  have hl2 : (lastN k (delayCols dx (max dx du) (X.map (·.x)))).length
      = (lastN k (delayCols du (max dx du) (X.map (·.u)))).length := by
    simp [lastN_length, delayCols_length]
  rw [map_fst_zipWith Row.mk (·.x) (fun _ _ => rfl) _ _ hl2,
      map_snd_zipWith Row.mk (·.u) (fun _ _ => rfl) _ _ hl2]
  rw [undelay_lastN_delay wx dx (max dx du) k _ hwx (Nat.le_max_left _ _) hk1 (by simpa using hk),
      undelay_lastN_delay wu du (max dx du) k _ hwu (Nat.le_max_right _ _) hk1 (by simpa using hk)]
  have h1 : (lastN (k + dx) (X.map (·.x))).length = k + dx := by
    rw [lastN_length]; simp; have := Nat.le_max_left dx du; omega
  have h2 : (lastN (k + du) (X.map (·.u))).length = k + du := by
    rw [lastN_length]; simp; have := Nat.le_max_right dx du; omega
  rw [h1, h2]
  have hmin : min (k + dx) (k + du) = k + min dx du := by omega
  rw [hmin, lastN_lastN _ _ _ (by omega), lastN_lastN _ _ _ (by omega)]
  rw [← lastN_zipWith _ Row.mk _ _ (by simp)]
  rw [zipWith_map_self X (·.x) (·.u) Row.mk (fun r => rfl)]



/-! ### tree-level facts -/

structure EnvLaws (env : κ → RowFn α) : Prop where
  inv : ∀ k wx wu r, r.x.length = wx → r.u.length = wu → (env k).dom r → (env k).g (wx, wu) ((env k).f r) = r
  wx : ∀ k r, ((env k).f r).x.length = (env k).wx r.x.length r.u.length
  wu : ∀ k r, ((env k).f r).u.length = (env k).wu r.x.length r.u.length

mutual
theorem Stage.gain_le_loss (s : Stage κ) : Stage.gain s ≤ Stage.loss s := by
  cases s with
  | rw k => simp [Stage.gain, Stage.loss]
  | delay dx du => simp only [Stage.gain, Stage.loss]; omega
  | split a b =>
    simp only [Stage.gain, Stage.loss]
    have := Stages.gain_le_loss a; have := Stages.gain_le_loss b; omega
  | pipe ss => simp only [Stage.gain, Stage.loss]; exact Stages.gain_le_loss ss
theorem Stages.gain_le_loss (ss : Stages κ) : Stages.gain ss ≤ Stages.loss ss := by
  cases ss with
  | nil => simp [Stages.gain, Stages.loss]
  | cons s rest =>
    simp only [Stages.gain, Stages.loss]
    have := Stage.gain_le_loss s; have := Stages.gain_le_loss rest; omega
end

theorem zipXU_length (A B : Ep α) : (zipXU A B).length = min A.length B.length := by
  simp [zipXU, lastN_length]

theorem onlyX_length (X : Ep α) : (onlyX X).length = X.length := by simp [onlyX]
theorem onlyU_length (X : Ep α) : (onlyU X).length = X.length := by simp [onlyU]

mutual
theorem Stage.length_tr (s : Stage κ) (X : Ep α) : (Stage.tr env s X).length = X.length - Stage.loss s := by
  cases s with
  | rw k => simp [Stage.tr, Stage.loss]
  | delay dx du => simp [Stage.tr, Stage.loss, delayEp_length]
  | split a b =>
    simp only [Stage.tr, Stage.loss, zipXU_length]
    rw [Stages.length_tr a, Stages.length_tr b, onlyX_length, onlyU_length]; omega
  | pipe ss => simp only [Stage.tr, Stage.loss]; exact Stages.length_tr ss X
theorem Stages.length_tr (ss : Stages κ) (X : Ep α) : (Stages.tr env ss X).length = X.length - Stages.loss ss := by
  cases ss with
  | nil => simp [Stages.tr, Stages.loss]
  | cons s rest =>
    simp only [Stages.tr, Stages.loss]
    rw [Stages.length_tr rest, Stage.length_tr s]; omega
end


theorem flatten_length_widths (w : Nat) (bs : List (List α)) (h : ∀ b ∈ bs, b.length = w) :
    bs.flatten.length = w * bs.length := by
  induction bs with
  | nil => simp
  | cons b t ih =>
    have hb := h b (by simp)
    have := ih (fun b' hb' => h b' (by simp [hb']))
    simp only [List.flatten_cons, List.length_append, List.length_cons, hb, this, Nat.mul_succ]; omega

theorem delayCols_widths (w d T : Nat) (cols : List (List α)) (hw : ∀ c ∈ cols, c.length = w) (hdT : d ≤ T) :
    ∀ r ∈ delayCols d T cols, r.length = w * (d+1) := by
  intro r hr
  simp only [delayCols, List.mem_map, List.mem_range] at hr
  obtain ⟨j, hj, rfl⟩ := hr
  rw [delayRow_eq cols d (j+T) (by omega)]
  have hws : ∀ b ∈ (slice cols (j + T - d) (d+1)).reverse, b.length = w := by
    intro b hb
    exact slice_widths w cols hw _ _ (by omega) b (List.mem_reverse.mp hb)
  rw [flatten_length_widths w _ hws]; simp [slice_length]

theorem mem_zipWith_mk (A B : List (List α)) (r : Row α) (h : r ∈ List.zipWith Row.mk A B) :
    r.x ∈ A ∧ r.u ∈ B := by
  induction A generalizing B with
  | nil => simp at h
  | cons a t ih =>
    cases B with
    | nil => simp at h
    | cons b t' =>
      simp only [List.zipWith_cons_cons, List.mem_cons] at h
      rcases h with rfl | h
      · simp
      · have := ih t' h; simp [this.1, this.2]

theorem mem_zipXU (A B : Ep α) (r : Row α) (h : r ∈ zipXU A B) :
    ∃ a ∈ A, ∃ b ∈ B, r = ⟨a.x, b.u⟩ := by
  unfold zipXU at h
  simp only [] at h
  generalize hA : lastN (min A.length B.length) A = A' at h
  generalize hB : lastN (min A.length B.length) B = B' at h
  have hsubA : ∀ a ∈ A', a ∈ A := by
    intro a ha; rw [← hA] at ha; exact List.mem_of_mem_drop ha
  have hsubB : ∀ b ∈ B', b ∈ B := by
    intro b hb; rw [← hB] at hb; exact List.mem_of_mem_drop hb
  clear hA hB
  induction A' generalizing B' with
  | nil => simp at h
  | cons a t ih =>
    cases B' with
    | nil => simp at h
    | cons b t' =>
      simp only [List.zipWith_cons_cons, List.mem_cons] at h
      rcases h with rfl | h
      · exact ⟨a, hsubA a (by simp), b, hsubB b (by simp), rfl⟩
      · exact ih t' h (fun a' ha' => hsubA a' (by simp [ha'])) (fun b' hb' => hsubB b' (by simp [hb']))

theorem typed_delayEp (wx wu dx du : Nat) (X : Ep α) (hX : Typed wx wu X) :
    Typed (wx * (dx+1)) (wu * (du+1)) (delayEp dx du X) := by
  have hwx : ∀ c ∈ X.map (·.x), c.length = wx := by
    intro c hc; simp only [List.mem_map] at hc; obtain ⟨r, hr, rfl⟩ := hc; exact (hX r hr).1
  have hwu : ∀ c ∈ X.map (·.u), c.length = wu := by
    intro c hc; simp only [List.mem_map] at hc; obtain ⟨r, hr, rfl⟩ := hc; exact (hX r hr).2
  intro r hr
  have := mem_zipWith_mk _ _ r hr
  exact ⟨delayCols_widths wx dx _ _ hwx (Nat.le_max_left _ _) _ this.1,
         delayCols_widths wu du _ _ hwu (Nat.le_max_right _ _) _ this.2⟩

theorem typed_onlyX (wx wu : Nat) (X : Ep α) (hX : Typed wx wu X) : Typed wx 0 (onlyX X) := by
  intro r hr; simp only [onlyX, List.mem_map] at hr; obtain ⟨r', hr', rfl⟩ := hr
  exact ⟨(hX r' hr').1, rfl⟩
theorem typed_onlyU (wx wu : Nat) (X : Ep α) (hX : Typed wx wu X) : Typed 0 wu (onlyU X) := by
  intro r hr; simp only [onlyU, List.mem_map] at hr; obtain ⟨r', hr', rfl⟩ := hr
  exact ⟨rfl, (hX r' hr').2⟩

mutual
theorem Stage.typed_tr (hL : EnvLaws env) (s : Stage κ) (wx wu : Nat) (X : Ep α) (hX : Typed wx wu X) :
    Typed (Stage.outW env s (wx, wu)).1 (Stage.outW env s (wx, wu)).2 (Stage.tr env s X) := by
  cases s with
  | rw k =>
    intro r hr
    simp only [Stage.tr, List.mem_map] at hr
    obtain ⟨r', hr', rfl⟩ := hr
    simp only [Stage.outW]
    rw [hL.wx, hL.wu, (hX r' hr').1, (hX r' hr').2]; exact ⟨rfl, rfl⟩
  | delay dx du => simpa [Stage.tr, Stage.outW] using typed_delayEp wx wu dx du X hX
  | split a b =>
    have hA := Stages.typed_tr hL a wx 0 (onlyX X) (typed_onlyX wx wu X hX)
    have hB := Stages.typed_tr hL b 0 wu (onlyU X) (typed_onlyU wx wu X hX)
    intro r hr
    simp only [Stage.tr] at hr
    obtain ⟨a', ha', b', hb', rfl⟩ := mem_zipXU _ _ r hr
    simp only [Stage.outW]
    exact ⟨(hA a' ha').1, (hB b' hb').2⟩
  | pipe ss => simpa [Stage.tr, Stage.outW] using Stages.typed_tr hL ss wx wu X hX
theorem Stages.typed_tr (hL : EnvLaws env) (ss : Stages κ) (wx wu : Nat) (X : Ep α) (hX : Typed wx wu X) :
    Typed (Stages.outW env ss (wx, wu)).1 (Stages.outW env ss (wx, wu)).2 (Stages.tr env ss X) := by
  cases ss with
  | nil => simpa [Stages.tr, Stages.outW] using hX
  | cons s rest =>
    simp only [Stages.tr, Stages.outW]
    exact Stages.typed_tr hL rest _ _ _ (Stage.typed_tr hL s wx wu X hX)
end


mutual
/-- the fit-time checks of `SplitPipeline.fit`: the state branch emits no inputs, the input branch no states -/
def Stage.wf : Stage κ → Nat × Nat → Prop
  | .rw _, _ => True
  | .delay _ _, _ => True
  | .split a b, (wx, wu) => Stages.wf a (wx, 0) ∧ Stages.wf b (0, wu)
      ∧ (Stages.outW env a (wx, 0)).2 = 0 ∧ (Stages.outW env b (0, wu)).1 = 0
  | .pipe ss, w => Stages.wf ss w
def Stages.wf : Stages κ → Nat × Nat → Prop
  | .nil, _ => True
  | .cons s rest, w => Stage.wf s w ∧ Stages.wf rest (Stage.outW env s w)
end

/-! ### the invariant: inverse of any non-empty suffix of the lifted episode is a suffix of the original -/

theorem map_eq_self {β : Type} (f : β → β) (l : List β) (h : ∀ r ∈ l, f r = r) : l.map f = l := by
  induction l with
  | nil => rfl
  | cons a t ih =>
    simp only [List.map_cons, h a (by simp)]
    rw [ih (fun r hr => h r (by simp [hr]))]

theorem onlyX_of_typed0 (wx : Nat) (A : Ep α) (h : Typed wx 0 A) : onlyX A = A := by
  unfold onlyX
  apply map_eq_self
  intro r hr
  have := (h r hr).2
  cases r with
  | mk x u => simp at this; simp [this]

theorem onlyU_of_typed0 (wu : Nat) (B : Ep α) (h : Typed 0 wu B) : onlyU B = B := by
  unfold onlyU
  apply map_eq_self
  intro r hr
  have := (h r hr).1
  cases r with
  | mk x u => simp at this; simp [this]

theorem typed_lastN (wx wu k : Nat) (A : Ep α) (h : Typed wx wu A) : Typed wx wu (lastN k A) :=
  fun r hr => h r (List.mem_of_mem_drop hr)

theorem onlyX_zip (A' B' : Ep α) (h : A'.length = B'.length) :
    onlyX (List.zipWith (fun a b => (⟨a.x, b.u⟩ : Row α)) A' B') = onlyX A' := by
  induction A' generalizing B' with
  | nil => simp [onlyX]
  | cons a t ih =>
    cases B' with
    | nil => simp at h
    | cons b t' =>
      simp at h
      have := ih t' h
      simp only [onlyX] at this ⊢
      simp [this]

theorem onlyU_zip (A' B' : Ep α) (h : A'.length = B'.length) :
    onlyU (List.zipWith (fun a b => (⟨a.x, b.u⟩ : Row α)) A' B') = onlyU B' := by
  induction A' generalizing B' with
  | nil => cases B' with
    | nil => simp [onlyU]
    | cons b t' => simp at h
  | cons a t ih =>
    cases B' with
    | nil => simp at h
    | cons b t' =>
      simp at h
      have := ih t' h
      simp only [onlyU] at this ⊢
      simp [this]

theorem zip_onlyX_onlyU (X : Ep α) :
    List.zipWith (fun a b => (⟨a.x, b.u⟩ : Row α)) (onlyX X) (onlyU X) = X := by
  induction X with
  | nil => rfl
  | cons r t ih => simp only [onlyX, onlyU] at ih ⊢; simp [ih]

/-- `lastN k` of a `zipXU` is the zip of the `lastN k`s (k within range) -/
theorem lastN_zipXU (k : Nat) (A B : Ep α) (hk : k ≤ min A.length B.length) :
    lastN k (zipXU A B)
      = List.zipWith (fun a b => (⟨a.x, b.u⟩ : Row α)) (lastN k A) (lastN k B) := by
  unfold zipXU
  simp only []
  rw [lastN_zipWith _ _ _ _ (by simp [lastN_length]), lastN_lastN _ _ _ hk, lastN_lastN _ _ _ hk]

mutual
theorem Stage.roundtrip_suffix (hL : EnvLaws env) (s : Stage κ) (wx wu : Nat) (X : Ep α)
    (hwf : Stage.wf env s (wx, wu)) (hdom : Stage.dom env s X)
    (hX : Typed wx wu X) (k : Nat) (hk1 : 1 ≤ k) (hk : k + Stage.loss s ≤ X.length) :
    Stage.inv env s (wx, wu) (lastN k (Stage.tr env s X)) = lastN (k + Stage.gain s) X := by
  cases s with
  | rw kk =>
    simp only [Stage.inv, Stage.tr, Stage.gain, Nat.add_zero]
    rw [lastN_map, List.map_map]
    apply map_eq_self
    intro r hr
    have hr' := hX r (List.mem_of_mem_drop hr)
    simp only [Function.comp]
    exact hL.inv kk wx wu r hr'.1 hr'.2 (hdom r (List.mem_of_mem_drop hr))
  | delay dx du =>
    simp only [Stage.inv, Stage.tr, Stage.gain]
    exact undelayEp_lastN_delayEp wx wu dx du k X hX hk1 (by simpa [Stage.loss] using hk)
  | split a b =>
    simp only [Stage.loss] at hk
    simp only [Stage.wf] at hwf
    simp only [Stage.dom] at hdom
    obtain ⟨hwa, hwb, hu0, hx0⟩ := hwf
    have hga := Stages.gain_le_loss a
    have hgb := Stages.gain_le_loss b
    have hA := Stages.typed_tr env hL a wx 0 (onlyX X) (typed_onlyX wx wu X hX)
    have hB := Stages.typed_tr env hL b 0 wu (onlyU X) (typed_onlyU wx wu X hX)
    rw [hu0] at hA; rw [hx0] at hB
    have hlA := Stages.length_tr env a (onlyX X)
    have hlB := Stages.length_tr env b (onlyU X)
    rw [onlyX_length] at hlA; rw [onlyU_length] at hlB
    simp only [Stage.inv, Stage.tr, Stage.gain]
    rw [lastN_zipXU k _ _ (by rw [hlA, hlB]; omega)]
    have hl : (lastN k (Stages.tr env a (onlyX X))).length = (lastN k (Stages.tr env b (onlyU X))).length := by
      rw [lastN_length, lastN_length, hlA, hlB]; omega
    rw [onlyX_zip _ _ hl, onlyU_zip _ _ hl]
    rw [onlyX_of_typed0 _ _ (typed_lastN _ _ k _ hA), onlyU_of_typed0 _ _ (typed_lastN _ _ k _ hB)]
    rw [Stages.roundtrip_suffix hL a wx 0 (onlyX X) hwa hdom.1 (typed_onlyX wx wu X hX) k hk1 (by rw [onlyX_length]; omega),
        Stages.roundtrip_suffix hL b 0 wu (onlyU X) hwb hdom.2 (typed_onlyU wx wu X hX) k hk1 (by rw [onlyU_length]; omega)]
    unfold zipXU
    simp only []
    have h1 : (lastN (k + Stages.gain a) (onlyX X)).length = k + Stages.gain a := by
      rw [lastN_length, onlyX_length]; omega
    have h2 : (lastN (k + Stages.gain b) (onlyU X)).length = k + Stages.gain b := by
      rw [lastN_length, onlyU_length]; omega
    rw [h1, h2]
    have hmin : min (k + Stages.gain a) (k + Stages.gain b) = k + min (Stages.gain a) (Stages.gain b) := by omega
    rw [hmin, lastN_lastN _ _ _ (by omega), lastN_lastN _ _ _ (by omega)]
    rw [← lastN_zipWith _ _ _ _ (by rw [onlyX_length, onlyU_length]), zip_onlyX_onlyU]
  | pipe ss =>
    simp only [Stage.inv, Stage.tr, Stage.gain]
    exact Stages.roundtrip_suffix hL ss wx wu X (by simpa [Stage.wf] using hwf) (by simpa [Stage.dom] using hdom) hX k hk1 (by simpa [Stage.loss] using hk)
theorem Stages.roundtrip_suffix (hL : EnvLaws env) (ss : Stages κ) (wx wu : Nat) (X : Ep α)
    (hwf : Stages.wf env ss (wx, wu)) (hdom : Stages.dom env ss X)
    (hX : Typed wx wu X) (k : Nat) (hk1 : 1 ≤ k) (hk : k + Stages.loss ss ≤ X.length) :
    Stages.inv env ss (wx, wu) (lastN k (Stages.tr env ss X)) = lastN (k + Stages.gain ss) X := by
  cases ss with
  | nil => simp [Stages.inv, Stages.tr, Stages.gain]
  | cons s rest =>
    simp only [Stages.loss] at hk
    simp only [Stages.wf] at hwf
    simp only [Stages.dom] at hdom
    simp only [Stages.inv, Stages.tr, Stages.gain]
    have hT := Stage.typed_tr env hL s wx wu X hX
    have hlen := Stage.length_tr env s X
    have hg := Stages.gain_le_loss rest
    rw [Stages.roundtrip_suffix hL rest _ _ (Stage.tr env s X) hwf.2 hdom.2 hT k hk1 (by rw [hlen]; omega)]
    rw [Stage.roundtrip_suffix hL s wx wu X hwf.1 hdom.1 hX (k + Stages.gain rest) (by omega) (by omega)]
    congr 1; omega
end

/-- C01 for the whole episode: k = number of lifted samples -/
theorem Stage.roundtrip (hL : EnvLaws env) (s : Stage κ) (wx wu : Nat) (X : Ep α)
    (hwf : Stage.wf env s (wx, wu)) (hdom : Stage.dom env s X) (hX : Typed wx wu X) (hmin : Stage.loss s + 1 ≤ X.length) :
    Stage.inv env s (wx, wu) (Stage.tr env s X) = lastN (X.length - Stage.loss s + Stage.gain s) X := by
  have hlen := Stage.length_tr env s X
  have := Stage.roundtrip_suffix env hL s wx wu X hwf hdom hX (X.length - Stage.loss s) (by omega) (by omega)
  rwa [lastN_all _ _ (by omega)] at this


end Pk

