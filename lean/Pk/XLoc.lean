import Pk.Tree
/-! C02 on the stage tree — the lifted state block depends only on the state block of the input
(and on the widths the stage was fitted with). Core Lean only. -/
namespace Pk
variable {α : Type} {κ : Type}

theorem map_congr_of_map_eq {β γ δ : Type} (p : β → γ) (q : β → δ) (X X' : List β)
    (h : X.map p = X'.map p) (hq : ∀ r r', p r = p r' → q r = q r') : X.map q = X'.map q := by
  induction X generalizing X' with
  | nil => cases X' with
    | nil => rfl
    | cons b t => simp at h
  | cons a t ih =>
    cases X' with
    | nil => simp at h
    | cons b t' =>
      simp only [List.map_cons, List.cons.injEq] at h ⊢
      exact ⟨hq a b h.1, ih t' h.2⟩

theorem length_of_map_eq {β γ : Type} (p : β → γ) (X X' : List β) (h : X.map p = X'.map p) :
    X.length = X'.length := by
  have := congrArg List.length h; simpa using this

theorem onlyX_eq_of_x (X X' : Ep α) (h : X.map (·.x) = X'.map (·.x)) : onlyX X = onlyX X' := by
  unfold onlyX
  exact map_congr_of_map_eq (·.x) (fun r => (⟨r.x, []⟩ : Row α)) X X' h (fun r r' hr => by simp [hr])

theorem map_x_zipXU' (A' B' : Ep α) (h : A'.length = B'.length) :
    (List.zipWith (fun a b => (⟨a.x, b.u⟩ : Row α)) A' B').map (·.x) = A'.map (·.x) := by
  induction A' generalizing B' with
  | nil => simp
  | cons a t ih =>
    cases B' with
    | nil => simp at h
    | cons b t' => simp at h; simp [ih t' h]

theorem zipXU_x (A B : Ep α) :
    (zipXU A B).map (·.x) = (lastN (min A.length B.length) A).map (·.x) := by
  unfold zipXU
  simp only []
  apply map_x_zipXU'
  rw [lastN_length, lastN_length]; omega


theorem map_congr_of_map_eq_mem {β γ δ : Type} (p : β → γ) (q : β → δ) (X X' : List β)
    (h : X.map p = X'.map p) (hq : ∀ r ∈ X, ∀ r' ∈ X', p r = p r' → q r = q r') : X.map q = X'.map q := by
  induction X generalizing X' with
  | nil => cases X' with
    | nil => rfl
    | cons b t => simp at h
  | cons a t ih =>
    cases X' with
    | nil => simp at h
    | cons b t' =>
      simp only [List.map_cons, List.cons.injEq] at h ⊢
      exact ⟨hq a (by simp) b (by simp) h.1,
        ih t' h.2 (fun r hr r' hr' => hq r (by simp [hr]) r' (by simp [hr']))⟩

variable (env : κ → RowFn α)

/-- the new state block is a function of the old state block (given equal input widths) -/
structure XLoc (env : κ → RowFn α) : Prop where
  xloc : ∀ k r r', r.x = r'.x → r.u.length = r'.u.length → ((env k).f r).x = ((env k).f r').x

mutual
theorem Stage.x_local (hE : EnvLaws env) (hL : XLoc env) (s : Stage κ) (wx wu : Nat) (X X' : Ep α)
    (hX : Typed wx wu X) (hX' : Typed wx wu X') (h : X.map (·.x) = X'.map (·.x)) :
    (Stage.tr env s X).map (·.x) = (Stage.tr env s X').map (·.x) := by
  cases s with
  | rw k =>
    simp only [Stage.tr, List.map_map]
    exact map_congr_of_map_eq_mem (·.x) _ X X' h
      (fun r hr r' hr' e => hL.xloc k r r' e (by rw [(hX r hr).2, (hX' r' hr').2]))
  | delay dx du =>
    have hlen := length_of_map_eq _ X X' h
    simp only [Stage.tr, delayEp]
    rw [map_fst_zipWith Row.mk (·.x) (fun _ _ => rfl) _ _ (by simp [delayCols_length]),
        map_fst_zipWith Row.mk (·.x) (fun _ _ => rfl) _ _ (by simp [delayCols_length]), h]
  | split a b =>
    have hlen := length_of_map_eq _ X X' h
    simp only [Stage.tr]
    rw [zipXU_x, zipXU_x, onlyX_eq_of_x X X' h]
    rw [Stages.length_tr env b (onlyU X), Stages.length_tr env b (onlyU X'), onlyU_length, onlyU_length, hlen]
  | pipe ss => simpa [Stage.tr] using Stages.x_local hE hL ss wx wu X X' hX hX' h
theorem Stages.x_local (hE : EnvLaws env) (hL : XLoc env) (ss : Stages κ) (wx wu : Nat) (X X' : Ep α)
    (hX : Typed wx wu X) (hX' : Typed wx wu X') (h : X.map (·.x) = X'.map (·.x)) :
    (Stages.tr env ss X).map (·.x) = (Stages.tr env ss X').map (·.x) := by
  cases ss with
  | nil => simpa [Stages.tr] using h
  | cons s rest =>
    simp only [Stages.tr]
    exact Stages.x_local hE hL rest _ _ _ _ (Stage.typed_tr env hE s wx wu X hX)
      (Stage.typed_tr env hE s wx wu X' hX') (Stage.x_local hE hL s wx wu X X' hX hX' h)
end

end Pk
