import Pk.Parse
import Pk.Inst
/-! Line-protocol driver for the Mathlib-free model: one request per line on stdin, one reply per
line on stdout.  The harness (`/verif/harness`) sends the same cases to the real pykoop and diffs. -/
open Pk

def showErr : FitErr → String
  | .valueError => "ValueError"
  | .runtimeError => "RuntimeError"
  | .indexError => "IndexError"

def showAttrs (a : Attrs) : String := s!"{a.nxIn} {a.nuIn} {a.nxOut} {a.nuOut} {a.minSamples}"

/-- which value domain a request uses -/
structure Dom (α : Type) where
  ops : Ops α
  cell : P α
  sh : α → String

def domInt : Dom Int := ⟨intOps, pInt, toString⟩
def domDep : Dom (List Nat) := ⟨depOps, (do let n ← pNat; pure [n]), showDep⟩
def domStr : Dom String := ⟨strOps, tok, id⟩

def cmdFit : P String := do
  let nx ← pNat; let nu ← pNat
  let s ← pStage
  match Stage.fit s (nx, nu) with
  | .error e => pure s!"err {showErr e}"
  | .ok w =>
    let ns := [1, 2, 3, 4].map fun k => toString (Stage.nSamplesIn s k)
    let ats := Stage.attrs s (nx, nu)
    pure (s!"ok {w.1} {w.2} {Stage.nSamplesIn s 1} ns " ++ " ".intercalate ns
      ++ s!" attrs {ats.length} " ++ " ".intercalate (ats.map showAttrs))

def withFit (nx nu : Nat) (s : S) (k : Nat × Nat → P String) : P String :=
  match Stage.fit s (nx, nu) with
  | .error e => pure s!"err {showErr e}"
  | .ok w => k w

def cmdTr {α : Type} (d : Dom α) (what : String) : P String := do
  let nx ← pNat; let nu ← pNat
  let s ← pStage
  let X ← pMat d.cell
  withFit nx nu s fun _ => do
    let env := rowFn d.ops
    match what with
    | "tr" => pure ("ok " ++ showMat d.sh (transformFlat env s nx X))
    | "inv" => pure ("ok " ++ showMat d.sh (inverseFlat env s (nx, nu) X))
    | "rt" => pure ("ok " ++ showMat d.sh (inverseFlat env s (nx, nu) (transformFlat env s nx X)))
    | _ => throw "bad op"

def cmdUtil : P String := do
  let what ← tok
  match what with
  | "split" => do
    let X ← pMat pInt
    let eps := splitEps X
    pure (s!"ok {eps.length} " ++ " ".intercalate (eps.map fun p => showMat toString (p.2.map fun r => (p.1, r))))
  | "shift" => do
    let nu ← pNat
    let X ← pMat pInt
    pure ("ok " ++ showMat toString (shiftUn X) ++ " | " ++ showMat toString (shiftSh (dropInputs nu) X))
  | "ic" => do
    let m ← pNat; let nu ← pNat
    let X ← pMat pInt
    pure ("ok " ++ showMat toString (extractIC m (dropInputs nu) X))
  | "input" => do
    let nu ← pNat
    let X ← pMat pInt
    pure ("ok " ++ showMat toString (extractInput (keepInputs nu) X))
  | "strip" => do
    let m ← pNat
    let X ← pMat pInt
    pure ("ok " ++ showMat toString (stripIC m X))
  | _ => throw s!"bad util {what}"

def dispatch : P String := do
  let cmd ← tok
  match cmd with
  | "fit" => cmdFit
  | "tr" | "inv" | "rt" => do
    let mode ← tok
    match mode with
    | "int" => cmdTr domInt cmd
    | "dep" => cmdTr domDep cmd
    | "str" => cmdTr domStr cmd
    | _ => throw s!"bad mode {mode}"
  | "util" => cmdUtil
  | _ => throw s!"bad command {cmd}"

def handle (line : String) : String :=
  let toks := (line.splitOn " ").filter (· ≠ "")
  match dispatch.run toks with
  | .ok (out, _) => out
  | .error e => s!"bad {e}"

partial def loop (h : IO.FS.Stream) (out : IO.FS.Stream) : IO Unit := do
  let line ← h.getLine
  if line.isEmpty then return ()
  let l := line.trimAscii.toString
  out.putStrLn (handle l)
  loop h out

def main : IO Unit := do
  let out ← IO.getStdout
  loop (← IO.getStdin) out
  out.flush
