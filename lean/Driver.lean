import Pk.Parse
import Pk.Diverge
import Pk.Inst
import Pk.Lift
import Pk.Predict
import Pk.Score
import Pk.ScoreG
import Pk.Config
import Pk.Tsvd
import Pk.Names
import Pk.Gram
import Pk.FitLoop
import Pk.Numeric
import Pk.Centers
/-! Line-protocol driver for the Mathlib-free model: one request per line on stdin, one reply per
line on stdout.  The harness (`/verif/harness`) sends the same cases to the real pykoop and diffs. -/
open Pk

def showErr : FitErr → String
  | .valueError => "ValueError"
  | .runtimeError => "RuntimeError"
  | .indexError => "IndexError"

def showAttrs (a : Attrs) : String := s!"{a.nxIn} {a.nuIn} {a.nxOut} {a.nuOut} {a.minSamples}"

/-- which value domain a request uses -/
structure Dom (α : Type) where
  ops : Ops α
  cell : P α
  sh : α → String

def domInt : Dom Int := ⟨intOps, pInt, toString⟩
def domDep : Dom (List Nat) := ⟨depOps, (do let n ← pNat; pure [n]), showDep⟩
def domStr : Dom String := ⟨strOps, tok, id⟩

def cmdFit : P String := do
  let nx ← pNat; let nu ← pNat
  let s ← pStage
  match Stage.fit s (nx, nu) with
  | .error e => pure s!"err {showErr e}"
  | .ok w =>
    let ns := [1, 2, 3, 4].map fun k => toString (Stage.nSamplesIn s k)
    let ats := Stage.attrs s (nx, nu)
    pure (s!"ok {w.1} {w.2} {Stage.nSamplesIn s 1} ns " ++ " ".intercalate ns
      ++ s!" attrs {ats.length} " ++ " ".intercalate (ats.map showAttrs))

def withFit (nx nu : Nat) (s : S) (k : Nat × Nat → P String) : P String :=
  match Stage.fit s (nx, nu) with
  | .error e => pure s!"err {showErr e}"
  | .ok w => k w

def cmdTr {α : Type} (d : Dom α) (what : String) : P String := do
  let nx ← pNat; let nu ← pNat
  let s ← pStage
  let X ← pMat d.cell
  withFit nx nu s fun _ => do
    let env := rowFn d.ops
    match what with
    | "tr" => pure ("ok " ++ showMat d.sh (transformFlat env s nx X))
    | "inv" => pure ("ok " ++ showMat d.sh (inverseFlat env s (nx, nu) X))
    | "rt" => pure ("ok " ++ showMat d.sh (inverseFlat env s (nx, nu) (transformFlat env s nx X)))
    | _ => throw "bad op"

def cmdUtil : P String := do
  let what ← tok
  match what with
  | "split" => do
    let X ← pMat pInt
    let eps := splitEps X
    pure (s!"ok {eps.length} " ++ " ".intercalate (eps.map fun p => showMat toString (p.2.map fun r => (p.1, r))))
  | "shift" => do
    let nu ← pNat
    let X ← pMat pInt
    pure ("ok " ++ showMat toString (shiftUn X) ++ " | " ++ showMat toString (shiftSh (dropInputs nu) X))
  | "ic" => do
    let m ← pNat; let nu ← pNat
    let X ← pMat pInt
    pure ("ok " ++ showMat toString (extractIC m (dropInputs nu) X))
  | "input" => do
    let nu ← pNat
    let X ← pMat pInt
    pure ("ok " ++ showMat toString (extractInput (keepInputs nu) X))
  | "strip" => do
    let m ← pNat
    let X ← pMat pInt
    pure ("ok " ++ showMat toString (stripIC m X))
  | _ => throw s!"bad util {what}"

/-- `regargs nx nu <stage> <mat>`: what `KoopmanPipeline.fit` hands its regressor — `shift_episodes` of the
lifted data with `n_inputs = n_inputs_out_` -/
def cmdRegArgs : P String := do
  let nx ← pNat; let nu ← pNat
  let s ← pStage
  let X ← pMat pInt
  withFit nx nu s fun w => do
    let Xt := transformFlat (rowFn intOps) s nx X
    pure ("ok " ++ showMat toString (shiftUn Xt) ++ " | " ++ showMat toString (shiftSh (dropInputs w.2) Xt))

def pKoop : P (List (List Int)) := do
  let r ← pNat; let c ← pNat
  pMany r (pMany c pInt)

/-- `predict nx nu <stage> <K> <mat>` -/
def cmdPredict : P String := do
  let nx ← pNat; let nu ← pNat
  let s ← pStage
  let K ← pKoop
  let X ← pMat pInt
  withFit nx nu s fun _ => do
    let p : Pipe Int Kind := ⟨s, (nx, nu), K⟩
    pure ("ok " ++ showMat toString (predictFlat (rowFn intOps) p X))

/-- `traj <relift> <lifted> <input> nx nu <stage> <K> <form 1|2> <mat X0orX> [<mat U>]` -/
def cmdTraj : P String := do
  let relift ← pBool; let lifted ← pBool; let inp ← pBool
  let nx ← pNat; let nu ← pNat
  let s ← pStage
  let K ← pKoop
  let form ← pNat
  let X0 ← pMat pInt
  let U ← if form == 2 then (do let u ← pMat pInt; pure (some u)) else pure none
  withFit nx nu s fun _ => do
    let p : Pipe Int Kind := ⟨s, (nx, nu), K⟩
    match predictTrajectory (rowFn intOps) p relift lifted inp X0 U with
    | .error _ => pure "err ValueError"
    | .ok Y => pure ("ok " ++ showMat toString Y)

def pOptNat : P (Option Nat) := do
  let t ← tok
  if t == "n" then pure none else
    match t.toNat? with
    | some n => pure (some n)
    | none => throw s!"nat or n expected: {t}"

def pErrScore : P ErrScore := do
  let t ← tok
  match t with
  | "raise" => pure .raise
  | "nan" => pure .nan
  | "-inf" => pure .negInf
  | _ => match (pRat.run [t]) with
    | .ok (r, _) => pure (.val r)
    | .error e => throw e

def pMetric : P Metric := do
  let t ← tok
  match t with
  | "mse" => pure .mse
  | "mae" => pure .mae
  | "mape" => pure .mape
  | _ => throw s!"metric expected: {t}"

def showScore : ScoreOut → String
  | .val r => "val " ++ showRat r
  | .nan => "nan"
  | .negInf => "-inf"
  | .valueError => "err ValueError"

/-- `weights <nsteps|n> <gamma> <mat>` -/
def cmdWeights : P String := do
  let ns ← pOptNat; let g ← pRat
  let X ← pMat pRat
  pure ("ok " ++ " ".intercalate ((weightsOf ns g X).map showRat))

/-- `score <metric> <finite 0|1> <error_score> <nsteps|n> <gamma> <min_samples> <mat P> <mat E>` -/
def cmdScore : P String := do
  let m ← pMetric; let fin ← pBool; let es ← pErrScore; let ns ← pOptNat; let g ← pRat; let ms ← pNat
  let Pm ← pMat pRat
  let E ← pMat pRat
  pure (showScore (scoreTrajectory fin m es ns g ms Pm E))

/-- `scoreg <r2|ev> <finite 0|1> <error_score> <nsteps|n> <gamma> <min_samples> <mat P> <mat E>` -/
def cmdScoreG : P String := do
  let t ← tok
  let m ← match t with
    | "r2" => pure GMetric.r2
    | "ev" => pure GMetric.ev
    | _ => throw s!"r2|ev expected: {t}"
  let fin ← pBool; let es ← pErrScore; let ns ← pOptNat; let g ← pRat; let ms ← pNat
  let Pm ← pMat pRat
  let E ← pMat pRat
  pure (showScore (scoreTrajectoryG fin m es ns g ms Pm E))

/-- `scorer <multistep> <relift> <metric> <error_score> <nsteps|n> <gamma> nx nu <stage> <K> <mat>` -/
def cmdScorer : P String := do
  let multi ← pBool; let relift ← pBool
  let m ← pMetric; let es ← pErrScore; let ns ← pOptNat; let g ← pRat
  let nx ← pNat; let nu ← pNat
  let s ← pStage
  let Ki ← pKoop
  let X ← pMat pRat
  withFit nx nu s fun _ => do
    let p : Pipe Rat Kind := ⟨s, (nx, nu), Ki.map (·.map fun (v : Int) => (v : Rat))⟩
    pure (showScore (scorer (rowFn ratOps) p multi relift m es ns g X))

def pOptBool : P (Option Bool) := do
  let t ← tok
  match t with
  | "n" => pure none
  | "1" => pure (some true)
  | "0" => pure (some false)
  | _ => throw s!"0/1/n expected: {t}"

/-- `config <k> (<thread> <g | s v | e v | x>)*` : run a schedule on the config machine -/
def cmdConfig : P String := do
  let k ← pNat
  let sched ← pMany k (do
    let t ← pNat
    let a ← tok
    match a with
    | "g" => pure (t, Config.Atom.get)
    | "s" => do let v ← pOptBool; pure (t, Config.Atom.set v)
    | "e" => do let v ← pOptBool; pure (t, Config.Atom.enter v)
    | "x" => pure (t, Config.Atom.exit)
    | _ => throw s!"atom expected: {a}")
  let (_, log) := Config.runSched sched (fun _ => {})
  pure ("ok " ++ " ".intercalate (log.map fun (t, b) => s!"{t}:{if b then 1 else 0}"))

partial def pProg : P Config.Prog := do
  let t ← tok
  match t with
  | "k" => pure .skip
  | "g" => do let k ← pProg; pure (.get k)
  | "s" => do let v ← pOptBool; let k ← pProg; pure (.set v k)
  | "r" => pure .raise
  | "c" => do let v ← pOptBool; let b ← pProg; let k ← pProg; pure (.ctx v b k)
  | _ => throw s!"prog expected: {t}"

/-- `cprog <start 0|1> <prog>` : run a structured program on one thread -/
def cmdCProg : P String := do
  let c ← pBool
  let p ← pProg
  let r := Config.run p c
  pure (s!"ok {if r.cur then 1 else 0} {if r.raised then 1 else 0} " ++
    " ".intercalate (r.outs.map fun b => if b then "1" else "0"))

/-- `tsvd <method> <param|n> <k> s1 .. sk` -/
def cmdTsvd : P String := do
  let mt ← tok
  let m : Tsvd.Method := match mt with
    | "economy" => .economy
    | "unknown_noise" => .unknownNoise
    | "known_noise" => .knownNoise
    | "cutoff" => .cutoff
    | "rank" => .rank
    | _ => .invalid
  let pt ← tok
  let param ← if pt == "n" then pure none else (do
    match pRat.run [pt] with
    | .ok (r, _) => pure (some r)
    | .error e => throw e)
  let k ← pNat
  let sig ← pMany k pRat
  match Tsvd.fitRank m param sig with
  | .rank r => pure s!"ok {r}"
  | .valueError => pure "err ValueError"
  | .opaque => pure "opaque"

/-- `names <p|l> <symbols 0|1> <fitEp 0|1> <callEp n|0|1> nx nu <stage> <n | k name..>`; reply is TAB separated -/
def cmdNames : P String := do
  let f ← tok
  let fmt : Fmt := if f == "l" then .latex else .plain
  let sym ← pBool; let fitEp ← pBool; let callEp ← pOptBool
  let nx ← pNat; let nu ← pNat
  let s ← pStage
  let g ← tok
  let given ← if g == "n" then pure none else (do
    match g.toNat? with
    | some k => do let ns ← pMany k tok; pure (some ns)
    | none => throw "given names expected")
  withFit nx nu s fun _ => do
    pure ("ok\t" ++ "\t".intercalate (featureNamesOut s (nx, nu) fitEp given sym fmt callEp))

/-- `divpat <nEp> {<n> <m> <k|n>}*` : NaN bookkeeping of `predict_trajectory` when the prediction of an episode diverges at
loop iteration `k` (`n`: it does not): crash index, NaN pattern of the `n` state rows and of the `n − m + 1` lifted rows -/
def cmdDivPat : P String := do
  let nEp ← pNat
  let eps ← pMany nEp (do
    let n ← pNat; let m ← pNat
    let t ← tok
    let fs : Option Nat := if t == "n" then none else t.toNat?
    pure (n, m, fs))
  let bits (l : List Bool) : String := String.mk (l.map fun b => if b then '1' else '0')
  let one := fun (e : Nat × Nat × Option Nat) =>
    let c := Pk.Diverge.crashOf e.2.2
    let cs := match c with | none => "-1" | some v => toString v
    s!"{cs} {bits (Pk.Diverge.nanPattern e.1 c)} {bits (Pk.Diverge.nanPattern (e.1 - e.2.1 + 1) c)}"
  pure ("ok " ++ " ".intercalate (eps.map one))

/-- `accept <n|k names…> <a|n|k names…>` : would a call with the second input (`a`: a plain array, `n`: a frame without
valid names, `k names…`: a frame with these names) be accepted by an estimator fitted with the first names? -/
def cmdAccept : P String := do
  let one : P (Option (List String)) := do
    let g ← tok
    if g == "n" then pure none else
      match g.toNat? with
      | some k => do let ns ← pMany k tok; pure (some ns)
      | none => throw "names expected"
  let f ← one
  let c ← (do
    match (← get) with
    | "a" :: rest => set rest; pure CallInput.array
    | _ => do let ns ← one; pure (CallInput.frame ns))
  pure (if namesAccepted f c then "ok 1" else "ok 0")

def pRMat : P Gram.RMat := do
  let r ← pNat; let c ← pNat
  pMany r (pMany c pRat)

def showRMat (A : Gram.RMat) : String :=
  let w := match A with
    | [] => 0
    | r :: _ => r.length
  s!"{A.length} {w} " ++ " ".intercalate (A.map fun r => " ".intercalate (r.map showRat))

/-- `edmd <alpha> <Psi p×q> <Theta t×q>` : exact normal-equation solution with certificate -/
def cmdEdmd : P String := do
  let a ← pRat
  let Psi ← pRMat
  let Th ← pRMat
  match Gram.edmd a Psi Th with
  | none => pure "singular"
  | some U => pure ("ok " ++ showRMat U)

/-- `fitloop <maxIter> <atol> <rtol> <K> then K x (aOpt aObj bOpt stopA stopB)`; `U`/`P` are identified by the
index of the sub-problem answer that produced them (`-1` = initial value) -/
def cmdFitLoop : P String := do
  let maxIter ← pNat; let atol ← pRat; let rtol ← pRat
  let k ← pNat
  let rows ← pMany k (do
    let ao ← pBool; let obj ← pRat; let bo ← pBool; let sa ← pBool; let sb ← pBool
    pure (ao, obj, bo, sa, sb))
  let get := fun (i : Nat) => rows.getD i (false, 0, false, true, true)
  let absR := fun (x : Rat) => if x < 0 then -x else x
  let e : FitLoop.Env Int Int :=
    { solveA := fun _ i => ⟨(get i).1, (i : Int), (get i).2.1⟩
      solveB := fun _ i => ⟨(get i).2.2.1, (i : Int)⟩
      stopA := fun i => (get i).2.2.2.1
      stopB := fun i => (get i).2.2.2.2
      close := fun curr prev => decide (absR (curr - prev) ≤ atol + rtol * absR prev) }
  let r := FitLoop.fit e maxIter (-1) (-1)
  let st := match r.stop with
    | .user => "user" | .aFailed => "a_failed" | .tol => "tol" | .bFailed => "b_failed" | .maxIter => "max_iter"
  pure (s!"ok {r.u} {r.p} {st} {r.nIter} {r.log.length} " ++ " ".intercalate (r.log.map showRat))

def pFloat : P Float := do
  let n ← pNat
  pure (Float.ofBits n.toUInt64)

def showFloat (f : Float) : String := toString f.toBits.toNat

def pFMat : P (List (List Float)) := do
  let r ← pNat; let c ← pNat
  pMany r (pMany c pFloat)

/-- `rff <weight_only 0|1> <shape> <W by columns: D x n> <b: 1 x D (or 1 x 0)> <X: rows x n>` (floats as bit patterns) -/
def cmdRff : P String := do
  let wo ← pBool; let shape ← pFloat
  let W ← pFMat; let b ← pFMat; let X ← pFMat
  let rows := X.map fun x => Numeric.rffRow wo shape W (b.headD []) x
  pure ("ok " ++ " ".intercalate (rows.map fun r => " ".intercalate (r.map showFloat)))

/-- `rbf <name> <shape> <offset> <centers c x n> <X rows x n>` -/
def cmdRbf : P String := do
  let nm ← tok
  let kind : Numeric.Rbf := match nm with
    | "exponential" => .exponential | "gaussian" => .gaussian | "multiquadric" => .multiquadric
    | "inverse_quadratic" => .inverseQuadratic | "inverse_multiquadric" => .inverseMultiquadric
    | "thin_plate" => .thinPlate | _ => .bump
  let shape ← pFloat
  let offTok ← tok
  let offset ← if offTok == "default" then pure (Numeric.defaultOffset kind) else
    (match offTok.toNat? with
     | some n => pure (Float.ofBits n.toUInt64)
     | none => throw "offset expected")
  let C ← pFMat; let X ← pFMat
  let rows := X.map fun x => Numeric.rbfRow kind shape offset C x
  pure ("ok " ++ " ".intercalate (rows.map fun r => " ".intercalate (r.map showFloat)))

/-- `centers range <sym 0|1> <X>` -> per-feature `lo hi`;  `centers grid <sym> <k> <X>` -> grid centres -/
def cmdCenters : P String := do
  let what ← tok
  let sym ← pBool
  match what with
  | "range" => do
    let X ← pRMat
    let nf := (X.headD []).length
    let r := Centers.featureRange sym X nf
    pure ("ok " ++ " ".intercalate (r.map fun (lo, hi) => showRat lo ++ " " ++ showRat hi))
  | "grid" => do
    let k ← pNat
    let X ← pRMat
    let nf := (X.headD []).length
    pure ("ok " ++ showRMat (Centers.gridCenters sym k X nf))
  | _ => throw s!"bad centers command {what}"

def intCells : Cells Int := ⟨0, Int.toNat, Int.ofNat⟩

def pRaw : P (Raw Int) := do
  let r ← pNat; let c ← pNat
  pMany r (pMany c pInt)

def showRaw (X : Raw Int) : String :=
  let w := match X with
    | [] => 0
    | r :: _ => r.length
  s!"{X.length} {w} " ++ " ".intercalate (X.map fun r => " ".intercalate (r.map toString))

/-- `lift <helper> <fitEp 0|1> <callEp n|0|1> nx nu <stage> <raw matrix>` -/
def cmdLift : P String := do
  let helper ← tok
  let fitEp ← pBool
  let ce ← tok
  let callEp : Option Bool := match ce with
    | "n" => none
    | "1" => some true
    | _ => some false
  let nx ← pNat; let nu ← pNat
  let s ← pStage
  let X ← pRaw
  withFit nx nu s fun _ => do
    let env := rowFn intOps
    let F : Fitted Kind := ⟨s, (nx, nu), fitEp⟩
    let out ← match helper with
      | "lift" => pure (liftRaw intCells env F callEp X)
      | "retract" => pure (retractRaw intCells env F callEp X)
      | "lift_state" => pure (liftState intCells env F callEp X)
      | "retract_state" => pure (retractState intCells env F callEp X)
      | "lift_input" => pure (liftInput intCells env F callEp X)
      | "retract_input" => pure (retractInput intCells env F callEp X)
      | "transform" => pure (transformRaw intCells env F X)
      | "inverse" => pure (inverseRaw intCells env F X)
      | _ => throw s!"bad helper {helper}"
    pure ("ok " ++ showRaw out)

def dispatch : P String := do
  let cmd ← tok
  match cmd with
  | "fit" => cmdFit
  | "tr" | "inv" | "rt" => do
    let mode ← tok
    match mode with
    | "int" => cmdTr domInt cmd
    | "dep" => cmdTr domDep cmd
    | "str" => cmdTr domStr cmd
    | _ => throw s!"bad mode {mode}"
  | "util" => cmdUtil
  | "lift" => cmdLift
  | "regargs" => cmdRegArgs
  | "predict" => cmdPredict
  | "traj" => cmdTraj
  | "centers" => cmdCenters
  | "rff" => cmdRff
  | "rbf" => cmdRbf
  | "edmd" => cmdEdmd
  | "fitloop" => cmdFitLoop
  | "tsvd" => cmdTsvd
  | "names" => cmdNames
  | "accept" => cmdAccept
  | "divpat" => cmdDivPat
  | "config" => cmdConfig
  | "cprog" => cmdCProg
  | "weights" => cmdWeights
  | "score" => cmdScore
  | "scoreg" => cmdScoreG
  | "scorer" => cmdScorer
  | _ => throw s!"bad command {cmd}"

def handle (line : String) : String :=
  let toks := (line.splitOn " ").filter (· ≠ "")
  match dispatch.run toks with
  | .ok (out, _) => out
  | .error e => s!"bad {e}"

partial def loop (h : IO.FS.Stream) (out : IO.FS.Stream) : IO Unit := do
  let line ← h.getLine
  if line.isEmpty then return ()
  let l := line.trimAscii.toString
  out.putStrLn (handle l)
  loop h out

def main : IO Unit := do
  let out ← IO.getStdout
  loop (← IO.getStdin) out
  out.flush
