import PkLA.Ridge
import Mathlib.Data.Matrix.Block
/-! What a truncated SVD discards.  Given ANY factorisation `X = Q diag(σ) Zᵀ` with orthonormal columns whose index set
is split into kept (`a`) and discarded (`b`) triplets, the truncation `Q_a diag(σ_a) Z_aᵀ` (what `Tsvd` returns: the same
slice of all three factors) differs from `X` by `Q_b diag(σ_b) Z_bᵀ`, whose squared Frobenius norm is `Σ_b σ²`.
(That no other rank-`|a|` matrix does better — Eckart–Young — is proved in `PkLA/EckartYoung.lean`.) -/
namespace PkLA
open Matrix

variable {m n a b : Type} [Fintype m] [Fintype n] [Fintype a] [Fintype b]
  [DecidableEq a] [DecidableEq b]

/-- the three factors restricted to one part of the index set -/
def keepL (Q : Matrix m (a ⊕ b) ℝ) : Matrix m a ℝ := Q.submatrix id Sum.inl
def dropL (Q : Matrix m (a ⊕ b) ℝ) : Matrix m b ℝ := Q.submatrix id Sum.inr

theorem svd_split (Q : Matrix m (a ⊕ b) ℝ) (Z : Matrix n (a ⊕ b) ℝ) (s : a ⊕ b → ℝ) :
    Q * diagonal s * Zᵀ
      = keepL Q * diagonal (s ∘ Sum.inl) * (keepL Z)ᵀ + dropL Q * diagonal (s ∘ Sum.inr) * (dropL Z)ᵀ := by
  ext i j
  simp only [Matrix.mul_apply, Matrix.add_apply, diagonal_apply, transpose_apply, keepL, dropL, submatrix_apply, id,
    Function.comp]
  simp only [mul_ite, mul_zero, Finset.sum_ite_eq', Finset.mem_univ, if_true]
  rw [Fintype.sum_sum_type]

theorem orth_drop (Z : Matrix n (a ⊕ b) ℝ) (hZ : Zᵀ * Z = 1) : (dropL Z)ᵀ * dropL Z = 1 := by
  ext i j
  have := congrFun (congrFun hZ (Sum.inr i)) (Sum.inr j)
  simpa [Matrix.mul_apply, dropL, Matrix.one_apply] using this

theorem orth_keep (Z : Matrix n (a ⊕ b) ℝ) (hZ : Zᵀ * Z = 1) : (keepL Z)ᵀ * keepL Z = 1 := by
  ext i j
  have := congrFun (congrFun hZ (Sum.inl i)) (Sum.inl j)
  simpa [Matrix.mul_apply, keepL, Matrix.one_apply] using this

/-- squared Frobenius norm of `Q diag(σ) Zᵀ` with orthonormal columns is `Σ σ²` -/
theorem fro2_svd {c : Type} [Fintype c] [DecidableEq c] (Q : Matrix m c ℝ) (Z : Matrix n c ℝ) (s : c → ℝ)
    (hQ : Qᵀ * Q = 1) (hZ : Zᵀ * Z = 1) : fro2 (Q * diagonal s * Zᵀ) = ∑ k, s k ^ 2 := by
  unfold fro2
  have e : Q * diagonal s * Zᵀ * (Q * diagonal s * Zᵀ)ᵀ = Q * (diagonal s * diagonal s) * Qᵀ := by
    simp only [transpose_mul, transpose_transpose, diagonal_transpose, Matrix.mul_assoc]
    rw [← Matrix.mul_assoc Zᵀ Z, hZ, Matrix.one_mul]
  rw [e, Matrix.trace_mul_cycle, hQ, Matrix.one_mul, diagonal_mul_diagonal, trace_diagonal]
  apply Finset.sum_congr rfl
  intro k _; ring

/-- **the discarded part**: residual of the truncation and its energy -/
theorem truncation_residual (Q : Matrix m (a ⊕ b) ℝ) (Z : Matrix n (a ⊕ b) ℝ) (s : a ⊕ b → ℝ)
    (hQ : Qᵀ * Q = 1) (hZ : Zᵀ * Z = 1) :
    Q * diagonal s * Zᵀ - keepL Q * diagonal (s ∘ Sum.inl) * (keepL Z)ᵀ
        = dropL Q * diagonal (s ∘ Sum.inr) * (dropL Z)ᵀ
    ∧ fro2 (Q * diagonal s * Zᵀ - keepL Q * diagonal (s ∘ Sum.inl) * (keepL Z)ᵀ) = ∑ k : b, s (Sum.inr k) ^ 2 := by
  have h1 : Q * diagonal s * Zᵀ - keepL Q * diagonal (s ∘ Sum.inl) * (keepL Z)ᵀ
      = dropL Q * diagonal (s ∘ Sum.inr) * (dropL Z)ᵀ := by
    rw [svd_split]; abel
  refine ⟨h1, ?_⟩
  rw [h1, fro2_svd _ _ _ (orth_drop Q hQ) (orth_drop Z hZ)]
  rfl

end PkLA
