import PkLA.Lmi
import PkLA.Ridge
/-! `LmiDmdc._create_base_problem` (after the F-dmdc repair): the problem is posed in the coordinates of the two
truncated SVDs `Ψ ≈ Q̃ Σ̃ Z̃ᵀ` and `Θ₊ ≈ Q̂ Σ̂ Ẑᵀ`.  Generic in the ring for the block (evaluated over ℚ by the
driver), over ℝ for the cost identity. -/
namespace PkLA
open Matrix

variable {rh rt pu pt q : Type} [Fintype rh] [Fintype rt] [Fintype pu] [Fintype pt] [Fintype q]
  [DecidableEq rh] [DecidableEq rt] [DecidableEq pu] [DecidableEq pt] [DecidableEq q]

/-- `Q_bar = block_diag(Q_hat, I)ᵀ Q_tld` -/
def dmdcQbar {R : Type} [CommRing R] (Qh : Matrix pt rh R) (Qt : Matrix (pt ⊕ pu) rt R) : Matrix (rh ⊕ pu) rt R :=
  (fromBlocks Qh 0 0 (1 : Matrix pu pu R))ᵀ * Qt

/-- the data–target cross term `Q̄ Σ̃ Z̃ᵀ Ẑ Σ̂` (UNregularised `Σ̃ = diag(σ̃)/√q`, `Σ̂ = diag(σ̂)/√q`) -/
def dmdcCross {R : Type} [CommRing R] (Qb : Matrix (rh ⊕ pu) rt R) (St : Matrix rt rt R) (Zt : Matrix q rt R)
    (Zh : Matrix q rh R) (Sh : Matrix rh rh R) : Matrix (rh ⊕ pu) rh R :=
  Qb * St * Ztᵀ * Zh * Sh

/-- the constraint block (the code requires it to be `⪯ −ε`):
`[[−Ŵ + Σ̂² − Û C − Cᵀ Ûᵀ, Û Q̄ Σ̃_reg],[(Q̄ Σ̃_reg)ᵀ Ûᵀ, −I]]` -/
def dmdcLmi {R : Type} [CommRing R] (W : Matrix rh rh R) (Sh2 : Matrix rh rh R) (Uh : Matrix rh (rh ⊕ pu) R)
    (C : Matrix (rh ⊕ pu) rh R) (B : Matrix (rh ⊕ pu) rt R) : Matrix (rh ⊕ rt) (rh ⊕ rt) R :=
  fromBlocks (-W + Sh2 - Uh * C - Cᵀ * Uhᵀ) (Uh * B) (Bᵀ * Uhᵀ) (-1)

/-- what the slack `Ŵ` has to dominate -/
def dmdcRhs {R : Type} [CommRing R] (Sh2 : Matrix rh rh R) (Uh : Matrix rh (rh ⊕ pu) R)
    (C : Matrix (rh ⊕ pu) rh R) (B : Matrix (rh ⊕ pu) rt R) : Matrix rh rh R :=
  Sh2 - Uh * C - Cᵀ * Uhᵀ + (Uh * B) * (Uh * B)ᵀ

/-- minus the constraint block is an epigraph block of the `LmiEdmd` form -/
theorem neg_dmdcLmi {R : Type} [CommRing R] (W Sh2 : Matrix rh rh R) (Uh : Matrix rh (rh ⊕ pu) R)
    (C : Matrix (rh ⊕ pu) rh R) (B : Matrix (rh ⊕ pu) rt R) :
    -(dmdcLmi W Sh2 Uh C B) = baseLmi (W - Sh2 + Uh * C + Cᵀ * Uhᵀ) (-Uh) B := by
  unfold dmdcLmi baseLmi
  rw [fromBlocks_neg]
  congr 1
  · abel
  · simp
  · simp
  · simp

/-- **cost identity in SVD coordinates.**  With orthonormal right factors and `Σ̃_reg² = Σ̃² + α I`, the trace of
the tight slack is the projected residual plus the Tikhonov term:
`tr(Σ̂² − ÛC − CᵀÛᵀ + Û Q̄ Σ̃_reg² Q̄ᵀ Ûᵀ) = ‖Σ̂ Ẑᵀ − Û Q̄ Σ̃ Z̃ᵀ‖² + α ‖Û Q̄‖²` -/
theorem dmdc_cost (Qb : Matrix (rh ⊕ pu) rt ℝ) (St Str : Matrix rt rt ℝ) (Sh : Matrix rh rh ℝ)
    (Zt : Matrix q rt ℝ) (Zh : Matrix q rh ℝ) (α : ℝ) (Uh : Matrix rh (rh ⊕ pu) ℝ)
    (hSt : Stᵀ = St) (hSh : Shᵀ = Sh) (hStr : Str * Strᵀ = St * St + α • (1 : Matrix rt rt ℝ))
    (hZt : Ztᵀ * Zt = 1) (hZh : Zhᵀ * Zh = 1) :
    (dmdcRhs (Sh * Sh) Uh (dmdcCross Qb St Zt Zh Sh) (Qb * Str)).trace
      = fro2 (Sh * Zhᵀ - Uh * Qb * St * Ztᵀ) + α * fro2 (Uh * Qb) := by
  unfold dmdcRhs dmdcCross
  rw [fro2_sub]
  unfold fro2
  -- the three pieces
  have e1 : (Sh * Zhᵀ * (Sh * Zhᵀ)ᵀ).trace = (Sh * Sh).trace := by
    rw [transpose_mul, transpose_transpose, hSh]
    have : Sh * Zhᵀ * (Zh * Sh) = Sh * (Zhᵀ * Zh) * Sh := by simp only [Matrix.mul_assoc]
    rw [this, hZh, Matrix.mul_one]
  have e2 : (Uh * Qb * St * Ztᵀ * (Sh * Zhᵀ)ᵀ).trace = (Uh * (Qb * St * Ztᵀ * Zh * Sh)).trace := by
    rw [transpose_mul, transpose_transpose, hSh]
    simp only [Matrix.mul_assoc]
  have e3 : ((Qb * St * Ztᵀ * Zh * Sh)ᵀ * Uhᵀ).trace = (Uh * (Qb * St * Ztᵀ * Zh * Sh)).trace := by
    rw [← transpose_mul, trace_transpose]
  have e4 : (Uh * (Qb * Str) * (Uh * (Qb * Str))ᵀ).trace
      = (Uh * Qb * St * Ztᵀ * (Uh * Qb * St * Ztᵀ)ᵀ).trace + α * (Uh * Qb * (Uh * Qb)ᵀ).trace := by
    have h1 : Uh * (Qb * Str) * (Uh * (Qb * Str))ᵀ = Uh * Qb * (Str * Strᵀ) * (Uh * Qb)ᵀ := by
      simp only [transpose_mul, Matrix.mul_assoc]
    have h2 : Uh * Qb * St * Ztᵀ * (Uh * Qb * St * Ztᵀ)ᵀ = Uh * Qb * (St * St) * (Uh * Qb)ᵀ := by
      simp only [transpose_mul, transpose_transpose, hSt, Matrix.mul_assoc]
      rw [← Matrix.mul_assoc Ztᵀ Zt, hZt, Matrix.one_mul]
    rw [h1, h2, hStr, Matrix.mul_add, Matrix.add_mul, trace_add]
    simp only [Matrix.mul_smul, Matrix.smul_mul, Matrix.mul_one, trace_smul, smul_eq_mul]
  rw [trace_add, trace_sub, trace_sub, e1, e2, e3, e4]
  ring

/-- the projected residual is the residual of the documented cost seen through `Q̂ᵀ`: with `Θ₊ = Q̂ Σ̂ Ẑᵀ`,
`Ψ = Q̃ Σ̃ Z̃ᵀ`, `U = Q̂ Û blkdiag(Q̂, I)ᵀ` and `Q̂ᵀQ̂ = I`:  `Q̂ᵀ(Θ₊ − UΨ) = Σ̂ Ẑᵀ − Û Q̄ Σ̃ Z̃ᵀ` -/
theorem dmdc_residual (Qh : Matrix pt rh ℝ) (Qt : Matrix (pt ⊕ pu) rt ℝ) (St : Matrix rt rt ℝ) (Sh : Matrix rh rh ℝ)
    (Zt : Matrix q rt ℝ) (Zh : Matrix q rh ℝ) (Uh : Matrix rh (rh ⊕ pu) ℝ) (hQh : Qhᵀ * Qh = 1) :
    Qhᵀ * (Qh * Sh * Zhᵀ - (Qh * Uh * (fromBlocks Qh 0 0 (1 : Matrix pu pu ℝ))ᵀ) * (Qt * St * Ztᵀ))
      = Sh * Zhᵀ - Uh * dmdcQbar Qh Qt * St * Ztᵀ := by
  unfold dmdcQbar
  rw [Matrix.mul_sub]
  congr 1
  · rw [← Matrix.mul_assoc, ← Matrix.mul_assoc, hQh, Matrix.one_mul]
  · simp only [← Matrix.mul_assoc]
    rw [hQh, Matrix.one_mul]

end PkLA
