import PkLA.Rff
import PkLA.RffLaplace
import PkLA.RffGaussian
import Mathlib.MeasureTheory.Integral.Pi
import Mathlib.MeasureTheory.Integral.Prod
import Mathlib.MeasureTheory.Measure.Haar.Unique
import Mathlib.Probability.Moments.Variance
import Mathlib.Probability.Moments.SubGaussian
import Mathlib.Analysis.Fourier.Inversion

namespace PkLA
open MeasureTheory Complex

/-- the Laplace distribution (`scipy.stats.laplace`, scale 1) as a measure on `ℝ` -/
noncomputable def μL : Measure ℝ :=
  (volume : Measure ℝ).withDensity (fun w => ENNReal.ofReal (1 / 2 * Real.exp (-|w|)))

theorem laplaceDensity_integrable : Integrable (fun w : ℝ => 1 / 2 * Real.exp (-|w|)) := by
  have h := rff_laplace_mean 0
  simp only [zero_mul, Real.cos_zero, one_mul] at h
  by_contra hn
  rw [integral_undef hn] at h
  norm_num at h

theorem laplaceDensity_integral : ∫ w : ℝ, 1 / 2 * Real.exp (-|w|) = 1 := by
  have h := rff_laplace_mean 0
  simpa using h

instance : IsProbabilityMeasure μL := by
  refine ⟨?_⟩
  rw [μL, withDensity_apply _ MeasurableSet.univ, Measure.restrict_univ,
    ← ofReal_integral_eq_lintegral_ofReal laplaceDensity_integrable
      (Filter.Eventually.of_forall fun w => by positivity),
    laplaceDensity_integral, ENNReal.ofReal_one]

/-- integrals against `μL` are integrals against the density -/
theorem integral_μL (g : ℝ → ℝ) : ∫ w, g w ∂μL = ∫ w : ℝ, g w * (1 / 2 * Real.exp (-|w|)) := by
  rw [μL, integral_withDensity_eq_integral_toReal_smul (by fun_prop)
    (Filter.Eventually.of_forall fun w => ENNReal.ofReal_lt_top)]
  apply integral_congr_ae
  filter_upwards with w
  rw [ENNReal.toReal_ofReal (by positivity), smul_eq_mul, mul_comm]

theorem integral_cos_μL (t : ℝ) : ∫ w, Real.cos (w * t) ∂μL = 1 / (1 + t ^ 2) := by
  rw [integral_μL, ← rff_laplace_mean t]
  simp_rw [mul_comm t]

theorem integral_sin_μL (t : ℝ) : ∫ w, Real.sin (w * t) ∂μL = 0 := by
  rw [integral_μL]
  have h := integral_neg_eq_self (fun w : ℝ => Real.sin (w * t) * (1 / 2 * Real.exp (-|w|))) volume
  simp only [neg_mul, Real.sin_neg, abs_neg] at h
  rw [integral_neg] at h
  linarith

/-- characteristic function of the Laplace distribution -/
theorem integral_cexp_μL (t : ℝ) :
    ∫ w, cexp (((w * t : ℝ) : ℂ) * I) ∂μL = ((1 / (1 + t ^ 2) : ℝ) : ℂ) := by
  have hint : Integrable (fun w : ℝ => cexp (((w * t : ℝ) : ℂ) * I)) μL := by
    apply (integrable_const (1 : ℝ)).mono'
    · exact (by fun_prop : Measurable fun w : ℝ => cexp (((w * t : ℝ) : ℂ) * I)).aestronglyMeasurable
    · filter_upwards with w
      rw [Complex.norm_exp_ofReal_mul_I]
  have hre : (∫ w, cexp (((w * t : ℝ) : ℂ) * I) ∂μL).re = ∫ w, (cexp (((w * t : ℝ) : ℂ) * I)).re ∂μL :=
    (integral_re hint).symm
  have him : (∫ w, cexp (((w * t : ℝ) : ℂ) * I) ∂μL).im = ∫ w, (cexp (((w * t : ℝ) : ℂ) * I)).im ∂μL :=
    (integral_im hint).symm
  simp_rw [Complex.exp_ofReal_mul_I_re] at hre
  simp_rw [Complex.exp_ofReal_mul_I_im] at him
  apply Complex.ext
  · rw [hre, integral_cos_μL, Complex.ofReal_re]
  · rw [him, integral_sin_μL, Complex.ofReal_im]

/-- from the characteristic function of one coordinate to the mean of `cos(Σ_i w_i δ_i)` under independent
coordinates (Fubini for a product of functions of separate coordinates) -/
theorem rff_mean_iid_of_charFun {ι : Type*} [Fintype ι] (μ : Measure ℝ) [IsProbabilityMeasure μ] (φ : ℝ → ℝ)
    (hφ : ∀ t : ℝ, ∫ w, cexp (((w * t : ℝ) : ℂ) * I) ∂μ = ((φ t : ℝ) : ℂ)) (δ : ι → ℝ) :
    ∫ w : ι → ℝ, Real.cos (∑ i, w i * δ i) ∂(Measure.pi fun _ : ι => μ) = ∏ i, φ (δ i) := by
  have e : ∀ w : ι → ℝ, Real.cos (∑ i, w i * δ i)
      = (∏ i, cexp (((w i * δ i : ℝ) : ℂ) * I)).re := by
    intro w
    rw [← Complex.exp_sum, ← Finset.sum_mul, ← Complex.ofReal_sum, Complex.exp_ofReal_mul_I_re]
  have hint : Integrable (fun w : ι → ℝ => ∏ i, cexp (((w i * δ i : ℝ) : ℂ) * I))
      (Measure.pi fun _ : ι => μ) := by
    apply (integrable_const (1 : ℝ)).mono'
      (by fun_prop : Measurable fun w : ι → ℝ => ∏ i, cexp (((w i * δ i : ℝ) : ℂ) * I)).aestronglyMeasurable
    filter_upwards with w
    rw [norm_prod]
    exact le_of_eq (Finset.prod_eq_one fun i _ => Complex.norm_exp_ofReal_mul_I _)
  simp_rw [e]
  have hre : ∫ w : ι → ℝ, (∏ i, cexp (((w i * δ i : ℝ) : ℂ) * I)).re ∂(Measure.pi fun _ : ι => μ)
      = (∫ w : ι → ℝ, ∏ i, cexp (((w i * δ i : ℝ) : ℂ) * I) ∂(Measure.pi fun _ : ι => μ)).re :=
    integral_re hint
  rw [hre,
    integral_fintype_prod_eq_prod (fun i (x : ℝ) => cexp (((x * δ i : ℝ) : ℂ) * I))]
  simp_rw [hφ]
  rw [← Complex.ofReal_prod, Complex.ofReal_re]

/-- **Laplace weights give the (product) Cauchy kernel**, several coordinates: for independent weights `w_i`
with density `½ e^{−|w|}` the mean of `cos(Σ_i w_i δ_i)` is `∏_i 1 / (1 + δ_i²)` -/
theorem rff_laplace_mean_iid {ι : Type*} [Fintype ι] (δ : ι → ℝ) :
    ∫ w : ι → ℝ, Real.cos (∑ i, w i * δ i) ∂(Measure.pi fun _ : ι => μL) = ∏ i, 1 / (1 + (δ i) ^ 2) :=
  rff_mean_iid_of_charFun μL (fun t => 1 / (1 + t ^ 2)) integral_cexp_μL δ

/-- the scaling used by the code (`'cauchy'` ↦ `scipy.stats.laplace`): the mean of
`cos(√(2·shape)·Σ_i w_i (x_i − y_i))` is the product Cauchy kernel `∏_i 1 / (1 + 2·shape·(x_i − y_i)²)` -/
theorem rff_laplace_mean_iid_scaled {ι : Type*} [Fintype ι] (shape : ℝ) (hs : 0 ≤ shape) (x y : ι → ℝ) :
    ∫ w : ι → ℝ, Real.cos (Real.sqrt (2 * shape) * ∑ i, w i * (x i - y i)) ∂(Measure.pi fun _ : ι => μL)
      = ∏ i, 1 / (1 + 2 * shape * (x i - y i) ^ 2) := by
  have h := rff_laplace_mean_iid (fun i => Real.sqrt (2 * shape) * (x i - y i))
  simp_rw [mul_pow, Real.sq_sqrt (by positivity : (0:ℝ) ≤ 2 * shape)] at h
  rw [← h]
  congr 1 with w
  rw [Finset.mul_sum]
  congr 2 with i
  ring

example (a b : ℝ) :
    ∫ w : Fin 2 → ℝ, Real.cos (∑ i, w i * ![a, b] i) ∂(Measure.pi fun _ : Fin 2 => μL)
      = (1 / (1 + a ^ 2)) * (1 / (1 + b ^ 2)) := by
  rw [rff_laplace_mean_iid, Fin.prod_univ_two]; rfl

end PkLA

namespace PkLA
open MeasureTheory ProbabilityTheory

section Concentration
variable {Ω : Type*} [MeasurableSpace Ω] {P : Measure Ω} [IsProbabilityMeasure P]
  {ι : Type*} [Fintype ι]

/-- the mean of `D` pairwise independent variables bounded by `c` has variance at most `c² / D` -/
theorem variance_mean_le [Nonempty ι] (X : ι → Ω → ℝ) (hm : ∀ j, Measurable (X j))
    (hind : Pairwise fun i j => IndepFun (X i) (X j) P)
    (c : ℝ) (hb : ∀ j ω, |X j ω| ≤ c) :
    variance (fun ω => (1 / (Fintype.card ι : ℝ)) * ∑ j, X j ω) P ≤ c ^ 2 / (Fintype.card ι : ℝ) := by
  have hD : (0 : ℝ) < Fintype.card ι := by exact_mod_cast Fintype.card_pos
  have hL2 : ∀ j, MemLp (X j) 2 P := fun j =>
    MemLp.of_bound (hm j).aestronglyMeasurable c (Filter.Eventually.of_forall fun ω => hb j ω)
  have hv : ∀ j, variance (X j) P ≤ c ^ 2 := by
    intro j
    have h := variance_le_sq_of_bounded (μ := P) (a := -c) (b := c) (X := X j)
      (Filter.Eventually.of_forall fun ω => abs_le.1 (hb j ω)) (hm j).aemeasurable
    have e : ((c - -c) / 2) ^ 2 = c ^ 2 := by ring
    rwa [e] at h
  have hsum : variance (∑ j, X j) P = ∑ j, variance (X j) P :=
    IndepFun.variance_sum (fun j _ => hL2 j) (fun i _ j _ hij => hind hij)
  have e : (fun ω => (1 / (Fintype.card ι : ℝ)) * ∑ j, X j ω)
      = fun ω => (1 / (Fintype.card ι : ℝ)) * (∑ j, X j) ω := by
    funext ω; rw [Finset.sum_apply]
  rw [e, variance_const_mul, hsum]
  calc (1 / (Fintype.card ι : ℝ)) ^ 2 * ∑ j, variance (X j) P
      ≤ (1 / (Fintype.card ι : ℝ)) ^ 2 * ∑ _j : ι, c ^ 2 := by
        gcongr with j _
        exact hv j
    _ = c ^ 2 / (Fintype.card ι : ℝ) := by
        rw [Finset.sum_const, Finset.card_univ, nsmul_eq_mul]
        field_simp

/-- **Chebyshev form of the `O(1/√D)` clause.**  The mean of `D` pairwise independent random variables, each
bounded by `c` and with the same expectation `κ`, deviates from `κ` by `ε` or more with probability at most
`c² / (D ε²)`: with probability `≥ 1 − η` the deviation is below `c / √(η D)`. -/
theorem rff_mean_concentration [Nonempty ι] (X : ι → Ω → ℝ) (hm : ∀ j, Measurable (X j))
    (hind : Pairwise fun i j => IndepFun (X i) (X j) P)
    (c κ : ℝ) (hb : ∀ j ω, |X j ω| ≤ c) (hmean : ∀ j, ∫ ω, X j ω ∂P = κ) {ε : ℝ} (hε : 0 < ε) :
    P {ω | ε ≤ |(1 / (Fintype.card ι : ℝ)) * ∑ j, X j ω - κ|}
      ≤ ENNReal.ofReal (c ^ 2 / ((Fintype.card ι : ℝ) * ε ^ 2)) := by
  have hD : (0 : ℝ) < Fintype.card ι := by exact_mod_cast Fintype.card_pos
  have hL2 : ∀ j, MemLp (X j) 2 P := fun j =>
    MemLp.of_bound (hm j).aestronglyMeasurable c (Filter.Eventually.of_forall fun ω => hb j ω)
  have hY : MemLp (fun ω => (1 / (Fintype.card ι : ℝ)) * ∑ j, X j ω) 2 P :=
    (memLp_finsetSum _ fun j _ => hL2 j).const_mul _
  have hE : ∫ ω, (1 / (Fintype.card ι : ℝ)) * ∑ j, X j ω ∂P = κ := by
    rw [integral_const_mul, integral_finsetSum _ fun j _ => (hL2 j).integrable (by norm_num)]
    simp_rw [hmean]
    rw [Finset.sum_const, Finset.card_univ, nsmul_eq_mul]
    field_simp
  have h := meas_ge_le_variance_div_sq hY hε
  rw [hE] at h
  refine h.trans (ENNReal.ofReal_le_ofReal ?_)
  rw [← div_div]
  gcongr
  exact variance_mean_le X hm hind c hb

/-- **Hoeffding form** (fully independent variables): the upper deviation of the mean decays exponentially in `D` -/
theorem rff_mean_hoeffding [Nonempty ι] (X : ι → Ω → ℝ) (hm : ∀ j, Measurable (X j))
    (hind : iIndepFun X P) (c κ : ℝ) (hc : 0 < c) (hb : ∀ j ω, |X j ω| ≤ c)
    (hmean : ∀ j, ∫ ω, X j ω ∂P = κ) {ε : ℝ} (hε : 0 ≤ ε) :
    P.real {ω | ε ≤ (1 / (Fintype.card ι : ℝ)) * ∑ j, X j ω - κ}
      ≤ Real.exp (-((Fintype.card ι : ℝ) * ε ^ 2) / (2 * c ^ 2)) := by
  have hD : (0 : ℝ) < Fintype.card ι := by exact_mod_cast Fintype.card_pos
  have hsub : ∀ j ∈ (Finset.univ : Finset ι),
      HasSubgaussianMGF (fun ω => X j ω - κ) ((‖c - -c‖₊ / 2) ^ 2) P := by
    intro j _
    have h := hasSubgaussianMGF_of_mem_Icc (μ := P) (X := X j) (a := -c) (b := c) (hm j).aemeasurable
      (Filter.Eventually.of_forall fun ω => abs_le.1 (hb j ω))
    rwa [hmean j] at h
  have hind' : iIndepFun (fun j ω => X j ω - κ) P :=
    hind.comp (fun _ x => x - κ) (fun _ => by fun_prop)
  have h := HasSubgaussianMGF.measure_sum_ge_le_of_iIndepFun hind' hsub
    (ε := (Fintype.card ι : ℝ) * ε) (by positivity)
  have hset : {ω | ε ≤ (1 / (Fintype.card ι : ℝ)) * ∑ j, X j ω - κ}
      = {ω | (Fintype.card ι : ℝ) * ε ≤ ∑ j, (X j ω - κ)} := by
    ext ω
    simp only [Set.mem_ofPred_eq, Finset.sum_sub_distrib, Finset.sum_const, Finset.card_univ, nsmul_eq_mul]
    rw [one_div, inv_mul_eq_div, le_sub_iff_add_le, le_div_iff₀ hD, le_sub_iff_add_le]
    constructor <;> intro h <;> linarith
  rw [hset]
  refine h.trans (le_of_eq ?_)
  congr 1
  have e : ((∑ _j : ι, (‖c - -c‖₊ / 2) ^ 2 : NNReal) : ℝ) = (Fintype.card ι : ℝ) * c ^ 2 := by
    rw [Finset.sum_const, Finset.card_univ, nsmul_eq_mul]
    push_cast
    rw [Real.norm_eq_abs, sub_neg_eq_add, abs_of_pos (by linarith)]
    ring
  rw [e]
  field_simp

/-- two-sided Hoeffding form -/
theorem rff_mean_hoeffding_abs [Nonempty ι] (X : ι → Ω → ℝ) (hm : ∀ j, Measurable (X j))
    (hind : iIndepFun X P) (c κ : ℝ) (hc : 0 < c) (hb : ∀ j ω, |X j ω| ≤ c)
    (hmean : ∀ j, ∫ ω, X j ω ∂P = κ) {ε : ℝ} (hε : 0 ≤ ε) :
    P.real {ω | ε ≤ |(1 / (Fintype.card ι : ℝ)) * ∑ j, X j ω - κ|}
      ≤ 2 * Real.exp (-((Fintype.card ι : ℝ) * ε ^ 2) / (2 * c ^ 2)) := by
  have h1 := rff_mean_hoeffding X hm hind c κ hc hb hmean hε
  have h2 := rff_mean_hoeffding (P := P) (fun j ω => -X j ω) (fun j => (hm j).neg)
    (hind.comp (fun _ x => -x) (fun _ => measurable_neg)) c (-κ) hc
    (fun j ω => by rw [abs_neg]; exact hb j ω)
    (fun j => by rw [integral_neg, hmean j]) hε
  have hsub : {ω | ε ≤ |(1 / (Fintype.card ι : ℝ)) * ∑ j, X j ω - κ|}
      ⊆ {ω | ε ≤ (1 / (Fintype.card ι : ℝ)) * ∑ j, X j ω - κ}
        ∪ {ω | ε ≤ (1 / (Fintype.card ι : ℝ)) * ∑ j, -X j ω - -κ} := by
    intro ω hω
    simp only [Set.mem_ofPred_eq, Set.mem_union, Finset.sum_neg_distrib, mul_neg] at hω ⊢
    rcases le_abs'.1 hω with h | h
    · right; linarith
    · left; exact h
  calc P.real {ω | ε ≤ |(1 / (Fintype.card ι : ℝ)) * ∑ j, X j ω - κ|}
      ≤ P.real ({ω | ε ≤ (1 / (Fintype.card ι : ℝ)) * ∑ j, X j ω - κ}
        ∪ {ω | ε ≤ (1 / (Fintype.card ι : ℝ)) * ∑ j, -X j ω - -κ}) := measureReal_mono hsub
    _ ≤ _ := measureReal_union_le _ _
    _ ≤ _ := by linarith

end Concentration

section IID
variable {E : Type*} [MeasurableSpace E] (ν : Measure E) [IsProbabilityMeasure ν]

/-- `D` independent draws `W_1 … W_D` from `ν` (the rows of the weight matrix): the average of a statistic `g`
bounded by `c` with mean `κ` - Chebyshev form -/
theorem rff_iid_concentration (D : ℕ) [NeZero D] (g : E → ℝ) (hg : Measurable g) (c κ : ℝ)
    (hb : ∀ w, |g w| ≤ c) (hmean : ∫ w, g w ∂ν = κ) {ε : ℝ} (hε : 0 < ε) :
    (Measure.pi fun _ : Fin D => ν) {W | ε ≤ |(1 / (D : ℝ)) * ∑ j, g (W j) - κ|}
      ≤ ENNReal.ofReal (c ^ 2 / ((D : ℝ) * ε ^ 2)) := by
  have : Nonempty (Fin D) := ⟨0⟩
  have hind : iIndepFun (fun (j : Fin D) (W : Fin D → E) => g (W j)) (Measure.pi fun _ : Fin D => ν) :=
    iIndepFun_pi (X := fun _ => g) (fun _ => hg.aemeasurable)
  have h := rff_mean_concentration (P := Measure.pi fun _ : Fin D => ν)
    (fun (j : Fin D) (W : Fin D → E) => g (W j)) (fun j => hg.comp (measurable_pi_apply j))
    (fun i j hij => hind.indepFun hij) c κ (fun j W => hb (W j))
    (fun j => by
      rw [integral_comp_eval (μ := fun _ : Fin D => ν) (i := j) hg.aestronglyMeasurable, hmean]) hε
  rwa [Fintype.card_fin] at h

/-- the same in Hoeffding form -/
theorem rff_iid_hoeffding (D : ℕ) [NeZero D] (g : E → ℝ) (hg : Measurable g) (c κ : ℝ) (hc : 0 < c)
    (hb : ∀ w, |g w| ≤ c) (hmean : ∫ w, g w ∂ν = κ) {ε : ℝ} (hε : 0 ≤ ε) :
    (Measure.pi fun _ : Fin D => ν).real {W | ε ≤ |(1 / (D : ℝ)) * ∑ j, g (W j) - κ|}
      ≤ 2 * Real.exp (-((D : ℝ) * ε ^ 2) / (2 * c ^ 2)) := by
  have : Nonempty (Fin D) := ⟨0⟩
  have hind : iIndepFun (fun (j : Fin D) (W : Fin D → E) => g (W j)) (Measure.pi fun _ : Fin D => ν) :=
    iIndepFun_pi (X := fun _ => g) (fun _ => hg.aemeasurable)
  have h := rff_mean_hoeffding_abs (P := Measure.pi fun _ : Fin D => ν)
    (fun (j : Fin D) (W : Fin D → E) => g (W j)) (fun j => hg.comp (measurable_pi_apply j))
    hind c κ hc (fun j W => hb (W j))
    (fun j => by
      rw [integral_comp_eval (μ := fun _ : Fin D => ν) (i := j) hg.aestronglyMeasurable, hmean]) hε
  rwa [Fintype.card_fin] at h

end IID

section Kernels
variable {ι : Type*} [Fintype ι]

/-- **`'cauchy'` features (`scipy.stats.laplace` weights), `weight_only`, end to end**: with a `D × n` weight matrix
of independent Laplace entries, the feature inner product `(1/D) Σ_j cos(√(2·shape)·⟨W_j, x − y⟩)` is within `ε` of
the product Cauchy kernel except with probability at most `1 / (D ε²)` -/
theorem rff_cauchy_kernel_concentration (D : ℕ) [NeZero D] (shape : ℝ) (hs : 0 ≤ shape) (x y : ι → ℝ)
    {ε : ℝ} (hε : 0 < ε) :
    (Measure.pi fun _ : Fin D => Measure.pi fun _ : ι => μL)
      {W | ε ≤ |(1 / (D : ℝ)) * ∑ j, Real.cos (Real.sqrt (2 * shape) * ∑ i, W j i * (x i - y i))
                - ∏ i, 1 / (1 + 2 * shape * (x i - y i) ^ 2)|}
      ≤ ENNReal.ofReal (1 / ((D : ℝ) * ε ^ 2)) := by
  have h := rff_iid_concentration (Measure.pi fun _ : ι => μL) D
    (fun w : ι → ℝ => Real.cos (Real.sqrt (2 * shape) * ∑ i, w i * (x i - y i))) (by fun_prop) 1 _
    (fun w => Real.abs_cos_le_one _) (rff_laplace_mean_iid_scaled shape hs x y) hε
  rwa [one_pow] at h

/-- the same with the exponential (Hoeffding) bound -/
theorem rff_cauchy_kernel_hoeffding (D : ℕ) [NeZero D] (shape : ℝ) (hs : 0 ≤ shape) (x y : ι → ℝ)
    {ε : ℝ} (hε : 0 ≤ ε) :
    (Measure.pi fun _ : Fin D => Measure.pi fun _ : ι => μL).real
      {W | ε ≤ |(1 / (D : ℝ)) * ∑ j, Real.cos (Real.sqrt (2 * shape) * ∑ i, W j i * (x i - y i))
                - ∏ i, 1 / (1 + 2 * shape * (x i - y i) ^ 2)|}
      ≤ 2 * Real.exp (-((D : ℝ) * ε ^ 2) / 2) := by
  have h := rff_iid_hoeffding (Measure.pi fun _ : ι => μL) D
    (fun w : ι → ℝ => Real.cos (Real.sqrt (2 * shape) * ∑ i, w i * (x i - y i))) (by fun_prop) 1 _
    one_pos (fun w => Real.abs_cos_le_one _) (rff_laplace_mean_iid_scaled shape hs x y) hε
  rwa [one_pow, mul_one] at h

/-- **`'gaussian'` features (`scipy.stats.norm` weights), `weight_only`, end to end** -/
theorem rff_gaussian_kernel_concentration (D : ℕ) [NeZero D] (shape : ℝ) (hs : 0 ≤ shape) (x y : ι → ℝ)
    {ε : ℝ} (hε : 0 < ε) :
    (Measure.pi fun _ : Fin D => Measure.pi fun _ : ι => gaussianReal 0 1)
      {W | ε ≤ |(1 / (D : ℝ)) * ∑ j, Real.cos (Real.sqrt (2 * shape) * ∑ i, W j i * (x i - y i))
                - Real.exp (-(shape * ∑ i, (x i - y i) ^ 2))|}
      ≤ ENNReal.ofReal (1 / ((D : ℝ) * ε ^ 2)) := by
  have h := rff_iid_concentration (Measure.pi fun _ : ι => gaussianReal 0 1) D
    (fun w : ι → ℝ => Real.cos (Real.sqrt (2 * shape) * ∑ i, w i * (x i - y i))) (by fun_prop) 1 _
    (fun w => Real.abs_cos_le_one _) (rff_gaussian_mean_iid shape hs fun i => x i - y i) hε
  rwa [one_pow] at h

/-- the same with the exponential (Hoeffding) bound -/
theorem rff_gaussian_kernel_hoeffding (D : ℕ) [NeZero D] (shape : ℝ) (hs : 0 ≤ shape) (x y : ι → ℝ)
    {ε : ℝ} (hε : 0 ≤ ε) :
    (Measure.pi fun _ : Fin D => Measure.pi fun _ : ι => gaussianReal 0 1).real
      {W | ε ≤ |(1 / (D : ℝ)) * ∑ j, Real.cos (Real.sqrt (2 * shape) * ∑ i, W j i * (x i - y i))
                - Real.exp (-(shape * ∑ i, (x i - y i) ^ 2))|}
      ≤ 2 * Real.exp (-((D : ℝ) * ε ^ 2) / 2) := by
  have h := rff_iid_hoeffding (Measure.pi fun _ : ι => gaussianReal 0 1) D
    (fun w : ι → ℝ => Real.cos (Real.sqrt (2 * shape) * ∑ i, w i * (x i - y i))) (by fun_prop) 1 _
    one_pos (fun w => Real.abs_cos_le_one _) (rff_gaussian_mean_iid shape hs fun i => x i - y i) hε
  rwa [one_pow, mul_one] at h

end Kernels

/-- `weight_offset`: the products `2 cos(·) cos(·)` lie in `[−2, 2]`, so `c = 2` -/
theorem abs_two_cos_mul_cos_le (a b : ℝ) : |2 * Real.cos a * Real.cos b| ≤ 2 := by
  rw [abs_mul, abs_mul, abs_two]
  have h1 := Real.abs_cos_le_one a
  have h2 := Real.abs_cos_le_one b
  have h3 := abs_nonneg (Real.cos a)
  have h4 := abs_nonneg (Real.cos b)
  nlinarith

/-- `weight_offset` instance of the Chebyshev form (`c = 2`): bound `4 / (D ε²)` -/
theorem rff_iid_concentration_offset {E : Type*} [MeasurableSpace E] (ν : Measure E) [IsProbabilityMeasure ν]
    (D : ℕ) [NeZero D] (p q : E → ℝ) (hp : Measurable p) (hq : Measurable q) (κ : ℝ)
    (hmean : ∫ w, 2 * Real.cos (p w) * Real.cos (q w) ∂ν = κ) {ε : ℝ} (hε : 0 < ε) :
    (Measure.pi fun _ : Fin D => ν)
      {W | ε ≤ |(1 / (D : ℝ)) * ∑ j, 2 * Real.cos (p (W j)) * Real.cos (q (W j)) - κ|}
      ≤ ENNReal.ofReal (4 / ((D : ℝ) * ε ^ 2)) := by
  have h := rff_iid_concentration ν D (fun w => 2 * Real.cos (p w) * Real.cos (q w)) (by fun_prop) 2 κ
    (fun w => abs_two_cos_mul_cos_le _ _) hmean hε
  have e : (2 : ℝ) ^ 2 = 4 := by norm_num
  rwa [e] at h

example (x y : Fin 2 → ℝ) :
    (Measure.pi fun _ : Fin 100 => Measure.pi fun _ : Fin 2 => μL)
      {W | (1/2 : ℝ) ≤ |(1 / ((100 : ℕ) : ℝ)) * ∑ j, Real.cos (Real.sqrt (2 * 1) * ∑ i, W j i * (x i - y i))
                - ∏ i, 1 / (1 + 2 * 1 * (x i - y i) ^ 2)|}
      ≤ ENNReal.ofReal (1 / (((100 : ℕ) : ℝ) * (1/2 : ℝ) ^ 2)) :=
  rff_cauchy_kernel_concentration 100 1 zero_le_one x y (by norm_num)

example {Ω : Type*} [MeasurableSpace Ω] (P : Measure Ω) [IsProbabilityMeasure P] (X : Fin 2 → Ω → ℝ)
    (hm : ∀ j, Measurable (X j)) (hind : IndepFun (X 0) (X 1) P) (hb : ∀ j ω, |X j ω| ≤ 1)
    (κ : ℝ) (hmean : ∀ j, ∫ ω, X j ω ∂P = κ) :
    P {ω | 1 ≤ |(1 / ((Fintype.card (Fin 2) : ℕ) : ℝ)) * ∑ j, X j ω - κ|}
      ≤ ENNReal.ofReal (1 ^ 2 / (((Fintype.card (Fin 2) : ℕ) : ℝ) * 1 ^ 2)) := by
  refine rff_mean_concentration X hm ?_ 1 κ hb hmean one_pos
  intro i j hij
  fin_cases i <;> fin_cases j
  · exact absurd rfl hij
  · exact hind
  · exact hind.symm
  · exact absurd rfl hij

end PkLA
namespace PkLA
open MeasureTheory Complex
open scoped FourierTransform

section CauchyWeights

/-- the two-sided exponential `e^{−|x|}` as a complex-valued function -/
noncomputable def expNegAbs (x : ℝ) : ℂ := ((Real.exp (-|x|) : ℝ) : ℂ)

theorem expNegAbs_continuous : Continuous expNegAbs := by
  unfold expNegAbs
  exact Complex.continuous_ofReal.comp (Real.continuous_exp.comp continuous_abs.neg)

theorem expNegAbs_integrable : Integrable expNegAbs := by
  have h := (laplaceDensity_integrable.const_mul 2).ofReal (𝕜 := ℂ)
  refine h.congr (Filter.Eventually.of_forall fun x => ?_)
  have e : 2 * (1 / 2 * Real.exp (-|x|)) = Real.exp (-|x|) := by ring
  simp only [e]
  rfl

/-- `∫ e^{i s x} e^{−|x|} dx = 2 / (1 + s²)` -/
theorem integral_cexp_mul_expNegAbs (s : ℝ) :
    ∫ x : ℝ, cexp (((x * s : ℝ) : ℂ) * I) • expNegAbs x = ((2 / (1 + s ^ 2) : ℝ) : ℂ) := by
  have h := integral_cexp_μL s
  rw [μL, integral_withDensity_eq_integral_toReal_smul (by fun_prop)
    (Filter.Eventually.of_forall fun w => ENNReal.ofReal_lt_top)] at h
  have e : ∀ x : ℝ, cexp (((x * s : ℝ) : ℂ) * I) • expNegAbs x
      = (2 : ℂ) * ((ENNReal.ofReal (1 / 2 * Real.exp (-|x|))).toReal • cexp (((x * s : ℝ) : ℂ) * I)) := by
    intro x
    rw [ENNReal.toReal_ofReal (by positivity), expNegAbs, smul_eq_mul, Complex.real_smul]
    push_cast
    ring
  simp_rw [e]
  rw [integral_const_mul, h]
  push_cast
  ring

theorem fourier_expNegAbs (ξ : ℝ) :
    𝓕 expNegAbs ξ = ((2 / (1 + (2 * Real.pi * ξ) ^ 2) : ℝ) : ℂ) := by
  rw [Real.fourier_real_eq_integral_exp_smul]
  have h := integral_cexp_mul_expNegAbs (-(2 * Real.pi * ξ))
  rw [neg_sq] at h
  rw [← h]
  congr 1 with x
  congr 4
  ring

theorem fourier_expNegAbs_integrable : Integrable (𝓕 expNegAbs) := by
  have h1 : Integrable (fun ξ : ℝ => (1 + (2 * Real.pi * ξ) ^ 2)⁻¹) :=
    integrable_inv_one_add_sq.comp_mul_left' (by positivity : (2 * Real.pi) ≠ 0)
  have h2 := (h1.const_mul 2).ofReal (𝕜 := ℂ)
  refine h2.congr (Filter.Eventually.of_forall fun ξ => ?_)
  simp only [fourier_expNegAbs]
  congr 1

/-- Fourier inversion for `e^{−|x|}`: `∫ e^{i t w} · 2/(1+w²) dw = 2π e^{−|t|}` -/
theorem integral_cexp_mul_cauchy (t : ℝ) :
    ∫ w : ℝ, cexp (((w * t : ℝ) : ℂ) * I) • ((2 / (1 + w ^ 2) : ℝ) : ℂ)
      = ((2 * Real.pi * Real.exp (-|t|) : ℝ) : ℂ) := by
  have hinv := expNegAbs_integrable.fourierInv_fourier_eq fourier_expNegAbs_integrable
    (expNegAbs_continuous.continuousAt (x := t))
  rw [Real.fourierInv_eq'] at hinv
  have hcv := Measure.integral_comp_mul_left
    (fun w : ℝ => cexp (((w * t : ℝ) : ℂ) * I) • ((2 / (1 + w ^ 2) : ℝ) : ℂ)) (2 * Real.pi)
  have e : ∀ v : ℝ, cexp (((2 * Real.pi * inner ℝ v t : ℝ) : ℂ) * I) • 𝓕 expNegAbs v
      = cexp (((2 * Real.pi * v * t : ℝ) : ℂ) * I) • ((2 / (1 + (2 * Real.pi * v) ^ 2) : ℝ) : ℂ) := by
    intro v
    rw [fourier_expNegAbs]
    congr 4
    simp only [RCLike.inner_apply, conj_trivial]
    ring
  simp_rw [e] at hinv
  rw [hinv] at hcv
  have hpos : (0 : ℝ) < 2 * Real.pi := by positivity
  rw [abs_of_pos (inv_pos.2 hpos)] at hcv
  have : (∫ w : ℝ, cexp (((w * t : ℝ) : ℂ) * I) • ((2 / (1 + w ^ 2) : ℝ) : ℂ))
      = (2 * Real.pi) • expNegAbs t := by
    rw [hcv, smul_smul, mul_inv_cancel₀ hpos.ne', one_smul]
  rw [this, expNegAbs, Complex.real_smul]
  push_cast
  ring

/-- **Cauchy weights give the Laplacian kernel** (one coordinate): for `w` with the standard Cauchy density
`1 / (π (1 + w²))` (`scipy.stats.cauchy`), the mean of `cos(t w)` is `e^{−|t|}` -/
theorem rff_cauchy_mean (t : ℝ) :
    ∫ w : ℝ, Real.cos (t * w) * (1 / (Real.pi * (1 + w ^ 2))) = Real.exp (-|t|) := by
  have h := integral_cexp_mul_cauchy t
  have hne : (((2 * Real.pi * Real.exp (-|t|) : ℝ) : ℂ)) ≠ 0 := by
    exact_mod_cast (by positivity : (2 * Real.pi * Real.exp (-|t|) : ℝ) ≠ 0)
  have hint : Integrable (fun w : ℝ => cexp (((w * t : ℝ) : ℂ) * I) • ((2 / (1 + w ^ 2) : ℝ) : ℂ)) := by
    by_contra hn
    rw [integral_undef hn] at h
    exact hne h.symm
  have hre := congrArg Complex.re h
  have e1 : (∫ w : ℝ, cexp (((w * t : ℝ) : ℂ) * I) • ((2 / (1 + w ^ 2) : ℝ) : ℂ)).re
      = ∫ w : ℝ, (cexp (((w * t : ℝ) : ℂ) * I) • ((2 / (1 + w ^ 2) : ℝ) : ℂ)).re := (integral_re hint).symm
  rw [e1, Complex.ofReal_re] at hre
  have e2 : ∀ w : ℝ, (cexp (((w * t : ℝ) : ℂ) * I) • ((2 / (1 + w ^ 2) : ℝ) : ℂ)).re
      = (2 * Real.pi) * (Real.cos (t * w) * (1 / (Real.pi * (1 + w ^ 2)))) := by
    intro w
    rw [smul_eq_mul, Complex.re_mul_ofReal, Complex.exp_ofReal_mul_I_re, mul_comm w t]
    have : (1 + w ^ 2) ≠ 0 := by positivity
    field_simp
  simp_rw [e2] at hre
  rw [integral_const_mul] at hre
  have hpos : (0 : ℝ) < 2 * Real.pi := by positivity
  exact mul_left_cancel₀ hpos.ne' (by rw [hre])

/-- the standard Cauchy distribution (`scipy.stats.cauchy`) as a measure on `ℝ` -/
noncomputable def μC : Measure ℝ :=
  (volume : Measure ℝ).withDensity (fun w => ENNReal.ofReal (1 / (Real.pi * (1 + w ^ 2))))

theorem cauchyDensity_integral : ∫ w : ℝ, 1 / (Real.pi * (1 + w ^ 2)) = 1 := by
  have h := rff_cauchy_mean 0
  simpa using h

theorem cauchyDensity_integrable : Integrable (fun w : ℝ => 1 / (Real.pi * (1 + w ^ 2))) := by
  by_contra hn
  have h := cauchyDensity_integral
  rw [integral_undef hn] at h
  norm_num at h

instance : IsProbabilityMeasure μC := by
  refine ⟨?_⟩
  rw [μC, withDensity_apply _ MeasurableSet.univ, Measure.restrict_univ,
    ← ofReal_integral_eq_lintegral_ofReal cauchyDensity_integrable
      (Filter.Eventually.of_forall fun w => by positivity),
    cauchyDensity_integral, ENNReal.ofReal_one]

/-- characteristic function of the standard Cauchy distribution -/
theorem integral_cexp_μC (t : ℝ) :
    ∫ w, cexp (((w * t : ℝ) : ℂ) * I) ∂μC = ((Real.exp (-|t|) : ℝ) : ℂ) := by
  rw [μC, integral_withDensity_eq_integral_toReal_smul (by fun_prop)
    (Filter.Eventually.of_forall fun w => ENNReal.ofReal_lt_top)]
  have e : ∀ w : ℝ, (ENNReal.ofReal (1 / (Real.pi * (1 + w ^ 2)))).toReal • cexp (((w * t : ℝ) : ℂ) * I)
      = (((2 * Real.pi)⁻¹ : ℝ) : ℂ) * (cexp (((w * t : ℝ) : ℂ) * I) • ((2 / (1 + w ^ 2) : ℝ) : ℂ)) := by
    intro w
    rw [ENNReal.toReal_ofReal (by positivity), smul_eq_mul, Complex.real_smul]
    have h1 : ((1 + w ^ 2 : ℝ) : ℂ) ≠ 0 := by exact_mod_cast (by positivity : (1 + w ^ 2 : ℝ) ≠ 0)
    have h2 : ((Real.pi : ℝ) : ℂ) ≠ 0 := by exact_mod_cast Real.pi_ne_zero
    push_cast at h1 ⊢
    field_simp
  simp_rw [e]
  rw [integral_const_mul, integral_cexp_mul_cauchy]
  have h2 : ((Real.pi : ℝ) : ℂ) ≠ 0 := by exact_mod_cast Real.pi_ne_zero
  push_cast
  field_simp

/-- **Cauchy weights give the Laplacian kernel**, several coordinates: for independent standard Cauchy weights
the mean of `cos(Σ_i w_i δ_i)` is `exp(−Σ_i |δ_i|)` -/
theorem rff_cauchy_mean_iid {ι : Type*} [Fintype ι] (δ : ι → ℝ) :
    ∫ w : ι → ℝ, Real.cos (∑ i, w i * δ i) ∂(Measure.pi fun _ : ι => μC) = Real.exp (-∑ i, |δ i|) := by
  rw [rff_mean_iid_of_charFun μC (fun t => Real.exp (-|t|)) integral_cexp_μC δ, ← Real.exp_sum,
    Finset.sum_neg_distrib]

/-- the scaling used by the code (`'laplacian'` ↦ `scipy.stats.cauchy`): the mean of
`cos(√(2·shape)·Σ_i w_i (x_i − y_i))` is the Laplacian kernel `exp(−√(2·shape)·‖x − y‖₁)` -/
theorem rff_cauchy_mean_iid_scaled {ι : Type*} [Fintype ι] (shape : ℝ) (x y : ι → ℝ) :
    ∫ w : ι → ℝ, Real.cos (Real.sqrt (2 * shape) * ∑ i, w i * (x i - y i)) ∂(Measure.pi fun _ : ι => μC)
      = Real.exp (-(Real.sqrt (2 * shape) * ∑ i, |x i - y i|)) := by
  have h := rff_cauchy_mean_iid (fun i => Real.sqrt (2 * shape) * (x i - y i))
  simp_rw [abs_mul, abs_of_nonneg (Real.sqrt_nonneg _), ← Finset.mul_sum] at h
  rw [← h]
  congr 1 with w
  rw [Finset.mul_sum]
  congr 2 with i
  ring

/-- **`'laplacian'` features (`scipy.stats.cauchy` weights), `weight_only`, end to end** -/
theorem rff_laplacian_kernel_concentration {ι : Type*} [Fintype ι] (D : ℕ) [NeZero D] (shape : ℝ)
    (x y : ι → ℝ) {ε : ℝ} (hε : 0 < ε) :
    (Measure.pi fun _ : Fin D => Measure.pi fun _ : ι => μC)
      {W | ε ≤ |(1 / (D : ℝ)) * ∑ j, Real.cos (Real.sqrt (2 * shape) * ∑ i, W j i * (x i - y i))
                - Real.exp (-(Real.sqrt (2 * shape) * ∑ i, |x i - y i|))|}
      ≤ ENNReal.ofReal (1 / ((D : ℝ) * ε ^ 2)) := by
  have h := rff_iid_concentration (Measure.pi fun _ : ι => μC) D
    (fun w : ι → ℝ => Real.cos (Real.sqrt (2 * shape) * ∑ i, w i * (x i - y i))) (by fun_prop) 1 _
    (fun w => Real.abs_cos_le_one _) (rff_cauchy_mean_iid_scaled shape x y) hε
  rwa [one_pow] at h

/-- the same with the exponential (Hoeffding) bound -/
theorem rff_laplacian_kernel_hoeffding {ι : Type*} [Fintype ι] (D : ℕ) [NeZero D] (shape : ℝ)
    (x y : ι → ℝ) {ε : ℝ} (hε : 0 ≤ ε) :
    (Measure.pi fun _ : Fin D => Measure.pi fun _ : ι => μC).real
      {W | ε ≤ |(1 / (D : ℝ)) * ∑ j, Real.cos (Real.sqrt (2 * shape) * ∑ i, W j i * (x i - y i))
                - Real.exp (-(Real.sqrt (2 * shape) * ∑ i, |x i - y i|))|}
      ≤ 2 * Real.exp (-((D : ℝ) * ε ^ 2) / 2) := by
  have h := rff_iid_hoeffding (Measure.pi fun _ : ι => μC) D
    (fun w : ι → ℝ => Real.cos (Real.sqrt (2 * shape) * ∑ i, w i * (x i - y i))) (by fun_prop) 1 _
    one_pos (fun w => Real.abs_cos_le_one _) (rff_cauchy_mean_iid_scaled shape x y) hε
  rwa [one_pow, mul_one] at h

example : ∫ w : ℝ, Real.cos (3 * w) * (1 / (Real.pi * (1 + w ^ 2))) = Real.exp (-3) := by
  rw [rff_cauchy_mean, abs_of_pos (by norm_num : (0:ℝ) < 3)]

example (a b : ℝ) :
    ∫ w : Fin 2 → ℝ, Real.cos (∑ i, w i * ![a, b] i) ∂(Measure.pi fun _ : Fin 2 => μC)
      = Real.exp (-(|a| + |b|)) := by
  rw [rff_cauchy_mean_iid, Fin.sum_univ_two]; rfl

end CauchyWeights

section Offset

/-- the uniform distribution on `(0, 2π]` of the offsets (`weight_offset`) -/
noncomputable def μU : Measure ℝ :=
  ENNReal.ofReal (1 / (2 * Real.pi)) • (volume : Measure ℝ).restrict (Set.Ioc 0 (2 * Real.pi))

instance : IsProbabilityMeasure μU := by
  refine ⟨?_⟩
  have hpos : (0 : ℝ) < 2 * Real.pi := by positivity
  rw [μU, Measure.smul_apply, Measure.restrict_apply MeasurableSet.univ, Set.univ_inter, Real.volume_Ioc,
    smul_eq_mul, ← ENNReal.ofReal_mul (by positivity), sub_zero, one_div, inv_mul_cancel₀ hpos.ne',
    ENNReal.ofReal_one]

theorem integral_μU (f : ℝ → ℝ) :
    ∫ b, f b ∂μU = (1 / (2 * Real.pi)) * ∫ b in (0:ℝ)..(2 * Real.pi), f b := by
  rw [μU, integral_smul_measure, ENNReal.toReal_ofReal (by positivity),
    intervalIntegral.integral_of_le (by positivity), smul_eq_mul]

/-- **`weight_offset` is unbiased for the same kernel**: averaging over an independent uniform offset turns the
product `√2 cos(p+b) · √2 cos(q+b)` into `cos(p − q)`, whatever the distribution of the weights -/
theorem rff_offset_mean {E : Type*} [MeasurableSpace E] (ν : Measure E) [IsProbabilityMeasure ν]
    (p q : E → ℝ) (hp : Measurable p) (hq : Measurable q) :
    ∫ z : E × ℝ, 2 * Real.cos (p z.1 + z.2) * Real.cos (q z.1 + z.2) ∂(ν.prod μU)
      = ∫ w, Real.cos (p w - q w) ∂ν := by
  rw [integral_prod]
  · congr 1 with w
    rw [integral_μU]
    dsimp only
    rw [rff_offset_average]
    field_simp
  · apply (integrable_const (2 : ℝ)).mono'
      (by fun_prop : Measurable fun z : E × ℝ =>
        2 * Real.cos (p z.1 + z.2) * Real.cos (q z.1 + z.2)).aestronglyMeasurable
    filter_upwards with z
    exact abs_two_cos_mul_cos_le _ _

/-- **`weight_offset`, end to end**: `D` independent (weight row, offset) pairs; if the weight distribution `ν`
makes `cos(s·⟨w, x − y⟩)` have mean `κ` (the kernel value: `rff_gaussian_mean_iid`, `rff_laplace_mean_iid_scaled`,
`rff_cauchy_mean_iid_scaled`), the feature inner product `(1/D) Σ_j 2 cos(s⟨W_j,x⟩+b_j) cos(s⟨W_j,y⟩+b_j)` is within
`ε` of `κ` except with probability at most `4 / (D ε²)` -/
theorem rff_offset_concentration {ι : Type*} [Fintype ι] (ν : Measure (ι → ℝ)) [IsProbabilityMeasure ν]
    (D : ℕ) [NeZero D] (s : ℝ) (x y : ι → ℝ) (κ : ℝ)
    (hκ : ∫ w : ι → ℝ, Real.cos (s * ∑ i, w i * (x i - y i)) ∂ν = κ) {ε : ℝ} (hε : 0 < ε) :
    (Measure.pi fun _ : Fin D => ν.prod μU)
      {Z | ε ≤ |(1 / (D : ℝ)) * ∑ j, 2 * Real.cos (s * ∑ i, (Z j).1 i * x i + (Z j).2)
                    * Real.cos (s * ∑ i, (Z j).1 i * y i + (Z j).2) - κ|}
      ≤ ENNReal.ofReal (4 / ((D : ℝ) * ε ^ 2)) := by
  refine rff_iid_concentration_offset (ν.prod μU) D
    (fun z : (ι → ℝ) × ℝ => s * ∑ i, z.1 i * x i + z.2) (fun z : (ι → ℝ) × ℝ => s * ∑ i, z.1 i * y i + z.2)
    (by fun_prop) (by fun_prop) κ ?_ hε
  have h := rff_offset_mean ν (fun w : ι → ℝ => s * ∑ i, w i * x i) (fun w : ι → ℝ => s * ∑ i, w i * y i)
    (by fun_prop) (by fun_prop)
  rw [h, ← hκ]
  congr 1 with w
  rw [← mul_sub, ← Finset.sum_sub_distrib]
  congr 3 with i
  ring

example (shape : ℝ) (hs : 0 ≤ shape) (x y : Fin 3 → ℝ) :
    (Measure.pi fun _ : Fin 50 => (Measure.pi fun _ : Fin 3 => ProbabilityTheory.gaussianReal 0 1).prod μU)
      {Z | (1/10 : ℝ) ≤ |(1 / ((50 : ℕ) : ℝ)) * ∑ j, 2 * Real.cos (Real.sqrt (2 * shape) * ∑ i, (Z j).1 i * x i + (Z j).2)
                    * Real.cos (Real.sqrt (2 * shape) * ∑ i, (Z j).1 i * y i + (Z j).2)
                  - Real.exp (-(shape * ∑ i, (x i - y i) ^ 2))|}
      ≤ ENNReal.ofReal (4 / (((50 : ℕ) : ℝ) * (1/10 : ℝ) ^ 2)) :=
  rff_offset_concentration _ 50 _ x y _ (rff_gaussian_mean_iid shape hs fun i => x i - y i) (by norm_num)

end Offset

end PkLA
