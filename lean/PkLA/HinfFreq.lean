import PkLA.BoundedReal
import PkLA.SpectralRadius
import Mathlib.Analysis.Complex.Basic
import Mathlib.LinearAlgebra.Matrix.NonsingularInverse
import Mathlib.LinearAlgebra.Matrix.ToLinearEquiv

namespace PkLA
open Matrix

variable {n m k : Type} [Fintype n] [Fintype m] [Fintype k] [DecidableEq n] [DecidableEq m] [DecidableEq k]

/-- a rotation of a pair of vectors leaves the sum of their storage values unchanged -/
theorem W_rot (P : Matrix n n ℝ) (c s : ℝ) (hcs : c^2 + s^2 = 1) (x y : n → ℝ) :
    W P (c • x - s • y) + W P (s • x + c • y) = W P x + W P y := by
  have : W P (c • x - s • y) + W P (s • x + c • y) = (c^2 + s^2) * (W P x + W P y) := by
    simp only [W, mulVec_sub, mulVec_add, mulVec_smul, dotProduct_sub, dotProduct_add, sub_dotProduct,
      add_dotProduct, smul_dotProduct, dotProduct_smul, smul_eq_mul]
    ring
  rw [this, hcs, one_mul]

/-- **frequency-domain form of the bounded-real lemma, real and imaginary parts.**  If `(xr + i·xi, ur + i·ui)` solves
the state equation at the point `z = c + i·s` of the unit circle, `z x = A x + B u`, then the output
`y = C x + D u` satisfies `‖y‖² ≤ γ² ‖u‖²`. -/
theorem brl_freq_real (P A : Matrix n n ℝ) (B : Matrix n m ℝ) (C : Matrix k n ℝ) (D : Matrix k m ℝ)
    (γ : ℝ) (hγ : 0 < γ) (hP : Pᵀ = P) (hPu : IsUnit P.det) (h : (brlLMI P A B C D γ).PosDef)
    (c s : ℝ) (hcs : c^2 + s^2 = 1) (xr xi : n → ℝ) (ur ui : m → ℝ)
    (hr : A *ᵥ xr + B *ᵥ ur = c • xr - s • xi) (hi : A *ᵥ xi + B *ᵥ ui = s • xr + c • xi) :
    (C *ᵥ xr + D *ᵥ ur) ⬝ᵥ (C *ᵥ xr + D *ᵥ ur) + (C *ᵥ xi + D *ᵥ ui) ⬝ᵥ (C *ᵥ xi + D *ᵥ ui)
      ≤ γ^2 * (ur ⬝ᵥ ur + ui ⬝ᵥ ui) := by
  have d1 := brl_dissipation P A B C D γ hγ hP hPu h xr ur
  have d2 := brl_dissipation P A B C D γ hγ hP hPu h xi ui
  rw [hr] at d1
  rw [hi] at d2
  have rot := W_rot P c s hcs xr xi
  set Y := (C *ᵥ xr + D *ᵥ ur) ⬝ᵥ (C *ᵥ xr + D *ᵥ ur) + (C *ᵥ xi + D *ᵥ ui) ⬝ᵥ (C *ᵥ xi + D *ᵥ ui) with hY
  set U := ur ⬝ᵥ ur + ui ⬝ᵥ ui with hU
  have hginv : 0 < γ⁻¹ := inv_pos.mpr hγ
  have key : γ⁻¹ * Y ≤ γ * U := by
    rw [hY, hU, mul_add, mul_add]; linarith
  have h2 := mul_le_mul_of_nonneg_left key hγ.le
  rw [← mul_assoc, mul_inv_cancel₀ hγ.ne', one_mul, ← mul_assoc] at h2
  calc Y ≤ γ * γ * U := h2
    _ = γ^2 * U := by ring

end PkLA

namespace PkLA
open Matrix

variable {n m k : Type} [Fintype n] [Fintype m] [Fintype k] [DecidableEq n] [DecidableEq m] [DecidableEq k]

/-- squared Euclidean norm of a complex vector -/
noncomputable def cnormSq {ι : Type} [Fintype ι] (v : ι → ℂ) : ℝ := ∑ i, Complex.normSq (v i)

def reV {ι : Type} (v : ι → ℂ) : ι → ℝ := fun i => (v i).re
def imV {ι : Type} (v : ι → ℂ) : ι → ℝ := fun i => (v i).im

theorem cnormSq_eq {ι : Type} [Fintype ι] (v : ι → ℂ) : cnormSq v = reV v ⬝ᵥ reV v + imV v ⬝ᵥ imV v := by
  simp only [cnormSq, dotProduct, reV, imV, Complex.normSq_apply, Finset.sum_add_distrib]

theorem re_mulVec_ofReal {ι κ : Type} [Fintype κ] (M : Matrix ι κ ℝ) (v : κ → ℂ) :
    reV ((M.map Complex.ofReal) *ᵥ v) = M *ᵥ reV v := by
  funext i; simp [reV, mulVec, dotProduct, Complex.re_sum]

theorem im_mulVec_ofReal {ι κ : Type} [Fintype κ] (M : Matrix ι κ ℝ) (v : κ → ℂ) :
    imV ((M.map Complex.ofReal) *ᵥ v) = M *ᵥ imV v := by
  funext i; simp [imV, mulVec, dotProduct, Complex.im_sum]

theorem reV_add {ι : Type} (v w : ι → ℂ) : reV (v + w) = reV v + reV w := by funext i; simp [reV]
theorem imV_add {ι : Type} (v w : ι → ℂ) : imV (v + w) = imV v + imV w := by funext i; simp [imV]
theorem reV_smul {ι : Type} (z : ℂ) (v : ι → ℂ) : reV (z • v) = z.re • reV v - z.im • imV v := by
  funext i; simp [reV, imV]
theorem imV_smul {ι : Type} (z : ℂ) (v : ι → ℂ) : imV (z • v) = z.im • reV v + z.re • imV v := by
  funext i; simp [reV, imV]; ring

/-- **the bounded-real LMI bounds the frequency response at every point of the unit circle** (complex form) -/
theorem brl_freq_complex (P A : Matrix n n ℝ) (B : Matrix n m ℝ) (C : Matrix k n ℝ) (D : Matrix k m ℝ)
    (γ : ℝ) (hγ : 0 < γ) (hP : Pᵀ = P) (hPu : IsUnit P.det) (h : (brlLMI P A B C D γ).PosDef)
    (z : ℂ) (hz : ‖z‖ = 1) (x : n → ℂ) (u : m → ℂ)
    (hx : z • x = (A.map Complex.ofReal) *ᵥ x + (B.map Complex.ofReal) *ᵥ u) :
    cnormSq ((C.map Complex.ofReal) *ᵥ x + (D.map Complex.ofReal) *ᵥ u) ≤ γ^2 * cnormSq u := by
  have hcs : z.re^2 + z.im^2 = 1 := by
    have : ‖z‖^2 = z.re^2 + z.im^2 := by rw [Complex.sq_norm, Complex.normSq_apply]; ring
    rw [← this, hz]; norm_num
  have hr : A *ᵥ reV x + B *ᵥ reV u = z.re • reV x - z.im • imV x := by
    rw [← re_mulVec_ofReal, ← re_mulVec_ofReal, ← reV_add, ← hx, reV_smul]
  have hi : A *ᵥ imV x + B *ᵥ imV u = z.im • reV x + z.re • imV x := by
    rw [← im_mulVec_ofReal, ← im_mulVec_ofReal, ← imV_add, ← hx, imV_smul]
  have key := brl_freq_real P A B C D γ hγ hP hPu h z.re z.im hcs (reV x) (imV x) (reV u) (imV u) hr hi
  rw [cnormSq_eq, cnormSq_eq, reV_add, imV_add, re_mulVec_ofReal, re_mulVec_ofReal, im_mulVec_ofReal,
    im_mulVec_ofReal]
  exact key

end PkLA
