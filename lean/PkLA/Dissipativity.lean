import Mathlib.LinearAlgebra.Matrix.PosDef
import Mathlib.Data.Matrix.ColumnRowPartitioned
import Mathlib.Tactic.Ring
import Mathlib.Tactic.Linarith
import PkLA.SpectralRadius

/-! The dissipativity LMI of `LmiEdmdDissipativityConstr._create_problem_a/_b`:
`[[P − CᵀΞ₁₁C, −CᵀΞ₁₂, AᵀP], [−Ξ₁₂ᵀC, −Ξ₂₂, BᵀP], [PA, PB, P]] ≻ 0`
and the dissipation inequality it implies (quadratic form at `(x, u, −(Ax+Bu))`). -/
namespace PkLA
open Matrix

variable {n m k : Type} [Fintype n] [Fintype m] [Fintype k] [DecidableEq n] [DecidableEq m] [DecidableEq k]

def dissLMI {R : Type} [CommRing R] (P A : Matrix n n R) (B : Matrix n m R) (C : Matrix k n R)
    (X11 : Matrix k k R) (X12 : Matrix k m R) (X22 : Matrix m m R) :
    Matrix ((n ⊕ m) ⊕ n) ((n ⊕ m) ⊕ n) R :=
  fromBlocks
    (fromBlocks (P - Cᵀ * X11 * C) (-(Cᵀ * X12)) (-(X12ᵀ * C)) (-X22))
    (fromRows (Aᵀ * P) (Bᵀ * P))
    (fromCols (P * A) (P * B))
    P

/-- supply rate `−[y;u]ᵀ Ξ [y;u]` -/
def supply (X11 : Matrix k k ℝ) (X12 : Matrix k m ℝ) (X22 : Matrix m m ℝ) (y : k → ℝ) (u : m → ℝ) : ℝ :=
  -(y ⬝ᵥ (X11 *ᵥ y) + 2 * (y ⬝ᵥ (X12 *ᵥ u)) + u ⬝ᵥ (X22 *ᵥ u))

theorem diss_step (P A : Matrix n n ℝ) (B : Matrix n m ℝ) (C : Matrix k n ℝ)
    (X11 : Matrix k k ℝ) (X12 : Matrix k m ℝ) (X22 : Matrix m m ℝ)
    (h : (dissLMI P A B C X11 X12 X22).PosDef) (x : n → ℝ) (u : m → ℝ) (hne : x ≠ 0 ∨ u ≠ 0) :
    V P (A *ᵥ x + B *ᵥ u) - V P x < supply X11 X12 X22 (C *ᵥ x) u := by
  set w := A *ᵥ x + B *ᵥ u with hw
  have hz : (Sum.elim (Sum.elim x u) (-w) : (n ⊕ m) ⊕ n → ℝ) ≠ 0 := by
    intro h0
    rcases hne with hx | hu
    · apply hx; funext i; simpa using congrFun h0 (Sum.inl (Sum.inl i))
    · apply hu; funext i; simpa using congrFun h0 (Sum.inl (Sum.inr i))
  have key := h.dotProduct_mulVec_pos hz
  simp only [dissLMI, star_trivial, fromBlocks_mulVec, sumElim_dotProduct_sumElim,
    Sum.elim_comp_inl, Sum.elim_comp_inr, fromRows_mulVec, fromCols_mulVec] at key
  -- expand every bilinear term
  have e1 : x ⬝ᵥ ((Cᵀ * X11 * C) *ᵥ x) = (C *ᵥ x) ⬝ᵥ (X11 *ᵥ (C *ᵥ x)) := by
    rw [Matrix.mul_assoc, ← mulVec_mulVec, dotProduct_mulVec, vecMul_transpose, ← mulVec_mulVec]
  have e2 : x ⬝ᵥ ((Cᵀ * X12) *ᵥ u) = (C *ᵥ x) ⬝ᵥ (X12 *ᵥ u) := by
    rw [← mulVec_mulVec, dotProduct_mulVec, vecMul_transpose]
  have e3 : u ⬝ᵥ ((X12ᵀ * C) *ᵥ x) = (C *ᵥ x) ⬝ᵥ (X12 *ᵥ u) := by
    rw [← mulVec_mulVec, dotProduct_mulVec, vecMul_transpose, dotProduct_comm]
  have e4 : x ⬝ᵥ ((Aᵀ * P) *ᵥ w) = (A *ᵥ x) ⬝ᵥ (P *ᵥ w) := by
    rw [← mulVec_mulVec, dotProduct_mulVec, vecMul_transpose]
  have e5 : u ⬝ᵥ ((Bᵀ * P) *ᵥ w) = (B *ᵥ u) ⬝ᵥ (P *ᵥ w) := by
    rw [← mulVec_mulVec, dotProduct_mulVec, vecMul_transpose]
  have e6 : w ⬝ᵥ ((P * A) *ᵥ x) + w ⬝ᵥ ((P * B) *ᵥ u) = w ⬝ᵥ (P *ᵥ w) := by
    rw [← mulVec_mulVec, ← mulVec_mulVec, ← dotProduct_add, ← mulVec_add]
  have e7 : (A *ᵥ x) ⬝ᵥ (P *ᵥ w) + (B *ᵥ u) ⬝ᵥ (P *ᵥ w) = w ⬝ᵥ (P *ᵥ w) := by
    rw [← add_dotProduct]
  simp only [sub_mulVec, neg_mulVec, mulVec_neg, sumElim_dotProduct_sumElim, dotProduct_add, dotProduct_sub,
    dotProduct_neg, neg_dotProduct, add_dotProduct, neg_neg, e1, e2, e3, e4, e5] at key
  unfold V supply
  linarith [key, e6, e7]

end PkLA
