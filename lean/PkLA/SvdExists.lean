import PkLA.Truncation
import Mathlib.Analysis.Matrix.PosDef
import Mathlib.Analysis.Real.Sqrt
import Mathlib.LinearAlgebra.Matrix.Rank
import Mathlib.Algebra.Order.Star.Real
import Mathlib.Tactic.Ring
import Mathlib.Tactic.Linarith
import Mathlib.Tactic.FieldSimp
/-! Existence of a compact singular value decomposition of every real matrix. -/
namespace PkLA
open Matrix

section
variable {m n : Type} [Fintype m] [Fintype n] [DecidableEq n]

omit [Fintype n] [DecidableEq n] in
/-- the Gram matrix `Xᵀ X` is symmetric -/
theorem gram_isHermitian (X : Matrix m n ℝ) : (Xᵀ * X).IsHermitian := by
  have := isHermitian_conjTranspose_mul_self X
  rwa [conjTranspose_eq_transpose_of_trivial] at this

omit [DecidableEq n] in
theorem gram_posSemidef (X : Matrix m n ℝ) : (Xᵀ * X).PosSemidef := by
  have := posSemidef_conjTranspose_mul_self X
  rwa [conjTranspose_eq_transpose_of_trivial] at this

/-- eigenvalues of the Gram matrix -/
noncomputable def gramEig (X : Matrix m n ℝ) : n → ℝ := (gram_isHermitian X).eigenvalues

/-- orthogonal matrix of eigenvectors of the Gram matrix -/
noncomputable def gramVec (X : Matrix m n ℝ) : Matrix n n ℝ := ((gram_isHermitian X).eigenvectorUnitary : Matrix n n ℝ)

theorem gramEig_nonneg (X : Matrix m n ℝ) (i : n) : 0 ≤ gramEig X i :=
  (gram_posSemidef X).eigenvalues_nonneg i

theorem gramVec_orth (X : Matrix m n ℝ) : (gramVec X)ᵀ * gramVec X = 1 := by
  have := mem_unitaryGroup_iff'.1 (gram_isHermitian X).eigenvectorUnitary.2
  rwa [star_eq_conjTranspose, conjTranspose_eq_transpose_of_trivial] at this

theorem gramVec_orth' (X : Matrix m n ℝ) : gramVec X * (gramVec X)ᵀ = 1 := by
  have := mem_unitaryGroup_iff.1 (gram_isHermitian X).eigenvectorUnitary.2
  rwa [star_eq_conjTranspose, conjTranspose_eq_transpose_of_trivial] at this

/-- `(X V)ᵀ (X V) = diag λ` -/
theorem gram_diag (X : Matrix m n ℝ) : (X * gramVec X)ᵀ * (X * gramVec X) = diagonal (gramEig X) := by
  have h := (gram_isHermitian X).conjStarAlgAut_star_eigenvectorUnitary
  rw [Unitary.conjStarAlgAut_star_apply, star_eq_conjTranspose, conjTranspose_eq_transpose_of_trivial] at h
  rw [transpose_mul, Matrix.mul_assoc, ← Matrix.mul_assoc Xᵀ, ← Matrix.mul_assoc]
  rw [gramVec, h]
  congr 1

/-- `X V`: its nonzero columns are the scaled left singular vectors -/
noncomputable def gramY (X : Matrix m n ℝ) : Matrix m n ℝ := X * gramVec X

/-- entries of `(X V)ᵀ (X V) = diag λ` -/
theorem gram_diag_apply (X : Matrix m n ℝ) (i j : n) :
    ∑ k, gramY X k i * gramY X k j = if i = j then gramEig X i else 0 := by
  have := congrFun (congrFun (gram_diag X) i) j
  unfold gramY
  rwa [Matrix.mul_apply, diagonal_apply] at this

/-- columns of `X V` belonging to a zero eigenvalue vanish -/
theorem col_zero_of_eig_zero (X : Matrix m n ℝ) (i : n) (h : gramEig X i = 0) (k : m) :
    gramY X k i = 0 := by
  have h1 := gram_diag_apply X i i
  rw [if_pos rfl, h] at h1
  have h2 := (Finset.sum_eq_zero_iff_of_nonneg (fun k _ => mul_self_nonneg _)).1 h1 k (Finset.mem_univ k)
  exact mul_self_eq_zero.1 h2

/-- `X = (X V) Vᵀ` -/
theorem eq_mul_gramVec (X : Matrix m n ℝ) : X = gramY X * (gramVec X)ᵀ := by
  rw [gramY, Matrix.mul_assoc, gramVec_orth', Matrix.mul_one]

/-- index set of the compact SVD: strictly positive eigenvalues of `Xᵀ X` -/
abbrev SvdIdx (X : Matrix m n ℝ) : Type := {i : n // 0 < gramEig X i}

/-- singular values -/
noncomputable def svdS (X : Matrix m n ℝ) (i : SvdIdx X) : ℝ := Real.sqrt (gramEig X i.1)
/-- right singular vectors -/
noncomputable def svdZ (X : Matrix m n ℝ) : Matrix n (SvdIdx X) ℝ := fun j i => gramVec X j i.1
/-- left singular vectors -/
noncomputable def svdQ (X : Matrix m n ℝ) : Matrix m (SvdIdx X) ℝ := fun k i => gramY X k i.1 / svdS X i

theorem svdS_pos (X : Matrix m n ℝ) (i : SvdIdx X) : 0 < svdS X i := Real.sqrt_pos.2 i.2

theorem svdZ_orth (X : Matrix m n ℝ) : (svdZ X)ᵀ * svdZ X = 1 := by
  ext i j
  have := congrFun (congrFun (gramVec_orth X) i.1) j.1
  simpa [Matrix.mul_apply, svdZ, Matrix.one_apply, Subtype.ext_iff] using this

theorem svdQ_orth (X : Matrix m n ℝ) : (svdQ X)ᵀ * svdQ X = 1 := by
  ext i j
  have h := gram_diag_apply X i.1 j.1
  have hi := svdS_pos X i
  have hj := svdS_pos X j
  simp only [Matrix.mul_apply, transpose_apply, svdQ, Matrix.one_apply]
  have e : ∀ k, gramY X k i.1 / svdS X i * (gramY X k j.1 / svdS X j)
      = (gramY X k i.1 * gramY X k j.1) / (svdS X i * svdS X j) := fun k => by
    field_simp
  simp only [e]
  rw [← Finset.sum_div, h]
  by_cases hij : i = j
  · subst hij
    rw [if_pos rfl, if_pos rfl, svdS, Real.mul_self_sqrt (le_of_lt i.2)]
    exact div_self (ne_of_gt i.2)
  · rw [if_neg hij, if_neg (fun h => hij (Subtype.ext h)), zero_div]

theorem svd_eq (X : Matrix m n ℝ) : X = svdQ X * diagonal (svdS X) * (svdZ X)ᵀ := by
  conv_lhs => rw [eq_mul_gramVec X]
  ext k j
  rw [Matrix.mul_apply, Matrix.mul_apply]
  simp only [mul_diagonal, transpose_apply, svdQ, svdZ]
  have e : ∀ i : SvdIdx X, gramY X k i.1 / svdS X i * svdS X i * gramVec X j i.1
      = gramY X k i.1 * gramVec X j i.1 := fun i => by
    rw [div_mul_cancel₀ _ (ne_of_gt (svdS_pos X i))]
  simp only [e]
  symm
  rw [← Finset.sum_subtype (Finset.univ.filter (fun i => 0 < gramEig X i)) (by simp)
    (fun i => gramY X k i * gramVec X j i)]
  apply Finset.sum_subset (Finset.filter_subset _ _)
  intro i _ hi
  have h0 : gramEig X i = 0 := by
    have h1 : ¬ 0 < gramEig X i := by simpa using hi
    exact le_antisymm (not_lt.1 h1) (gramEig_nonneg X i)
  rw [col_zero_of_eig_zero X i h0, zero_mul]

end

/-- **existence of a compact singular value decomposition** of every real matrix -/
theorem exists_svd {m n : Type} [Fintype m] [Fintype n] [DecidableEq m] [DecidableEq n] (X : Matrix m n ℝ) :
    ∃ (r : Type) (_ : Fintype r) (_ : DecidableEq r) (Q : Matrix m r ℝ) (Z : Matrix n r ℝ) (s : r → ℝ),
      Qᵀ * Q = 1 ∧ Zᵀ * Z = 1 ∧ (∀ i, 0 < s i) ∧ X = Q * diagonal s * Zᵀ :=
  ⟨SvdIdx X, inferInstance, inferInstance, svdQ X, svdZ X, svdS X, svdQ_orth X, svdZ_orth X, svdS_pos X, svd_eq X⟩

/-- the same with `0 ≤ s i`, the form in which project theorems take the hypothesis -/
theorem exists_svd_nonneg {m n : Type} [Fintype m] [Fintype n] [DecidableEq m] [DecidableEq n] (X : Matrix m n ℝ) :
    ∃ (r : Type) (_ : Fintype r) (_ : DecidableEq r) (Q : Matrix m r ℝ) (Z : Matrix n r ℝ) (s : r → ℝ),
      Qᵀ * Q = 1 ∧ Zᵀ * Z = 1 ∧ (∀ i, 0 ≤ s i) ∧ X = Q * diagonal s * Zᵀ := by
  obtain ⟨r, i1, i2, Q, Z, s, hQ, hZ, hs, hX⟩ := exists_svd X
  exact ⟨r, i1, i2, Q, Z, s, hQ, hZ, fun i => le_of_lt (hs i), hX⟩

/-- the squared singular values are the positive eigenvalues of `Xᵀ X` -/
theorem svdS_sq {m n : Type} [Fintype m] [Fintype n] [DecidableEq n] (X : Matrix m n ℝ) (i : SvdIdx X) :
    svdS X i ^ 2 = (gram_isHermitian X).eigenvalues i.1 :=
  Real.sq_sqrt (le_of_lt i.2)

/-- elimination form of `exists_svd` -/
theorem svd_elim {m n : Type} [Fintype m] [Fintype n] [DecidableEq m] [DecidableEq n] {motive : Prop}
    (X : Matrix m n ℝ)
    (h : ∀ (r : Type) [Fintype r] [DecidableEq r] (Q : Matrix m r ℝ) (Z : Matrix n r ℝ) (s : r → ℝ),
      Qᵀ * Q = 1 → Zᵀ * Z = 1 → (∀ i, 0 < s i) → X = Q * diagonal s * Zᵀ → motive) : motive := by
  obtain ⟨r, i1, i2, Q, Z, s, hQ, hZ, hs, hX⟩ := exists_svd X
  exact h r Q Z s hQ hZ hs hX

/-- the rank of `Q diag(s) Zᵀ` with orthonormal columns and nonzero `s` is the number of triplets -/
theorem rank_svd {m n r : Type} [Fintype m] [Fintype n] [Fintype r] [DecidableEq r]
    (Q : Matrix m r ℝ) (Z : Matrix n r ℝ) (s : r → ℝ) (hQ : Qᵀ * Q = 1) (hZ : Zᵀ * Z = 1) (hs : ∀ i, s i ≠ 0) :
    (Q * diagonal s * Zᵀ).rank = Fintype.card r := by
  apply le_antisymm
  · exact (rank_mul_le_right _ _).trans (rank_le_card_height _)
  · have e : Qᵀ * (Q * diagonal s * Zᵀ) * (Z * diagonal (fun i => (s i)⁻¹)) = 1 := by
      calc Qᵀ * (Q * diagonal s * Zᵀ) * (Z * diagonal (fun i => (s i)⁻¹))
          = (Qᵀ * Q) * diagonal s * (Zᵀ * Z) * diagonal (fun i => (s i)⁻¹) := by
            simp only [Matrix.mul_assoc]
        _ = 1 := by
            rw [hQ, hZ, Matrix.one_mul, Matrix.mul_one, diagonal_mul_diagonal, ← diagonal_one]
            congr 1
            funext i
            exact mul_inv_cancel₀ (hs i)
    calc Fintype.card r = (1 : Matrix r r ℝ).rank := rank_one.symm
      _ = (Qᵀ * (Q * diagonal s * Zᵀ) * (Z * diagonal (fun i => (s i)⁻¹))).rank := by rw [e]
      _ ≤ (Qᵀ * (Q * diagonal s * Zᵀ)).rank := rank_mul_le_left _ _
      _ ≤ (Q * diagonal s * Zᵀ).rank := rank_mul_le_right _ _

/-- in any compact SVD the number of triplets is the rank -/
theorem rank_eq_card {m n r : Type} [Fintype m] [Fintype n] [Fintype r] [DecidableEq r]
    (X : Matrix m n ℝ) (Q : Matrix m r ℝ) (Z : Matrix n r ℝ) (s : r → ℝ) (hQ : Qᵀ * Q = 1) (hZ : Zᵀ * Z = 1)
    (hs : ∀ i, 0 < s i) (hX : X = Q * diagonal s * Zᵀ) : X.rank = Fintype.card r := by
  rw [hX]
  exact rank_svd Q Z s hQ hZ (fun i => ne_of_gt (hs i))

/-- compact SVD with the size of the index set identified: `Fintype.card r = X.rank` -/
theorem exists_svd_rank {m n : Type} [Fintype m] [Fintype n] [DecidableEq m] [DecidableEq n] (X : Matrix m n ℝ) :
    ∃ (r : Type) (_ : Fintype r) (_ : DecidableEq r) (Q : Matrix m r ℝ) (Z : Matrix n r ℝ) (s : r → ℝ),
      Qᵀ * Q = 1 ∧ Zᵀ * Z = 1 ∧ (∀ i, 0 < s i) ∧ X = Q * diagonal s * Zᵀ ∧ Fintype.card r = X.rank := by
  obtain ⟨r, i1, i2, Q, Z, s, hQ, hZ, hs, hX⟩ := exists_svd X
  exact ⟨r, i1, i2, Q, Z, s, hQ, hZ, hs, hX, (rank_eq_card X Q Z s hQ hZ hs hX).symm⟩

/-- usage with a project theorem (`fro2_svd` of `PkLA.Truncation`): the squared Frobenius norm of every real matrix
is the sum of its squared singular values -/
example {m n : Type} [Fintype m] [Fintype n] [DecidableEq m] [DecidableEq n] (X : Matrix m n ℝ) :
    ∃ (r : Type) (_ : Fintype r) (s : r → ℝ), (∀ i, 0 < s i) ∧ fro2 X = ∑ k, s k ^ 2 := by
  apply svd_elim X
  intro r _ _ Q Z s hQ hZ hs hX
  exact ⟨r, inferInstance, s, hs, by rw [hX, fro2_svd Q Z s hQ hZ]⟩

example : ∃ (r : Type) (_ : Fintype r) (_ : DecidableEq r) (Q : Matrix (Fin 2) r ℝ) (Z : Matrix (Fin 2) r ℝ)
    (s : r → ℝ), Qᵀ * Q = 1 ∧ Zᵀ * Z = 1 ∧ (∀ i, 0 < s i) ∧ (!![1, 2; 3, 4] : Matrix (Fin 2) (Fin 2) ℝ) = Q * diagonal s * Zᵀ :=
  exists_svd _

end PkLA

