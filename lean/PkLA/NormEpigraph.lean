import PkLA.Lmi
import Mathlib.LinearAlgebra.Matrix.PosDef
import Mathlib.Algebra.Order.Star.Real
import Mathlib.Data.Matrix.ColumnRowPartitioned
import Mathlib.Algebra.Order.BigOperators.Ring.Finset
import Mathlib.Tactic.Linarith
/-! # Norm epigraphs of the two-norm and nuclear-norm LMI blocks — the missing directions

Completes `C12_twonorm_sound` and `C12_nuclear_partial` of `Properties/C12.lean`:
* `twonorm_complete`, `twonorm_epigraph`, `twonorm_epigraph_nonneg`: `[[γI, Uᵀ],[U, γI]] ⪰ 0 ⇔ ∀ x, ‖Ux‖² ≤ γ²‖x‖²`;
* `nuclear_trace_bound`, `nuclear_complete`, `nuclear_epigraph`: given an SVD `U = Q diag(s) Zᵀ` (orthonormal columns,
  `s ≥ 0`), a slack pair `(W₁, W₂)` with `[[W₁, U],[Uᵀ, W₂]] ⪰ 0`, `tr W₁ + tr W₂ ≤ 2γ` exists iff `Σ sᵢ ≤ γ`.
(The existence of an SVD is a hypothesis, not proved here.) -/
namespace PkLA
open Matrix

variable {n m r : Type} [Fintype n] [Fintype m] [Fintype r] [DecidableEq n] [DecidableEq m] [DecidableEq r]

/-- two-norm block (soundness): `[[γI, Uᵀ],[U, γI]] ⪰ 0` with `γ > 0` forces `‖Ux‖² ≤ γ²‖x‖²` for every `x`,
i.e. the slack `γ` really bounds the matrix two-norm -/
theorem twonorm_sound (γ : ℝ) (hγ : 0 < γ) (U : Matrix n m ℝ) (h : (twoNormLmi γ U).PosSemidef) (x : m → ℝ) :
    (U *ᵥ x) ⬝ᵥ (U *ᵥ x) ≤ γ^2 * (x ⬝ᵥ x) := by
  have key := (Matrix.posSemidef_iff_dotProduct_mulVec.mp h).2 (Sum.elim (γ • x) (-(U *ᵥ x)))
  simp only [twoNormLmi, star_trivial, fromBlocks_mulVec, sumElim_dotProduct_sumElim, Sum.elim_comp_inl,
    Sum.elim_comp_inr] at key
  have e1 : x ⬝ᵥ (Uᵀ *ᵥ (U *ᵥ x)) = (U *ᵥ x) ⬝ᵥ (U *ᵥ x) := by
    rw [dotProduct_mulVec, vecMul_transpose]
  simp only [smul_mulVec, one_mulVec, mulVec_smul, mulVec_neg, dotProduct_add, smul_dotProduct,
    dotProduct_smul, neg_dotProduct, dotProduct_neg, smul_eq_mul, e1] at key
  have : 0 ≤ γ * (γ^2 * (x ⬝ᵥ x) - (U *ᵥ x) ⬝ᵥ (U *ᵥ x)) := by nlinarith [key]
  have := nonneg_of_mul_nonneg_right this hγ
  linarith

/-- nuclear-norm block, one direction only: feasibility of `[[W₁, U],[Uᵀ, W₂]] ⪰ 0` gives
`2 |xᵀ U y| ≤ xᵀW₁x + yᵀW₂y` for all `x, y` (from which `‖U‖_* ≤ (tr W₁ + tr W₂)/2` follows via the SVD; that last
step and the converse are NOT proved) -/
theorem nuclear_partial (W1 : Matrix n n ℝ) (U : Matrix n m ℝ) (W2 : Matrix m m ℝ)
    (h : (nuclearLmi W1 U W2).PosSemidef) (x : n → ℝ) (y : m → ℝ) :
    2 * (x ⬝ᵥ (U *ᵥ y)) ≤ x ⬝ᵥ (W1 *ᵥ x) + y ⬝ᵥ (W2 *ᵥ y) := by
  have key := (Matrix.posSemidef_iff_dotProduct_mulVec.mp h).2 (Sum.elim x (-y))
  simp only [nuclearLmi, star_trivial, fromBlocks_mulVec, sumElim_dotProduct_sumElim, Sum.elim_comp_inl,
    Sum.elim_comp_inr] at key
  have e1 : y ⬝ᵥ (Uᵀ *ᵥ x) = x ⬝ᵥ (U *ᵥ y) := by
    rw [dotProduct_mulVec, vecMul_transpose, dotProduct_comm]
  simp only [mulVec_neg, dotProduct_add, neg_dotProduct, dotProduct_neg, e1, neg_neg] at key
  linarith


/-- Cauchy–Schwarz for `dotProduct` over ℝ, squared form -/
theorem dotProduct_sq_le {k : Type} [Fintype k] (u v : k → ℝ) : (u ⬝ᵥ v)^2 ≤ (u ⬝ᵥ u) * (v ⬝ᵥ v) := by
  have := Finset.sum_mul_sq_le_sq_mul_sq Finset.univ u v
  simpa only [dotProduct, pow_two] using this

theorem dotProduct_self_nonneg' {k : Type} [Fintype k] (u : k → ℝ) : 0 ≤ u ⬝ᵥ u := by
  unfold dotProduct
  exact Finset.sum_nonneg fun i _ => mul_self_nonneg _

omit [Fintype n] [Fintype m] in
theorem twoNormLmi_isHermitian (γ : ℝ) (U : Matrix n m ℝ) : (twoNormLmi γ U).IsHermitian := by
  unfold twoNormLmi
  refine Matrix.IsHermitian.fromBlocks ?_ ?_ ?_
  · simp [Matrix.IsHermitian, conjTranspose_eq_transpose_of_trivial]
  · simp [conjTranspose_eq_transpose_of_trivial]
  · simp [Matrix.IsHermitian, conjTranspose_eq_transpose_of_trivial]

/-- two-norm block (completeness): if `‖Ux‖² ≤ γ²‖x‖²` for all `x` and `γ ≥ 0` then the block is PSD -/
theorem twonorm_complete (γ : ℝ) (hγ : 0 ≤ γ) (U : Matrix n m ℝ)
    (h : ∀ x : m → ℝ, (U *ᵥ x) ⬝ᵥ (U *ᵥ x) ≤ γ^2 * (x ⬝ᵥ x)) : (twoNormLmi γ U).PosSemidef := by
  refine Matrix.posSemidef_iff_dotProduct_mulVec.mpr ⟨twoNormLmi_isHermitian γ U, ?_⟩
  intro v
  obtain ⟨x, y, rfl⟩ : ∃ x y, v = Sum.elim x y := ⟨v ∘ Sum.inl, v ∘ Sum.inr, by ext (i | i) <;> rfl⟩
  simp only [twoNormLmi, star_trivial, fromBlocks_mulVec, sumElim_dotProduct_sumElim, Sum.elim_comp_inl,
    Sum.elim_comp_inr]
  have e1 : x ⬝ᵥ (Uᵀ *ᵥ y) = y ⬝ᵥ (U *ᵥ x) := by
    rw [dotProduct_mulVec, vecMul_transpose, dotProduct_comm]
  simp only [smul_mulVec, one_mulVec, dotProduct_add, dotProduct_smul, smul_eq_mul, e1]
  have hcs := dotProduct_sq_le y (U *ᵥ x)
  have hx := h x
  have ha := dotProduct_self_nonneg' x
  have hb := dotProduct_self_nonneg' y
  have hd := dotProduct_self_nonneg' (U *ᵥ x)
  set a := x ⬝ᵥ x
  set b := y ⬝ᵥ y
  set c := y ⬝ᵥ (U *ᵥ x)
  set d := (U *ᵥ x) ⬝ᵥ (U *ᵥ x)
  by_contra hneg
  rw [not_le] at hneg
  have h1 : γ * (a + b) < -(2 * c) := by linarith
  have h0 : 0 ≤ γ * (a + b) := mul_nonneg hγ (add_nonneg ha hb)
  have h2 : (γ * (a + b))^2 < (-(2 * c))^2 := pow_lt_pow_left₀ h1 h0 (by norm_num)
  have h3 : c^2 ≤ b * (γ^2 * a) := le_trans hcs (mul_le_mul_of_nonneg_left hx hb)
  nlinarith [sq_nonneg (a - b), mul_nonneg (sq_nonneg γ) (sq_nonneg (a - b))]

/-- the two-norm block is exactly the epigraph of the matrix two-norm (`γ > 0`) -/
theorem twonorm_epigraph (γ : ℝ) (hγ : 0 < γ) (U : Matrix n m ℝ) :
    (twoNormLmi γ U).PosSemidef ↔ ∀ x : m → ℝ, (U *ᵥ x) ⬝ᵥ (U *ᵥ x) ≤ γ^2 * (x ⬝ᵥ x) :=
  ⟨fun h x => twonorm_sound γ hγ U h x, twonorm_complete γ hγ.le U⟩

/-- soundness also at `γ = 0` (then the block forces `U = 0`) -/
theorem twonorm_sound_nonneg (γ : ℝ) (hγ : 0 ≤ γ) (U : Matrix n m ℝ) (h : (twoNormLmi γ U).PosSemidef)
    (x : m → ℝ) : (U *ᵥ x) ⬝ᵥ (U *ᵥ x) ≤ γ^2 * (x ⬝ᵥ x) := by
  rcases hγ.eq_or_lt with h0 | hpos
  · subst h0
    have key := (Matrix.posSemidef_iff_dotProduct_mulVec.mp h).2 (Sum.elim x (-(U *ᵥ x)))
    simp only [twoNormLmi, star_trivial, fromBlocks_mulVec, sumElim_dotProduct_sumElim, Sum.elim_comp_inl,
      Sum.elim_comp_inr] at key
    have e1 : x ⬝ᵥ (Uᵀ *ᵥ (U *ᵥ x)) = (U *ᵥ x) ⬝ᵥ (U *ᵥ x) := by
      rw [dotProduct_mulVec, vecMul_transpose]
    simp only [zero_smul, zero_mulVec, mulVec_neg, dotProduct_add, neg_dotProduct, dotProduct_neg, dotProduct_zero,
      e1] at key
    linarith
  · exact twonorm_sound γ hpos U h x

/-- the two-norm block is exactly the epigraph of the matrix two-norm, for every `γ ≥ 0` -/
theorem twonorm_epigraph_nonneg (γ : ℝ) (hγ : 0 ≤ γ) (U : Matrix n m ℝ) :
    (twoNormLmi γ U).PosSemidef ↔ ∀ x : m → ℝ, (U *ᵥ x) ⬝ᵥ (U *ᵥ x) ≤ γ^2 * (x ⬝ᵥ x) :=
  ⟨twonorm_sound_nonneg γ hγ U, twonorm_complete γ hγ U⟩

/-- the hypotheses of `twonorm_complete` are satisfiable: `U = I`, `γ = 1` -/
example : ∀ x : Fin 2 → ℝ, ((1 : Matrix (Fin 2) (Fin 2) ℝ) *ᵥ x) ⬝ᵥ ((1 : Matrix (Fin 2) (Fin 2) ℝ) *ᵥ x)
    ≤ (1 : ℝ)^2 * (x ⬝ᵥ x) := by simp

example : (twoNormLmi (1 : ℝ) (1 : Matrix (Fin 2) (Fin 2) ℝ)).PosSemidef :=
  twonorm_complete 1 zero_le_one 1 (by simp)

/-! ### nuclear norm -/

omit [Fintype n] [Fintype m] [DecidableEq n] [DecidableEq m] in
theorem nuclearLmi_W1_posSemidef (W1 : Matrix n n ℝ) (U : Matrix n m ℝ) (W2 : Matrix m m ℝ)
    (h : (nuclearLmi W1 U W2).PosSemidef) : W1.PosSemidef := by
  have := h.submatrix (Sum.inl : n → n ⊕ m)
  have e : (nuclearLmi W1 U W2).submatrix Sum.inl Sum.inl = W1 := by
    ext i j; simp [nuclearLmi]
  rwa [e] at this

omit [Fintype n] [Fintype m] [DecidableEq n] [DecidableEq m] in
theorem nuclearLmi_W2_posSemidef (W1 : Matrix n n ℝ) (U : Matrix n m ℝ) (W2 : Matrix m m ℝ)
    (h : (nuclearLmi W1 U W2).PosSemidef) : W2.PosSemidef := by
  have := h.submatrix (Sum.inr : m → n ⊕ m)
  have e : (nuclearLmi W1 U W2).submatrix Sum.inr Sum.inr = W2 := by
    ext i j; simp [nuclearLmi]
  rwa [e] at this

/-- compression by orthonormal columns does not increase the trace of a PSD matrix -/
theorem trace_compress_le (W : Matrix n n ℝ) (hW : W.PosSemidef) (Q : Matrix n r ℝ) (hQ : Qᵀ * Q = 1) :
    (Qᵀ * W * Q).trace ≤ W.trace := by
  set P : Matrix n n ℝ := 1 - Q * Qᵀ with hP
  have hPP : P * P = P := by
    have : Q * Qᵀ * (Q * Qᵀ) = Q * Qᵀ := by
      rw [Matrix.mul_assoc, ← Matrix.mul_assoc Qᵀ Q, hQ, Matrix.one_mul]
    rw [hP, Matrix.sub_mul, Matrix.mul_sub, Matrix.mul_sub, this]
    simp
  have hPt : Pᴴ = P := by
    rw [hP, conjTranspose_eq_transpose_of_trivial, transpose_sub, transpose_mul, transpose_transpose,
      transpose_one]
  have h1 : 0 ≤ (Pᴴ * W * P).trace := (hW.conjTranspose_mul_mul_same P).trace_nonneg
  have h2 : (Pᴴ * W * P).trace = W.trace - (Qᵀ * W * Q).trace := by
    rw [hPt, Matrix.mul_assoc, Matrix.trace_mul_comm, Matrix.mul_assoc, hPP, hP, Matrix.mul_sub, trace_sub,
      Matrix.mul_one, ← Matrix.mul_assoc, Matrix.trace_mul_comm, ← Matrix.mul_assoc]
  linarith

/-- **nuclear norm, forward direction**: given an SVD `U = Q diag(s) Zᵀ` with orthonormal columns, feasibility of the
block bounds `Σ sᵢ` by `(tr W₁ + tr W₂)/2` -/
theorem nuclear_trace_bound (W1 : Matrix n n ℝ) (U : Matrix n m ℝ) (W2 : Matrix m m ℝ)
    (Q : Matrix n r ℝ) (Z : Matrix m r ℝ) (s : r → ℝ) (hQ : Qᵀ * Q = 1) (hZ : Zᵀ * Z = 1)
    (hU : U = Q * diagonal s * Zᵀ) (h : (nuclearLmi W1 U W2).PosSemidef) :
    ∑ i, s i ≤ (W1.trace + W2.trace) / 2 := by
  have hi : ∀ i : r, 2 * s i ≤ (Qᵀ * W1 * Q) i i + (Zᵀ * W2 * Z) i i := by
    intro i
    have key := nuclear_partial W1 U W2 h (fun a => Q a i) (fun a => Z a i)
    have e0 : Qᵀ * U * Z = diagonal s := by
      rw [hU, ← Matrix.mul_assoc, ← Matrix.mul_assoc, hQ, Matrix.one_mul, Matrix.mul_assoc, hZ, Matrix.mul_one]
    have e1 : (fun a => Q a i) ⬝ᵥ (U *ᵥ fun a => Z a i) = (Qᵀ * U * Z) i i := by
      simp only [dotProduct, mulVec, Matrix.mul_apply, transpose_apply, Finset.sum_mul, Finset.mul_sum, mul_assoc]
      rw [Finset.sum_comm]
    have e2 : (fun a => Q a i) ⬝ᵥ (W1 *ᵥ fun a => Q a i) = (Qᵀ * W1 * Q) i i := by
      simp only [dotProduct, mulVec, Matrix.mul_apply, transpose_apply, Finset.sum_mul, Finset.mul_sum, mul_assoc]
      rw [Finset.sum_comm]
    have e3 : (fun a => Z a i) ⬝ᵥ (W2 *ᵥ fun a => Z a i) = (Zᵀ * W2 * Z) i i := by
      simp only [dotProduct, mulVec, Matrix.mul_apply, transpose_apply, Finset.sum_mul, Finset.mul_sum, mul_assoc]
      rw [Finset.sum_comm]
    rw [e1, e2, e3, e0, diagonal_apply_eq] at key
    exact key
  have hs := Finset.sum_le_sum fun i (_ : i ∈ Finset.univ) => hi i
  rw [← Finset.mul_sum, Finset.sum_add_distrib] at hs
  have t1 := trace_compress_le W1 (nuclearLmi_W1_posSemidef W1 U W2 h) Q hQ
  have t2 := trace_compress_le W2 (nuclearLmi_W2_posSemidef W1 U W2 h) Z hZ
  simp only [Matrix.trace, Matrix.diag] at t1 t2 ⊢
  linarith

omit [Fintype n] [Fintype m] [DecidableEq n] [DecidableEq m] in
/-- the block built from an SVD is a congruence of `diag(s)` -/
theorem nuclearLmi_svd (Q : Matrix n r ℝ) (Z : Matrix m r ℝ) (s : r → ℝ) :
    nuclearLmi (Q * diagonal s * Qᵀ) (Q * diagonal s * Zᵀ) (Z * diagonal s * Zᵀ)
      = fromRows Q Z * diagonal s * (fromRows Q Z)ᴴ := by
  rw [conjTranspose_eq_transpose_of_trivial, transpose_fromRows, fromRows_mul, fromRows_mul_fromCols]
  unfold nuclearLmi
  rw [transpose_mul, transpose_mul, transpose_transpose, diagonal_transpose]
  simp only [Matrix.mul_assoc]

omit [DecidableEq n] [DecidableEq m] in
/-- **nuclear norm, converse**: with `s ≥ 0` the choice `W₁ = Q diag(s) Qᵀ`, `W₂ = Z diag(s) Zᵀ` is feasible and
its traces add up to `2 Σ sᵢ` -/
theorem nuclear_complete (U : Matrix n m ℝ) (Q : Matrix n r ℝ) (Z : Matrix m r ℝ) (s : r → ℝ)
    (hQ : Qᵀ * Q = 1) (hZ : Zᵀ * Z = 1) (hU : U = Q * diagonal s * Zᵀ) (hs : ∀ i, 0 ≤ s i) :
    (nuclearLmi (Q * diagonal s * Qᵀ) U (Z * diagonal s * Zᵀ)).PosSemidef
    ∧ (Q * diagonal s * Qᵀ).trace + (Z * diagonal s * Zᵀ).trace = 2 * ∑ i, s i := by
  constructor
  · rw [hU, nuclearLmi_svd]
    exact (Matrix.PosSemidef.diagonal (d := s) hs).mul_mul_conjTranspose_same _
  · rw [Matrix.trace_mul_cycle, hQ, Matrix.one_mul, Matrix.trace_mul_cycle Z, hZ, Matrix.one_mul, trace_diagonal]
    ring

/-- **the nuclear-norm block is exactly the epigraph of `Σ σᵢ`**: given an SVD of `U` with non-negative singular
values, a slack pair with `tr W₁ + tr W₂ ≤ 2γ` exists iff the nuclear norm is at most `γ` -/
theorem nuclear_epigraph (U : Matrix n m ℝ) (Q : Matrix n r ℝ) (Z : Matrix m r ℝ) (s : r → ℝ)
    (hQ : Qᵀ * Q = 1) (hZ : Zᵀ * Z = 1) (hU : U = Q * diagonal s * Zᵀ) (hs : ∀ i, 0 ≤ s i) (γ : ℝ) :
    (∃ (W1 : Matrix n n ℝ) (W2 : Matrix m m ℝ), (nuclearLmi W1 U W2).PosSemidef ∧ W1.trace + W2.trace ≤ 2 * γ)
      ↔ ∑ i, s i ≤ γ := by
  constructor
  · rintro ⟨W1, W2, h, ht⟩
    have := nuclear_trace_bound W1 U W2 Q Z s hQ hZ hU h
    linarith
  · intro h
    obtain ⟨h1, h2⟩ := nuclear_complete U Q Z s hQ hZ hU hs
    exact ⟨_, _, h1, by rw [h2]; linarith⟩

/-! ### the hypotheses are satisfiable -/

/-- an SVD with non-square factors: `U = [[0,3],[0,0]] = e₀ · 3 · e₁ᵀ` -/
example : (!![1; 0] : Matrix (Fin 2) (Fin 1) ℝ)ᵀ * (!![1; 0] : Matrix (Fin 2) (Fin 1) ℝ) = 1
    ∧ (!![0; 1] : Matrix (Fin 2) (Fin 1) ℝ)ᵀ * (!![0; 1] : Matrix (Fin 2) (Fin 1) ℝ) = 1
    ∧ (!![0, 3; 0, 0] : Matrix (Fin 2) (Fin 2) ℝ)
        = (!![1; 0] : Matrix (Fin 2) (Fin 1) ℝ) * diagonal (fun _ : Fin 1 => (3 : ℝ))
          * (!![0; 1] : Matrix (Fin 2) (Fin 1) ℝ)ᵀ
    ∧ ∀ i : Fin 1, (0 : ℝ) ≤ (fun _ : Fin 1 => (3 : ℝ)) i := by
  refine ⟨?_, ?_, ?_, ?_⟩
  · ext i j; fin_cases i; fin_cases j; simp [Matrix.mul_apply]
  · ext i j; fin_cases i; fin_cases j; simp [Matrix.mul_apply]
  · ext i j; fin_cases i <;> fin_cases j <;> simp [Matrix.mul_apply]
  · intro i; norm_num

/-- identity factors: hypotheses of `nuclear_complete` / `nuclear_epigraph` (and, through `nuclear_complete`, the
feasibility hypothesis of `nuclear_trace_bound`) -/
example : ((1 : Matrix (Fin 2) (Fin 2) ℝ))ᵀ * 1 = 1
    ∧ (1 : Matrix (Fin 2) (Fin 2) ℝ)
        = (1 : Matrix (Fin 2) (Fin 2) ℝ) * diagonal (fun _ : Fin 2 => (1 : ℝ)) * (1 : Matrix (Fin 2) (Fin 2) ℝ)ᵀ := by
  simp

example : (nuclearLmi (1 : Matrix (Fin 2) (Fin 2) ℝ) (1 : Matrix (Fin 2) (Fin 2) ℝ)
    (1 : Matrix (Fin 2) (Fin 2) ℝ)).PosSemidef := by
  have h := (nuclear_complete (1 : Matrix (Fin 2) (Fin 2) ℝ) (1 : Matrix (Fin 2) (Fin 2) ℝ)
    (1 : Matrix (Fin 2) (Fin 2) ℝ) (fun _ => 1) (by simp) (by simp) (by simp) (fun _ => zero_le_one)).1
  simpa using h

end PkLA

