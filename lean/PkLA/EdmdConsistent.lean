import PkLA.Ridge
import PkLA.SvdExists
/-! # The EDMD normal equations are always solvable; a least-squares solve of a consistent system is exact

`Edmd` forms `H = (ΨΨᵀ + αI)/q`, `G = ΘΨᵀ/q` and returns `scipy.linalg.lstsq(Hᵀ, Gᵀ)`.  Here:
(1) the normal equations `U (ΨΨᵀ + αI) = ΘΨᵀ` have a solution for every data set and every `α ≥ 0`
(rank-deficient data with `α = 0` included); (2) a least-squares solution of a consistent system solves it
exactly; (3) hence the least-squares answer satisfies the normal equations and minimises the cost. -/
namespace PkLA
open Matrix

/-- a matrix with zero squared Frobenius norm is zero -/
theorem fro2_eq_zero {m n : Type} [Fintype m] [Fintype n] (M : Matrix m n ℝ) (h : fro2 M = 0) : M = 0 := by
  unfold fro2 at h
  simp only [trace, diag, mul_apply, transpose_apply] at h
  ext i j
  have hnn : ∀ i ∈ Finset.univ, 0 ≤ ∑ j, M i j * M i j :=
    fun i _ => Finset.sum_nonneg (fun j _ => mul_self_nonneg _)
  have h1 := (Finset.sum_eq_zero_iff_of_nonneg hnn).mp h i (Finset.mem_univ i)
  have h2 := (Finset.sum_eq_zero_iff_of_nonneg (fun j _ => mul_self_nonneg (M i j))).mp h1 j (Finset.mem_univ j)
  simpa using mul_self_eq_zero.mp h2

section consistent
variable {p q t : Type} [Fintype p] [Fintype q] [Fintype t] [DecidableEq p] [DecidableEq q]

omit [Fintype t] [DecidableEq q] in
/-- with a compact SVD `Ψ = Q diag(s) Zᵀ` (`s > 0`) the matrix `Θ Z diag(s/(s²+α)) Qᵀ` solves the
normal equations, for every `α ≥ 0` -/
theorem normal_eq_svd_solution {r : Type} [Fintype r] [DecidableEq r]
    (Ψ : Matrix p q ℝ) (Θ : Matrix t q ℝ) (α : ℝ) (hα : 0 ≤ α)
    (Q : Matrix p r ℝ) (Z : Matrix q r ℝ) (s : r → ℝ)
    (hQ : Qᵀ * Q = 1) (hZ : Zᵀ * Z = 1) (hs : ∀ i, 0 < s i) (hΨ : Ψ = Q * diagonal s * Zᵀ) :
    (Θ * Z * diagonal (fun i => s i / (s i * s i + α)) * Qᵀ) * (Ψ * Ψᵀ + α • (1 : Matrix p p ℝ))
      = Θ * Ψᵀ := by
  have hΨt : Ψᵀ = Z * diagonal s * Qᵀ := by
    rw [hΨ]; simp only [transpose_mul, transpose_transpose, diagonal_transpose, Matrix.mul_assoc]
  have hG : Ψ * Ψᵀ = Q * diagonal (fun i => s i * s i) * Qᵀ := by
    rw [hΨt]; nth_rw 1 [hΨ]
    calc Q * diagonal s * Zᵀ * (Z * diagonal s * Qᵀ)
        = Q * diagonal s * (Zᵀ * Z) * diagonal s * Qᵀ := by simp only [Matrix.mul_assoc]
      _ = Q * (diagonal s * diagonal s) * Qᵀ := by rw [hZ, Matrix.mul_one]; simp only [Matrix.mul_assoc]
      _ = _ := by rw [diagonal_mul_diagonal]
  have hd : diagonal (fun i => s i / (s i * s i + α)) * diagonal (fun i => s i * s i)
      + α • diagonal (fun i => s i / (s i * s i + α)) = diagonal s := by
    rw [diagonal_mul_diagonal, ← diagonal_smul, diagonal_add]
    congr 1; funext i
    have : 0 < s i * s i + α := by have := mul_pos (hs i) (hs i); linarith
    simp only [Pi.smul_apply, smul_eq_mul]
    rw [show s i / (s i * s i + α) * (s i * s i) + α * (s i / (s i * s i + α))
        = s i / (s i * s i + α) * (s i * s i + α) by ring]
    exact div_mul_cancel₀ _ (ne_of_gt this)
  set D := diagonal (fun i => s i / (s i * s i + α)) with hD
  calc (Θ * Z * D * Qᵀ) * (Ψ * Ψᵀ + α • (1 : Matrix p p ℝ))
      = Θ * Z * D * (Qᵀ * Q) * diagonal (fun i => s i * s i) * Qᵀ + α • (Θ * Z * D * Qᵀ) := by
        rw [hG, Matrix.mul_add, Matrix.mul_smul, Matrix.mul_one]; simp only [Matrix.mul_assoc]
    _ = Θ * Z * (D * diagonal (fun i => s i * s i) + α • D) * Qᵀ := by
        rw [hQ, Matrix.mul_one]
        simp only [Matrix.mul_add, Matrix.add_mul, Matrix.mul_smul, Matrix.smul_mul, Matrix.mul_assoc]
    _ = Θ * Ψᵀ := by rw [hd, hΨt]; simp only [Matrix.mul_assoc]

omit [Fintype t] in
/-- **the normal equations of EDMD are always solvable**: for every data set and every `α ≥ 0`
(rank-deficient `Ψ` with `α = 0` included) -/
theorem normal_eq_consistent (Ψ : Matrix p q ℝ) (Θ : Matrix t q ℝ) (α : ℝ) (hα : 0 ≤ α) :
    ∃ U : Matrix t p ℝ, U * (Ψ * Ψᵀ + α • (1 : Matrix p p ℝ)) = Θ * Ψᵀ := by
  obtain ⟨r, _, _, Q, Z, s, hQ, hZ, hs, hΨ⟩ := exists_svd Ψ
  exact ⟨_, normal_eq_svd_solution Ψ Θ α hα Q Z s hQ hZ hs hΨ⟩

end consistent

section lstsq
variable {a b c : Type} [Fintype a] [Fintype b] [Fintype c]

/-- **a least-squares solution of a consistent system solves it exactly** -/
theorem lstsq_exact_of_consistent (A : Matrix a b ℝ) (B : Matrix a c ℝ) (X : Matrix b c ℝ)
    (hc : ∃ X0 : Matrix b c ℝ, A * X0 = B) (hX : Aᵀ * (A * X - B) = 0) : A * X = B := by
  obtain ⟨X0, rfl⟩ := hc
  have hR : A * X - A * X0 = A * (X - X0) := by rw [Matrix.mul_sub]
  have h0 : fro2 (A * X - A * X0)ᵀ = 0 := by
    unfold fro2
    rw [transpose_transpose]
    nth_rw 1 [hR]
    rw [transpose_mul, Matrix.mul_assoc, hX, Matrix.mul_zero, trace_zero]
  have := fro2_eq_zero _ h0
  have h1 : A * X - A * X0 = 0 := by simpa using congrArg transpose this
  exact sub_eq_zero.mp h1

/-- a minimiser of `‖A X − B‖_F²` satisfies the least-squares normal equations -/
theorem lstsq_normal_of_min (A : Matrix a b ℝ) (B : Matrix a c ℝ) (X : Matrix b c ℝ)
    (hmin : ∀ Y : Matrix b c ℝ, fro2 (A * X - B) ≤ fro2 (A * Y - B)) : Aᵀ * (A * X - B) = 0 := by
  obtain ⟨R, hR⟩ : ∃ R, R = A * X - B := ⟨_, rfl⟩
  obtain ⟨D, hD⟩ : ∃ D, D = Aᵀ * R := ⟨_, rfl⟩
  rw [← hR] at hmin ⊢
  rw [← hD]
  have hf : 0 ≤ fro2 Dᵀ := fro2_nonneg _
  have hg : 0 ≤ fro2 (A * D) := fro2_nonneg _
  have key : ∀ τ : ℝ, 0 ≤ -(2 * τ * fro2 Dᵀ) + τ * τ * fro2 (A * D) := by
    intro τ
    have h := hmin (X - τ • D)
    have e : A * (X - τ • D) - B = R - τ • (A * D) := by
      rw [Matrix.mul_sub, Matrix.mul_smul, hR]; abel
    have etr : (A * D * Rᵀ).trace = fro2 Dᵀ := by
      unfold fro2
      rw [transpose_transpose, trace_mul_comm, ← Matrix.mul_assoc]
      congr 2
      rw [hD, transpose_mul, transpose_transpose]
    have e2 : fro2 (τ • (A * D)) = τ * τ * fro2 (A * D) := by
      unfold fro2
      rw [transpose_smul, Matrix.smul_mul, Matrix.mul_smul, trace_smul, trace_smul]
      simp only [smul_eq_mul]; ring
    have e3 : fro2 (R - τ • (A * D)) = fro2 R - 2 * (τ * fro2 Dᵀ) + τ * τ * fro2 (A * D) := by
      rw [fro2_sub, Matrix.smul_mul, trace_smul, smul_eq_mul, etr, e2]
    rw [e, e3] at h
    linarith
  have hf0 : fro2 Dᵀ = 0 := by
    set f := fro2 Dᵀ
    set g := fro2 (A * D)
    have hk := key (f / (g + 1))
    have hg1 : 0 < g + 1 := by linarith
    have : f * f ≤ 0 := by
      have h2 : -(2 * (f / (g + 1)) * f) + f / (g + 1) * (f / (g + 1)) * g
          = -(f * f) * (g + 2) / ((g + 1) * (g + 1)) := by
        field_simp; ring
      rw [h2] at hk
      have hpos : 0 < (g + 1) * (g + 1) := mul_pos hg1 hg1
      have := (div_nonneg_iff.mp hk)
      rcases this with ⟨h3, _⟩ | ⟨_, h4⟩
      · nlinarith
      · linarith
    nlinarith
  have := fro2_eq_zero _ hf0
  simpa using congrArg transpose this

end lstsq

section edmd
variable {p q t : Type} [Fintype p] [Fintype q] [Fintype t] [DecidableEq p] [DecidableEq q]

/-- **the least-squares solve of EDMD satisfies the normal equations, for every data set**: with
`H = (ΨΨᵀ + αI)/q`, `G = ΘΨᵀ/q`, any `Xs` satisfying the least-squares normal equations of `Hᵀ Xs = Gᵀ`
(what `scipy.linalg.lstsq(Hᵀ, Gᵀ)` returns) gives `U = Xsᵀ` with `U (ΨΨᵀ + αI) = ΘΨᵀ` -/
theorem edmd_lstsq_normal_eq (Ψ : Matrix p q ℝ) (Θ : Matrix t q ℝ) (α : ℝ) (hα : 0 ≤ α)
    (qn : ℝ) (hq : qn ≠ 0) (Xs : Matrix p t ℝ)
    (hXs : (qn⁻¹ • (Ψ * Ψᵀ + α • (1 : Matrix p p ℝ)))
        * ((qn⁻¹ • (Ψ * Ψᵀ + α • (1 : Matrix p p ℝ)))ᵀ * Xs - (qn⁻¹ • (Θ * Ψᵀ))ᵀ) = 0) :
    Xsᵀ * (Ψ * Ψᵀ + α • (1 : Matrix p p ℝ)) = Θ * Ψᵀ := by
  obtain ⟨U0, hU0⟩ := normal_eq_consistent Ψ Θ α hα
  set M := Ψ * Ψᵀ + α • (1 : Matrix p p ℝ) with hM
  have hcons : ∃ X0 : Matrix p t ℝ, (qn⁻¹ • M)ᵀ * X0 = (qn⁻¹ • (Θ * Ψᵀ))ᵀ :=
    ⟨U0ᵀ, by rw [← transpose_mul, Matrix.mul_smul, hU0]⟩
  have hex := lstsq_exact_of_consistent (qn⁻¹ • M)ᵀ (qn⁻¹ • (Θ * Ψᵀ))ᵀ Xs hcons
    (by rw [transpose_transpose]; exact hXs)
  have h1 := congrArg transpose hex
  rw [transpose_mul, transpose_transpose, transpose_transpose, Matrix.mul_smul] at h1
  have h2 := congrArg (fun N => qn • N) h1
  simpa [smul_smul, mul_inv_cancel₀ hq] using h2

/-- … and therefore minimises the regularised least-squares cost -/
theorem edmd_lstsq_optimal (Ψ : Matrix p q ℝ) (Θ : Matrix t q ℝ) (α : ℝ) (hα : 0 ≤ α)
    (qn : ℝ) (hq : qn ≠ 0) (Xs : Matrix p t ℝ)
    (hXs : (qn⁻¹ • (Ψ * Ψᵀ + α • (1 : Matrix p p ℝ)))
        * ((qn⁻¹ • (Ψ * Ψᵀ + α • (1 : Matrix p p ℝ)))ᵀ * Xs - (qn⁻¹ • (Θ * Ψᵀ))ᵀ) = 0) :
    Xsᵀ * (Ψ * Ψᵀ + α • (1 : Matrix p p ℝ)) = Θ * Ψᵀ
      ∧ ∀ V : Matrix t p ℝ, cost Ψ Θ α Xsᵀ ≤ cost Ψ Θ α V :=
  have h := edmd_lstsq_normal_eq Ψ Θ α hα qn hq Xs hXs
  ⟨h, normal_eq_optimal Ψ Θ α hα Xsᵀ h⟩

/-- the same with the episode-sample count `q` of the code as a natural number -/
theorem edmd_lstsq_optimal_nat (Ψ : Matrix p q ℝ) (Θ : Matrix t q ℝ) (α : ℝ) (hα : 0 ≤ α)
    (n : ℕ) (hn : n ≠ 0) (Xs : Matrix p t ℝ)
    (hXs : ((n : ℝ)⁻¹ • (Ψ * Ψᵀ + α • (1 : Matrix p p ℝ)))
        * (((n : ℝ)⁻¹ • (Ψ * Ψᵀ + α • (1 : Matrix p p ℝ)))ᵀ * Xs - ((n : ℝ)⁻¹ • (Θ * Ψᵀ))ᵀ) = 0) :
    Xsᵀ * (Ψ * Ψᵀ + α • (1 : Matrix p p ℝ)) = Θ * Ψᵀ
      ∧ ∀ V : Matrix t p ℝ, cost Ψ Θ α Xsᵀ ≤ cost Ψ Θ α V :=
  edmd_lstsq_optimal Ψ Θ α hα (n : ℝ) (Nat.cast_ne_zero.mpr hn) Xs hXs

end edmd

/-- non-vacuous on a rank-deficient instance: `Ψ = 0`, `α = 0` -/
example (Θ : Matrix (Fin 2) (Fin 3) ℝ) :
    ∃ U : Matrix (Fin 2) (Fin 2) ℝ,
      U * ((0 : Matrix (Fin 2) (Fin 3) ℝ) * (0 : Matrix (Fin 2) (Fin 3) ℝ)ᵀ + (0 : ℝ) • (1 : Matrix (Fin 2) (Fin 2) ℝ))
        = Θ * (0 : Matrix (Fin 2) (Fin 3) ℝ)ᵀ :=
  normal_eq_consistent 0 Θ 0 le_rfl

end PkLA

