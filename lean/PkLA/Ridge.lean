import Mathlib.LinearAlgebra.Matrix.PosDef
import Mathlib.LinearAlgebra.Matrix.Trace
import Mathlib.Tactic.Ring
import Mathlib.Tactic.Linarith
import Mathlib.Tactic.NoncommRing

namespace PkLA

open Matrix

variable {p q t : Type} [Fintype p] [Fintype q] [Fintype t] [DecidableEq p]

/-- squared Frobenius norm as a trace -/
def fro2 {m n : Type} [Fintype m] [Fintype n] (M : Matrix m n ℝ) : ℝ := (M * Mᵀ).trace

theorem fro2_nonneg {m n : Type} [Fintype m] [Fintype n] (M : Matrix m n ℝ) : 0 ≤ fro2 M := by
  unfold fro2
  simp only [trace, diag, mul_apply, transpose_apply]
  apply Finset.sum_nonneg; intro i _
  apply Finset.sum_nonneg; intro j _
  exact mul_self_nonneg _

def cost (Ψ : Matrix p q ℝ) (Θ : Matrix t q ℝ) (α : ℝ) (V : Matrix t p ℝ) : ℝ :=
  fro2 (Θ - V * Ψ) + α * fro2 V

theorem fro2_sub {m n : Type} [Fintype m] [Fintype n] (E F : Matrix m n ℝ) :
    fro2 (E - F) = fro2 E - 2 * (F * Eᵀ).trace + fro2 F := by
  unfold fro2
  have h1 : (E * Fᵀ).trace = (F * Eᵀ).trace := by
    rw [← trace_transpose, transpose_mul, transpose_transpose]
  simp only [transpose_sub, Matrix.sub_mul, Matrix.mul_sub, trace_sub, h1]
  ring

theorem fro2_add {m n : Type} [Fintype m] [Fintype n] (E F : Matrix m n ℝ) :
    fro2 (E + F) = fro2 E + 2 * (F * Eᵀ).trace + fro2 F := by
  unfold fro2
  have h1 : (E * Fᵀ).trace = (F * Eᵀ).trace := by
    rw [← trace_transpose, transpose_mul, transpose_transpose]
  simp only [transpose_add, Matrix.add_mul, Matrix.mul_add, trace_add, h1]
  ring

theorem cost_gap (Ψ : Matrix p q ℝ) (Θ : Matrix t q ℝ) (α : ℝ) (U V : Matrix t p ℝ)
    (hU : U * (Ψ * Ψᵀ + α • (1 : Matrix p p ℝ)) = Θ * Ψᵀ) :
    cost Ψ Θ α V - cost Ψ Θ α U = fro2 ((V - U) * Ψ) + α * fro2 (V - U) := by
  obtain ⟨D, rfl⟩ : ∃ D, V = U + D := ⟨V - U, by abel⟩
  simp only [add_sub_cancel_left]
  have e2 : Θ * Ψᵀ - U * (Ψ * Ψᵀ) = α • U := by
    rw [← hU]; simp [Matrix.mul_add, Matrix.mul_smul]
  have hx : (D * Ψ * (Θ - U * Ψ)ᵀ).trace = α * (D * Uᵀ).trace := by
    have e : D * Ψ * (Θ - U * Ψ)ᵀ = D * (Θ * Ψᵀ - U * (Ψ * Ψᵀ))ᵀ := by
      simp only [transpose_sub, transpose_mul, transpose_transpose, Matrix.mul_sub, Matrix.mul_assoc]
    rw [e, e2, transpose_smul, Matrix.mul_smul, trace_smul, smul_eq_mul]
  have hV : Θ - (U + D) * Ψ = (Θ - U * Ψ) - D * Ψ := by
    rw [Matrix.add_mul]; abel
  unfold cost
  rw [hV, fro2_sub, hx, fro2_add]
  ring


theorem normal_eq_optimal (Ψ : Matrix p q ℝ) (Θ : Matrix t q ℝ) (α : ℝ) (hα : 0 ≤ α) (U : Matrix t p ℝ)
    (hU : U * (Ψ * Ψᵀ + α • (1 : Matrix p p ℝ)) = Θ * Ψᵀ) (V : Matrix t p ℝ) :
    cost Ψ Θ α U ≤ cost Ψ Θ α V := by
  have := cost_gap Ψ Θ α U V hU
  have h1 := fro2_nonneg ((V - U) * Ψ)
  have h2 := fro2_nonneg (V - U)
  nlinarith [mul_nonneg hα h2]

end PkLA
