import Mathlib.Analysis.SpecialFunctions.Integrals.Basic
import Mathlib.Analysis.SpecialFunctions.Trigonometric.Basic

namespace PkLA

/-! the two deterministic identities behind random Fourier features. -/
open Real intervalIntegral

/-- weight_only: each (cos, sin) pair contributes exactly cos of the difference -/
theorem rff_pair (a c : ℝ) : cos a * cos c + sin a * sin c = cos (a - c) := by
  rw [cos_sub]

/-- weight_only: unit norm -/
theorem rff_unit (a : ℝ) : cos a * cos a + sin a * sin a = 1 := by
  have := cos_sq_add_sin_sq a; nlinarith [this]

/-- weight_offset: averaging over a uniform offset in [0, 2π] removes the offset -/
theorem rff_offset_average (a c : ℝ) :
    (∫ b in (0:ℝ)..(2*π), 2 * cos (a + b) * cos (c + b)) = 2 * π * cos (a - c) := by
  have h : ∀ b, 2 * cos (a + b) * cos (c + b) = cos (a - c) + cos (2 * b + (a + c)) := by
    intro b
    have h1 := cos_add (a + b) (c + b)
    have h2 := cos_sub (a + b) (c + b)
    have e1 : a + b + (c + b) = 2 * b + (a + c) := by ring
    have e2 : a + b - (c + b) = a - c := by ring
    rw [e1] at h1; rw [e2] at h2
    linarith
  simp_rw [h]
  rw [integral_add (by simp) (by
    apply Continuous.intervalIntegrable
    fun_prop)]
  rw [integral_const]
  have h3 : (∫ b in (0:ℝ)..(2*π), cos (2 * b + (a + c))) = 0 := by
    rw [intervalIntegral.integral_comp_mul_add (fun t => cos t) (by norm_num : (2:ℝ) ≠ 0)]
    rw [integral_cos]
    have : 2 * (2 * π) + (a + c) = (2 * 0 + (a + c)) + 2 * (2 * π) := by ring
    rw [this]
    have hs : sin (2 * 0 + (a + c) + 2 * (2 * π)) = sin (2 * 0 + (a + c)) := by
      have := Real.sin_add_int_mul_two_pi (2 * 0 + (a + c)) 2
      simpa [mul_comm, mul_assoc] using this
    rw [hs]; simp
  rw [h3]; simp

end PkLA
