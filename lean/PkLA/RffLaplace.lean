import Mathlib.Analysis.SpecialFunctions.ImproperIntegrals
import Mathlib.MeasureTheory.Measure.Lebesgue.Integral
import Mathlib.MeasureTheory.Integral.Bochner.ContinuousLinearMap

namespace PkLA
open MeasureTheory Complex Set

/-- half-line integral: `∫₀^∞ cos(t x) e^{−x} dx = 1 / (1 + t²)` -/
theorem integral_cos_mul_exp_neg_Ioi (t : ℝ) :
    ∫ x in Ioi (0:ℝ), Real.cos (t * x) * Real.exp (-x) = 1 / (1 + t ^ 2) := by
  set a : ℂ := -1 + t * I with ha
  have hre : a.re < 0 := by simp [ha]
  have hI := integral_exp_mul_complex_Ioi hre 0
  have hint := integrableOn_exp_mul_complex_Ioi hre 0
  have h1 : (∫ x in Ioi (0:ℝ), cexp (a * x)).re = ∫ x in Ioi (0:ℝ), (cexp (a * x)).re := (integral_re hint).symm
  have h2 : ∀ x : ℝ, (cexp (a * x)).re = Real.cos (t * x) * Real.exp (-x) := by
    intro x
    have : a * x = ((-x : ℝ) : ℂ) + ((t * x : ℝ) : ℂ) * I := by rw [ha]; push_cast; ring
    rw [this, Complex.exp_add, Complex.mul_re, Complex.exp_ofReal_re, Complex.exp_ofReal_im,
      Complex.exp_ofReal_mul_I_re, zero_mul, sub_zero, mul_comm]
  simp_rw [h2] at h1
  rw [← h1, hI]
  simp only [ofReal_zero, mul_zero, Complex.exp_zero]
  have hne : a ≠ 0 := by intro h0; rw [h0] at hre; simp at hre
  have : -1 / a = (1 + t * I) / (1 + t ^ 2) := by
    rw [div_eq_div_iff hne (by
      have : (1 + (t:ℂ) ^ 2) = ((1 + t ^ 2 : ℝ) : ℂ) := by push_cast; ring
      rw [this]; exact_mod_cast (by positivity : (1 + t ^ 2 : ℝ) ≠ 0))]
    rw [ha]; ring_nf; rw [I_sq]; ring
  rw [this]
  have e : (1 + (t:ℂ) * I) / (1 + (t:ℂ) ^ 2) = ((1 / (1 + t ^ 2) : ℝ) : ℂ) + ((t / (1 + t ^ 2) : ℝ) : ℂ) * I := by
    push_cast; ring
  rw [e]
  simp only [Complex.add_re, Complex.ofReal_re, Complex.mul_re, Complex.I_re, Complex.ofReal_im, Complex.I_im, mul_zero, sub_zero, add_zero, mul_one]

/-- **Laplace weights give the Cauchy kernel** (one coordinate): for `w` with density `½ e^{−|w|}`
(`scipy.stats.laplace`), the mean of `cos(t w)` is `1 / (1 + t²)` -/
theorem rff_laplace_mean (t : ℝ) :
    ∫ w : ℝ, Real.cos (t * w) * (1 / 2 * Real.exp (-|w|)) = 1 / (1 + t ^ 2) := by
  have hf : ∀ w : ℝ, Real.cos (t * w) * (1 / 2 * Real.exp (-|w|))
      = (fun x => Real.cos (t * x) * (1 / 2 * Real.exp (-x))) |w| := by
    intro w
    simp only
    congr 1
    rcases abs_cases w with ⟨h, _⟩ | ⟨h, _⟩ <;> rw [h]
    rw [mul_neg, Real.cos_neg]
  rw [integral_congr_ae (Filter.Eventually.of_forall hf)]
  rw [integral_comp_abs (f := fun x => Real.cos (t * x) * (1 / 2 * Real.exp (-x)))]
  have : ∀ x : ℝ, Real.cos (t * x) * (1 / 2 * Real.exp (-x)) = 1 / 2 * (Real.cos (t * x) * Real.exp (-x)) := by
    intro x; ring
  simp_rw [this]
  rw [integral_const_mul, integral_cos_mul_exp_neg_Ioi]
  ring

end PkLA
