import PkLA.SpectralRadius
import PkLA.BoundedReal
import PkLA.Dissipativity
/-! The remaining LMI blocks of `lmi_regressors.py`, generic in the ring (evaluated over ℚ by the driver,
reasoned about over ℝ): sub-problem A of the spectral-radius regressors (written with `(P + Pᵀ)/2`), the
base-problem epigraph block `[[Z, U L],[Lᵀ Uᵀ, I]]`, the two-norm and nuclear-norm blocks. -/
namespace PkLA
open Matrix

variable {n m k : Type} [Fintype n] [Fintype m] [Fintype k] [DecidableEq n] [DecidableEq m] [DecidableEq k]

/-- sub-problem A as written in the code: `ρ (P + Pᵀ)/2` on the diagonal, `AᵀP`, `PᵀA` off it -/
def specLmiA {R : Type} [Field R] (ρ : R) (P A : Matrix n n R) : Matrix (n ⊕ n) (n ⊕ n) R :=
  fromBlocks (ρ • ((2 : R)⁻¹ • (P + Pᵀ))) (Aᵀ * P) (Pᵀ * A) (ρ • ((2 : R)⁻¹ • (P + Pᵀ)))

/-- sub-problem B as written in the code -/
def specLmiB {R : Type} [CommRing R] (ρ : R) (P A : Matrix n n R) : Matrix (n ⊕ n) (n ⊕ n) R :=
  fromBlocks (ρ • P) (Aᵀ * P) (Pᵀ * A) (ρ • P)

/-- for symmetric `P` both are the block the theorems are about -/
theorem specLmiA_eq (ρ : ℝ) (P A : Matrix n n ℝ) (hP : Pᵀ = P) : specLmiA ρ P A = specLMI ρ P A := by
  unfold specLmiA specLMI
  rw [hP]
  congr 1 <;> (rw [← two_smul ℝ P, smul_smul, smul_smul]; congr 1; ring)

theorem specLmiB_eq (ρ : ℝ) (P A : Matrix n n ℝ) (hP : Pᵀ = P) : specLmiB ρ P A = specLMI ρ P A := by
  unfold specLmiB specLMI; rw [hP]

/-- base problem: `[[Z, U L], [Lᵀ Uᵀ, I]]` -/
def baseLmi {R : Type} [CommRing R] (Z : Matrix n n R) (U : Matrix n m R) (L : Matrix m k R) :
    Matrix (n ⊕ k) (n ⊕ k) R :=
  fromBlocks Z (U * L) (Lᵀ * Uᵀ) 1

/-- base objective `c − 2 tr(U Gᵀ) + tr Z` -/
def baseObj {R : Type} [CommRing R] (c : R) (U G : Matrix n m R) (Z : Matrix n n R) : R :=
  c - 2 * (U * Gᵀ).trace + Z.trace

/-- two-norm block `[[γ I, Uᵀ... ` as in `_add_twonorm`: `[[γ I_p, Uᵀ],[U, γ I_pθ]]` -/
def twoNormLmi {R : Type} [CommRing R] (γ : R) (U : Matrix n m R) : Matrix (m ⊕ n) (m ⊕ n) R :=
  fromBlocks (γ • 1) Uᵀ U (γ • 1)

/-- nuclear-norm block `[[W₁, U],[Uᵀ, W₂]]` -/
def nuclearLmi {R : Type} [CommRing R] (W1 : Matrix n n R) (U : Matrix n m R) (W2 : Matrix m m R) :
    Matrix (n ⊕ m) (n ⊕ m) R :=
  fromBlocks W1 U Uᵀ W2

/-! ### weighted systems of `_create_ss`: series connection of the identified model `(Am, Bm, Cm, Dm)` with a
filter `(Aw, Bw, Cw, Dw)` -/
section series
variable {R : Type} [CommRing R] {a b c d e : Type}
  [Fintype a] [Fintype b] [Fintype c] [Fintype d] [Fintype e]
  [DecidableEq a] [DecidableEq b]

/-- `'post'`: the filter acts on the model output.  State `(xm, xw)`. -/
def postA (Am : Matrix a a R) (Aw : Matrix b b R) (Bw : Matrix b c R) (Cm : Matrix c a R) :
    Matrix (a ⊕ b) (a ⊕ b) R := fromBlocks Am 0 (Bw * Cm) Aw
def postB (Bm : Matrix a d R) (Bw : Matrix b c R) (Dm : Matrix c d R) : Matrix (a ⊕ b) d R :=
  fromRows Bm (Bw * Dm)
def postC (Cm : Matrix c a R) (Cw : Matrix e b R) (Dw : Matrix e c R) : Matrix e (a ⊕ b) R :=
  fromCols (Dw * Cm) Cw
def postD (Dw : Matrix e c R) (Dm : Matrix c d R) : Matrix e d R := Dw * Dm

/-- `'pre'`: the filter acts on the model input.  State `(xw, xm)`. -/
def preA (Am : Matrix a a R) (Aw : Matrix b b R) (Bm : Matrix a c R) (Cw : Matrix c b R) :
    Matrix (b ⊕ a) (b ⊕ a) R := fromBlocks Aw 0 (Bm * Cw) Am
def preB (Bw : Matrix b d R) (Bm : Matrix a c R) (Dw : Matrix c d R) : Matrix (b ⊕ a) d R :=
  fromRows Bw (Bm * Dw)
def preC (Cm : Matrix e a R) (Cw : Matrix c b R) (Dm : Matrix e c R) : Matrix e (b ⊕ a) R :=
  fromCols (Dm * Cw) Cm
def preD (Dm : Matrix e c R) (Dw : Matrix c d R) : Matrix e d R := Dm * Dw
end series

end PkLA
