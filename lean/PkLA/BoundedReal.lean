import Mathlib.LinearAlgebra.Matrix.PosDef
import Mathlib.Tactic.Ring
import Mathlib.Tactic.Linarith
import Mathlib.Tactic.FieldSimp

namespace PkLA

/-!  (not part of the framework):
inverse-free core of the bounded-real lemma for the H-infinity LMI of
`LmiEdmdHinfReg._create_problem_a/_b`. -/
open Matrix

variable {n m k : Type} [Fintype n] [Fintype m] [Fintype k] [DecidableEq n] [DecidableEq m] [DecidableEq k]

/-- [[P, AP, B, 0],[PᵀAᵀ, P, 0, PCᵀ],[Bᵀ, 0, γI, Dᵀ],[0, CPᵀ, D, γI]] -/
def brlLMI {R : Type} [CommRing R] (P A : Matrix n n R) (B : Matrix n m R) (C : Matrix k n R) (D : Matrix k m R) (γ : R) :
    Matrix ((n ⊕ n) ⊕ (m ⊕ k)) ((n ⊕ n) ⊕ (m ⊕ k)) R :=
  fromBlocks
    (fromBlocks P (A * P) (Pᵀ * Aᵀ) P)
    (fromBlocks B 0 0 (P * Cᵀ))
    (fromBlocks Bᵀ 0 0 (C * Pᵀ))
    (fromBlocks (γ • (1 : Matrix m m R)) Dᵀ D (γ • (1 : Matrix k k R)))

theorem brl_core (P A : Matrix n n ℝ) (B : Matrix n m ℝ) (C : Matrix k n ℝ) (D : Matrix k m ℝ)
    (γ : ℝ) (hγ : 0 < γ) (hP : Pᵀ = P) (h : (brlLMI P A B C D γ).PosDef)
    (η ξ : n → ℝ) (u : m → ℝ) (hne : ξ ≠ 0 ∨ u ≠ 0 ∨ η ≠ 0) :
    let x := P *ᵥ ξ
    let xp := A *ᵥ x + B *ᵥ u
    let y := C *ᵥ x + D *ᵥ u
    2 * (η ⬝ᵥ xp) - η ⬝ᵥ (P *ᵥ η) < ξ ⬝ᵥ (P *ᵥ ξ) + γ * (u ⬝ᵥ u) - γ⁻¹ * (y ⬝ᵥ y) := by
  intro x xp y
  let z : (n ⊕ n) ⊕ (m ⊕ k) → ℝ := Sum.elim (Sum.elim (-η) ξ) (Sum.elim u (-(γ⁻¹ • y)))
  have hz : z ≠ 0 := by
    intro h0
    have h1 : ξ = 0 := by
      funext i; simpa [z] using congrFun h0 (Sum.inl (Sum.inr i))
    have h2 : u = 0 := by
      funext i; simpa [z] using congrFun h0 (Sum.inr (Sum.inl i))
    have h3 : η = 0 := by
      funext i; simpa [z] using congrFun h0 (Sum.inl (Sum.inl i))
    rcases hne with h | h | h
    · exact h h1
    · exact h h2
    · exact h h3
  have key := h.dotProduct_mulVec_pos hz
  simp only [brlLMI, z, star_trivial, fromBlocks_mulVec, sumElim_dotProduct_sumElim,
    Sum.elim_comp_inl, Sum.elim_comp_inr, zero_mulVec, add_zero, zero_add] at key
  simp only [← Sum.elim_add_add, sumElim_dotProduct_sumElim] at key
  -- transposed cross terms
  have t1 : ξ ⬝ᵥ ((P * Aᵀ) *ᵥ η) = η ⬝ᵥ ((A * P) *ᵥ ξ) := by
    have : P * Aᵀ = (A * P)ᵀ := by rw [transpose_mul, hP]
    rw [this, dotProduct_mulVec, vecMul_transpose, dotProduct_comm]
  have t2 : u ⬝ᵥ (Bᵀ *ᵥ η) = η ⬝ᵥ (B *ᵥ u) := by
    rw [dotProduct_mulVec, vecMul_transpose, dotProduct_comm]
  have t3 : ξ ⬝ᵥ ((P * Cᵀ) *ᵥ y) = y ⬝ᵥ ((C * P) *ᵥ ξ) := by
    have : P * Cᵀ = (C * P)ᵀ := by rw [transpose_mul, hP]
    rw [this, dotProduct_mulVec, vecMul_transpose, dotProduct_comm]
  have t4 : u ⬝ᵥ (Dᵀ *ᵥ y) = y ⬝ᵥ (D *ᵥ u) := by
    rw [dotProduct_mulVec, vecMul_transpose, dotProduct_comm]
  have hy : y ⬝ᵥ y = y ⬝ᵥ ((C * P) *ᵥ ξ) + y ⬝ᵥ (D *ᵥ u) := by
    have : y = (C * P) *ᵥ ξ + D *ᵥ u := by simp only [y, x, mulVec_mulVec]
    conv_lhs => rhs; rw [this]
    rw [dotProduct_add]
  have hxp : η ⬝ᵥ xp = η ⬝ᵥ ((A * P) *ᵥ ξ) + η ⬝ᵥ (B *ᵥ u) := by
    simp only [xp, x, mulVec_mulVec, dotProduct_add]
  simp only [hP, mulVec_neg, mulVec_smul, smul_mulVec, one_mulVec, dotProduct_add, dotProduct_neg,
    neg_dotProduct, dotProduct_smul, smul_dotProduct, smul_eq_mul, t1, t2, t3, t4] at key
  rw [hy, hxp]
  rw [hy] at key
  have e5 : ∀ s : ℝ, γ⁻¹ * (γ * -(γ⁻¹ * s)) = -(γ⁻¹ * s) := by
    intro s; field_simp
  rw [e5] at key
  linarith


/-! ### from the core to the dissipation inequality in the state `x` and the ℓ2-gain bound -/

/-- storage function `W x = xᵀ P⁻¹ x` -/
noncomputable def W (P : Matrix n n ℝ) (x : n → ℝ) : ℝ := x ⬝ᵥ (P⁻¹ *ᵥ x)

theorem brl_dissipation (P A : Matrix n n ℝ) (B : Matrix n m ℝ) (C : Matrix k n ℝ) (D : Matrix k m ℝ)
    (γ : ℝ) (hγ : 0 < γ) (hP : Pᵀ = P) (hPu : IsUnit P.det) (h : (brlLMI P A B C D γ).PosDef)
    (x : n → ℝ) (u : m → ℝ) :
    W P (A *ᵥ x + B *ᵥ u) - W P x ≤ γ * (u ⬝ᵥ u) - γ⁻¹ * ((C *ᵥ x + D *ᵥ u) ⬝ᵥ (C *ᵥ x + D *ᵥ u)) := by
  set ξ := P⁻¹ *ᵥ x with hξ
  set xp := A *ᵥ x + B *ᵥ u with hxp
  set η := P⁻¹ *ᵥ xp with hη
  have hPξ : P *ᵥ ξ = x := by
    rw [hξ, mulVec_mulVec, mul_nonsing_inv P hPu, one_mulVec]
  have hPη : P *ᵥ η = xp := by
    rw [hη, mulVec_mulVec, mul_nonsing_inv P hPu, one_mulVec]
  by_cases hne : ξ ≠ 0 ∨ u ≠ 0 ∨ η ≠ 0
  · have core := brl_core P A B C D γ hγ hP h η ξ u hne
    simp only [hPξ] at core
    rw [← hxp] at core
    -- η·xp = W xp,  η·Pη = W xp,  ξ·Pξ = W x
    have e1 : η ⬝ᵥ xp = W P xp := by
      unfold W; rw [hη]
      rw [dotProduct_comm]
    have e2 : η ⬝ᵥ (P *ᵥ η) = W P xp := by rw [hPη, e1]
    have e3 : ξ ⬝ᵥ x = W P x := by
      unfold W; rw [hξ, dotProduct_comm]
    rw [e1, e2, e3] at core
    linarith
  · push Not at hne
    obtain ⟨h1, h2, h3⟩ := hne
    have hx0 : x = 0 := by rw [← hPξ, h1, mulVec_zero]
    have hxp0 : xp = 0 := by rw [← hPη, h3, mulVec_zero]
    rw [hxp0, hx0, h2]
    simp [W]


/-- ℓ2-gain over every finite horizon: from `x₀ = 0`, `Σ ‖y_k‖² ≤ γ² Σ ‖u_k‖²`. -/
noncomputable def stateAt (A : Matrix n n ℝ) (B : Matrix n m ℝ) (u : ℕ → m → ℝ) : ℕ → n → ℝ
  | 0 => 0
  | t+1 => A *ᵥ stateAt A B u t + B *ᵥ u t

theorem brl_l2_gain (P A : Matrix n n ℝ) (B : Matrix n m ℝ) (C : Matrix k n ℝ) (D : Matrix k m ℝ)
    (γ : ℝ) (hγ : 0 < γ) (hP : Pᵀ = P) (hPu : IsUnit P.det) (hWpos : ∀ x, 0 ≤ W P x)
    (h : (brlLMI P A B C D γ).PosDef) (u : ℕ → m → ℝ) (N : ℕ) :
    (Finset.range N).sum (fun t => (C *ᵥ stateAt A B u t + D *ᵥ u t) ⬝ᵥ (C *ᵥ stateAt A B u t + D *ᵥ u t))
      ≤ γ^2 * (Finset.range N).sum (fun t => u t ⬝ᵥ u t) := by
  -- telescoping invariant: W x_N + γ⁻¹ Σ‖y‖² ≤ γ Σ‖u‖²
  have inv : ∀ N, W P (stateAt A B u N)
      + γ⁻¹ * (Finset.range N).sum (fun t => (C *ᵥ stateAt A B u t + D *ᵥ u t) ⬝ᵥ (C *ᵥ stateAt A B u t + D *ᵥ u t))
      ≤ γ * (Finset.range N).sum (fun t => u t ⬝ᵥ u t) := by
    intro N
    induction N with
    | zero => simp [stateAt, W]
    | succ t ih =>
      have d := brl_dissipation P A B C D γ hγ hP hPu h (stateAt A B u t) (u t)
      simp only [Finset.sum_range_succ, stateAt]
      rw [mul_add, mul_add]
      linarith
  have hN := inv N
  have hw := hWpos (stateAt A B u N)
  have hginv : 0 < γ⁻¹ := inv_pos.mpr hγ
  have : γ⁻¹ * (Finset.range N).sum (fun t => (C *ᵥ stateAt A B u t + D *ᵥ u t) ⬝ᵥ (C *ᵥ stateAt A B u t + D *ᵥ u t))
      ≤ γ * (Finset.range N).sum (fun t => u t ⬝ᵥ u t) := by linarith
  have h2 := mul_le_mul_of_nonneg_left this hγ.le
  rw [← mul_assoc, mul_inv_cancel₀ hγ.ne', one_mul, ← mul_assoc] at h2
  calc _ ≤ γ * γ * _ := h2
    _ = γ^2 * _ := by ring

end PkLA
