import PkLA.Truncation
import Mathlib.LinearAlgebra.Matrix.Rank
import Mathlib.LinearAlgebra.Matrix.DotProduct
import Mathlib.LinearAlgebra.FiniteDimensional.Lemmas
import Mathlib.Analysis.InnerProductSpace.PiL2
import Mathlib.Tactic.Positivity
/-! Eckart–Young–Mirsky for the truncated SVD of `PkLA.Truncation`: `X = Q diag(s) Zᵀ` with orthonormal columns
(`Qᵀ Q = 1`, `Zᵀ Z = 1`, thin or full), index set `a ⊕ b` = kept ⊕ discarded triplets.
1. `truncation_opnorm_le`: the truncation error has gain `≤ τ` (largest discarded `|σ|`) in every direction.
2. `eckart_young_spectral(_embed)`: any `B` of rank below the number of singular values `≥ τ` has error gain `≥ τ` in
   some direction; `eckart_young_spectral_optimal` combines 1 and 2.
3. `eckart_young_frobenius(_optimal)`: any `B` of rank `≤ |a|` has `‖X - B‖_F² ≥ Σ_b σ² = ‖X - Xa‖_F²`. -/

namespace PkLA
open Matrix

variable {m n a b : Type}

/-! ### vector-level tools -/

theorem dot_self_nonneg {c : Type} [Fintype c] (v : c → ℝ) : 0 ≤ v ⬝ᵥ v :=
  Finset.sum_nonneg fun i _ => mul_self_nonneg (v i)

/-- orthonormal columns preserve the squared length -/
theorem dot_mulVec_orth [Fintype m] {c : Type} [Fintype c] [DecidableEq c] (Q : Matrix m c ℝ) (hQ : Qᵀ * Q = 1)
    (y : c → ℝ) : (Q *ᵥ y) ⬝ᵥ (Q *ᵥ y) = y ⬝ᵥ y := by
  rw [dotProduct_mulVec, ← mulVec_transpose, mulVec_mulVec, hQ, one_mulVec]

/-- Bessel: the coefficients against orthonormal columns are not longer than the vector -/
theorem dot_transpose_mulVec_le [Fintype n] {c : Type} [Fintype c] [DecidableEq c] (Z : Matrix n c ℝ) (hZ : Zᵀ * Z = 1)
    (x : n → ℝ) : (Zᵀ *ᵥ x) ⬝ᵥ (Zᵀ *ᵥ x) ≤ x ⬝ᵥ x := by
  set w := Zᵀ *ᵥ x with hw
  have h0 : 0 ≤ (x - Z *ᵥ w) ⬝ᵥ (x - Z *ᵥ w) := dot_self_nonneg _
  have h1 : x ⬝ᵥ (Z *ᵥ w) = w ⬝ᵥ w := by
    rw [dotProduct_mulVec, ← mulVec_transpose]
  have h2 : (Z *ᵥ w) ⬝ᵥ x = w ⬝ᵥ w := by rw [dotProduct_comm, h1]
  have h3 : (Z *ᵥ w) ⬝ᵥ (Z *ᵥ w) = w ⬝ᵥ w := dot_mulVec_orth Z hZ w
  simp only [sub_dotProduct, dotProduct_sub, h1, h2, h3] at h0
  linarith

theorem dot_diagonal_mulVec {c : Type} [Fintype c] [DecidableEq c] (s y : c → ℝ) :
    (diagonal s *ᵥ y) ⬝ᵥ (diagonal s *ᵥ y) = ∑ i, s i ^ 2 * y i ^ 2 := by
  simp only [dotProduct, mulVec_diagonal]
  exact Finset.sum_congr rfl (fun i _ => by ring)

theorem dot_diagonal_mulVec_le {c : Type} [Fintype c] [DecidableEq c] (s y : c → ℝ) (τ : ℝ)
    (h : ∀ i, |s i| ≤ τ) : (diagonal s *ᵥ y) ⬝ᵥ (diagonal s *ᵥ y) ≤ τ ^ 2 * (y ⬝ᵥ y) := by
  rw [dot_diagonal_mulVec, dotProduct, Finset.mul_sum]
  apply Finset.sum_le_sum
  intro i _
  have h1 : s i ^ 2 ≤ τ ^ 2 := sq_le_sq' (by linarith [abs_le.mp (h i)]) (abs_le.mp (h i)).2
  nlinarith [sq_nonneg (y i)]

theorem dot_diagonal_mulVec_ge {c : Type} [Fintype c] [DecidableEq c] (s y : c → ℝ) (τ : ℝ) (hτ : 0 ≤ τ)
    (h : ∀ i, τ ≤ s i) : τ ^ 2 * (y ⬝ᵥ y) ≤ (diagonal s *ᵥ y) ⬝ᵥ (diagonal s *ᵥ y) := by
  rw [dot_diagonal_mulVec, dotProduct, Finset.mul_sum]
  apply Finset.sum_le_sum
  intro i _
  have h1 : τ ^ 2 ≤ s i ^ 2 := by nlinarith [h i]
  nlinarith [sq_nonneg (y i)]

/-! ### 1. the truncation error is at most the largest discarded singular value -/

/-- **upper bound, spectral sense**: if all discarded `|σ|` are `≤ τ`, the truncation residual `X - Xa`
maps every `x` to a vector of squared length `≤ τ² ‖x‖²`. -/
theorem truncation_opnorm_le [Fintype m] [Fintype n] [Fintype a] [Fintype b]
    [DecidableEq a] [DecidableEq b] (Q : Matrix m (a ⊕ b) ℝ) (Z : Matrix n (a ⊕ b) ℝ) (s : a ⊕ b → ℝ)
    (hQ : Qᵀ * Q = 1) (hZ : Zᵀ * Z = 1) (τ : ℝ) (hs : ∀ k : b, |s (Sum.inr k)| ≤ τ) (x : n → ℝ) :
    ((Q * diagonal s * Zᵀ - keepL Q * diagonal (s ∘ Sum.inl) * (keepL Z)ᵀ) *ᵥ x)
        ⬝ᵥ ((Q * diagonal s * Zᵀ - keepL Q * diagonal (s ∘ Sum.inl) * (keepL Z)ᵀ) *ᵥ x)
      ≤ τ ^ 2 * (x ⬝ᵥ x) := by
  rw [(truncation_residual Q Z s hQ hZ).1, ← mulVec_mulVec, ← mulVec_mulVec,
    dot_mulVec_orth _ (orth_drop Q hQ)]
  calc _ ≤ τ ^ 2 * (((dropL Z)ᵀ *ᵥ x) ⬝ᵥ ((dropL Z)ᵀ *ᵥ x)) :=
        dot_diagonal_mulVec_le _ _ τ (fun k => hs k)
    _ ≤ τ ^ 2 * (x ⬝ᵥ x) :=
        mul_le_mul_of_nonneg_left (dot_transpose_mulVec_le _ (orth_drop Z hZ) x) (sq_nonneg τ)

/-! ### 2. no matrix of smaller rank does better -/

/-- a matrix with more columns than its rank kills a non-zero vector -/
theorem exists_ne_zero_mulVec_eq_zero {c : Type} [Fintype c] (M : Matrix m c ℝ)
    (h : M.rank < Fintype.card c) : ∃ y : c → ℝ, y ≠ 0 ∧ M *ᵥ y = 0 := by
  have h1 := LinearMap.finrank_range_add_finrank_ker M.mulVecLin
  rw [Module.finrank_fintype_fun_eq_card] at h1
  have h2 : 0 < Module.finrank ℝ (LinearMap.ker M.mulVecLin) := by
    unfold Matrix.rank at h; omega
  obtain ⟨⟨y, hy⟩, hy0⟩ := Module.finrank_pos_iff_exists_ne_zero.mp h2
  refine ⟨y, fun h0 => hy0 (Subtype.ext h0), ?_⟩
  simpa using hy

theorem orth_submatrix [Fintype n] {k c : Type} [Fintype k] [DecidableEq k] [Fintype c] [DecidableEq c]
    (Z : Matrix n k ℝ) (hZ : Zᵀ * Z = 1) (ι : c → k) (hι : Function.Injective ι) :
    (Z.submatrix id ι)ᵀ * Z.submatrix id ι = 1 := by
  ext i j
  have := congrFun (congrFun hZ (ι i)) (ι j)
  simpa [Matrix.mul_apply, Matrix.one_apply, hι.eq_iff] using this

/-- `X` restricted to the span of the selected right singular vectors -/
theorem svd_mul_submatrix [Fintype n] {k c : Type} [Fintype k] [DecidableEq k] [Fintype c] [DecidableEq c]
    (Q : Matrix m k ℝ) (Z : Matrix n k ℝ) (s : k → ℝ) (hZ : Zᵀ * Z = 1) (ι : c → k) :
    Q * diagonal s * Zᵀ * Z.submatrix id ι = Q.submatrix id ι * diagonal (s ∘ ι) := by
  have e : Zᵀ * Z.submatrix id ι = (Zᵀ * Z).submatrix id ι := rfl
  rw [Matrix.mul_assoc, e, hZ]
  ext i j
  simp [Matrix.mul_apply, Matrix.one_apply, diagonal_apply]

/-- **lower bound, spectral sense, general form**: `ι` selects `|c|` distinct triplets of the SVD whose singular values
are all `≥ τ ≥ 0`; any `B` of rank `< |c|` misses `X` by at least `τ` in some direction `x ≠ 0` -/
theorem eckart_young_spectral_embed {k c : Type} [Fintype m] [Fintype n] [Fintype k] [DecidableEq k]
    [Fintype c] [DecidableEq c]
    (Q : Matrix m k ℝ) (Z : Matrix n k ℝ) (s : k → ℝ) (hQ : Qᵀ * Q = 1) (hZ : Zᵀ * Z = 1)
    (ι : c → k) (hι : Function.Injective ι) (τ : ℝ) (hτ : 0 ≤ τ) (hs : ∀ i : c, τ ≤ s (ι i))
    (B : Matrix m n ℝ) (hB : B.rank < Fintype.card c) :
    ∃ x : n → ℝ, x ≠ 0 ∧
      τ ^ 2 * (x ⬝ᵥ x) ≤ ((Q * diagonal s * Zᵀ - B) *ᵥ x) ⬝ᵥ ((Q * diagonal s * Zᵀ - B) *ᵥ x) := by
  obtain ⟨y, hy0, hy⟩ := exists_ne_zero_mulVec_eq_zero (B * Z.submatrix id ι)
    (lt_of_le_of_lt (rank_mul_le_left B _) hB)
  have hxx : (Z.submatrix id ι *ᵥ y) ⬝ᵥ (Z.submatrix id ι *ᵥ y) = y ⬝ᵥ y :=
    dot_mulVec_orth _ (orth_submatrix Z hZ ι hι) y
  refine ⟨Z.submatrix id ι *ᵥ y, ?_, ?_⟩
  · intro h0
    rw [h0, zero_dotProduct] at hxx
    exact hy0 (dotProduct_self_eq_zero.mp hxx.symm)
  · rw [sub_mulVec, mulVec_mulVec, mulVec_mulVec, hy, sub_zero, svd_mul_submatrix Q Z s hZ ι, ← mulVec_mulVec,
      dot_mulVec_orth _ (orth_submatrix Q hQ ι hι), hxx]
    exact dot_diagonal_mulVec_ge _ y τ hτ hs

/-- **lower bound, spectral sense**: the SVD index set is `c ⊕ d`, the `c` singular values are all `≥ τ ≥ 0`;
any `B` of rank `< |c|` misses `X` by at least `τ` in some direction `x ≠ 0` -/
theorem eckart_young_spectral {c d : Type} [Fintype m] [Fintype n] [Fintype c] [Fintype d]
    [DecidableEq c] [DecidableEq d]
    (Q : Matrix m (c ⊕ d) ℝ) (Z : Matrix n (c ⊕ d) ℝ) (s : c ⊕ d → ℝ)
    (hQ : Qᵀ * Q = 1) (hZ : Zᵀ * Z = 1) (τ : ℝ) (hτ : 0 ≤ τ) (hs : ∀ i : c, τ ≤ s (Sum.inl i))
    (B : Matrix m n ℝ) (hB : B.rank < Fintype.card c) :
    ∃ x : n → ℝ, x ≠ 0 ∧
      τ ^ 2 * (x ⬝ᵥ x) ≤ ((Q * diagonal s * Zᵀ - B) *ᵥ x) ⬝ᵥ ((Q * diagonal s * Zᵀ - B) *ᵥ x) :=
  eckart_young_spectral_embed Q Z s hQ hZ Sum.inl Sum.inl_injective τ hτ hs B hB

/-- the truncation is itself a competitor: its rank is at most the number of kept triplets -/
theorem truncation_rank_le [Fintype m] [Fintype n] [Fintype a] [DecidableEq a]
    (Q : Matrix m (a ⊕ b) ℝ) (Z : Matrix n (a ⊕ b) ℝ) (s : a ⊕ b → ℝ) :
    (keepL Q * diagonal (s ∘ Sum.inl) * (keepL Z)ᵀ).rank ≤ Fintype.card a :=
  le_trans (rank_mul_le_left _ _) (rank_le_card_width _)

/-- **Eckart–Young–Mirsky, spectral norm**: `k0` is the largest discarded triplet (`τ = σ k0`), all kept singular values
are `≥ τ`, all discarded ones are `≤ τ` in absolute value.  Then the truncation (rank `≤ |a|`) has error gain `≤ τ` in
every direction, while every `B` of rank `≤ |a|` has error gain `≥ τ` in some direction. -/
theorem eckart_young_spectral_optimal [Fintype m] [Fintype n] [Fintype a] [Fintype b]
    [DecidableEq a] [DecidableEq b]
    (Q : Matrix m (a ⊕ b) ℝ) (Z : Matrix n (a ⊕ b) ℝ) (s : a ⊕ b → ℝ)
    (hQ : Qᵀ * Q = 1) (hZ : Zᵀ * Z = 1) (k0 : b)
    (hkeep : ∀ i : a, s (Sum.inr k0) ≤ s (Sum.inl i))
    (hdrop : ∀ k : b, |s (Sum.inr k)| ≤ s (Sum.inr k0)) :
    (keepL Q * diagonal (s ∘ Sum.inl) * (keepL Z)ᵀ).rank ≤ Fintype.card a
    ∧ (∀ x : n → ℝ,
        ((Q * diagonal s * Zᵀ - keepL Q * diagonal (s ∘ Sum.inl) * (keepL Z)ᵀ) *ᵥ x)
          ⬝ᵥ ((Q * diagonal s * Zᵀ - keepL Q * diagonal (s ∘ Sum.inl) * (keepL Z)ᵀ) *ᵥ x)
        ≤ s (Sum.inr k0) ^ 2 * (x ⬝ᵥ x))
    ∧ (∀ B : Matrix m n ℝ, B.rank ≤ Fintype.card a → ∃ x : n → ℝ, x ≠ 0 ∧
        s (Sum.inr k0) ^ 2 * (x ⬝ᵥ x)
          ≤ ((Q * diagonal s * Zᵀ - B) *ᵥ x) ⬝ᵥ ((Q * diagonal s * Zᵀ - B) *ᵥ x)) := by
  refine ⟨truncation_rank_le Q Z s, truncation_opnorm_le Q Z s hQ hZ _ hdrop, ?_⟩
  intro B hB
  have hτ : 0 ≤ s (Sum.inr k0) := le_trans (abs_nonneg _) (hdrop k0)
  refine eckart_young_spectral_embed Q Z s hQ hZ
    (fun o : Option a => o.elim (Sum.inr k0) Sum.inl) ?_ _ hτ ?_ B ?_
  · intro o o' h
    cases o <;> cases o' <;> simp_all
  · intro o
    cases o with
    | none => exact le_refl _
    | some i => exact hkeep i
  · rw [Fintype.card_option]; omega

/-! ### 3. Frobenius norm -/

/-- every subspace of `c → ℝ` has an orthonormal basis, written as the columns of a matrix -/
theorem exists_orth_columns {c : Type} [Fintype c] (S : Submodule ℝ (c → ℝ)) :
    ∃ W : Matrix c (Fin (Module.finrank ℝ S)) ℝ, Wᵀ * W = 1 ∧ ∀ l, (fun j => W j l) ∈ S := by
  classical
  let e := WithLp.linearEquiv 2 ℝ (c → ℝ)
  let S' : Submodule ℝ (EuclideanSpace ℝ c) := S.map (e.symm : (c → ℝ) →ₗ[ℝ] EuclideanSpace ℝ c)
  have hd : Module.finrank ℝ S' = Module.finrank ℝ S := LinearEquiv.finrank_map_eq e.symm S
  let bs := stdOrthonormalBasis ℝ S'
  have hmem : ∀ l, WithLp.ofLp (bs l : EuclideanSpace ℝ c) ∈ S := by
    intro l
    obtain ⟨v, hv, hvl⟩ := (bs l).2
    have : WithLp.ofLp (bs l : EuclideanSpace ℝ c) = v := by rw [← hvl]; rfl
    rw [this]; exact hv
  have hin : ∀ l l', (WithLp.ofLp (bs l : EuclideanSpace ℝ c)) ⬝ᵥ (WithLp.ofLp (bs l' : EuclideanSpace ℝ c))
      = if l = l' then 1 else 0 := by
    intro l l'
    have h := (orthonormal_iff_ite.mp bs.orthonormal) l' l
    rw [Submodule.coe_inner, EuclideanSpace.inner_eq_star_dotProduct] at h
    simp only [star_trivial] at h
    rw [h]
    simp [eq_comm]
  refine ⟨(Matrix.of fun j l => WithLp.ofLp (bs (Fin.cast hd.symm l) : EuclideanSpace ℝ c) j), ?_, ?_⟩
  · ext l l'
    simp only [Matrix.mul_apply, transpose_apply, of_apply, one_apply]
    have := hin (Fin.cast hd.symm l) (Fin.cast hd.symm l')
    simp only [dotProduct] at this
    rw [this]
    simp [Fin.ext_iff]
  · intro l
    exact hmem _


/-! ### Frobenius tools -/

theorem fro2_eq_sum_rows [Fintype m] [Fintype n] (M : Matrix m n ℝ) : fro2 M = ∑ i, M i ⬝ᵥ M i := by
  simp only [fro2, trace, diag, mul_apply, transpose_apply, dotProduct]

/-- multiplying on the right by orthonormal columns does not increase the Frobenius norm -/
theorem fro2_mul_orth_le [Fintype m] [Fintype n] {c : Type} [Fintype c] [DecidableEq c]
    (Y : Matrix m n ℝ) (W : Matrix n c ℝ) (hW : Wᵀ * W = 1) : fro2 (Y * W) ≤ fro2 Y := by
  rw [fro2_eq_sum_rows, fro2_eq_sum_rows]
  apply Finset.sum_le_sum
  intro i _
  rw [mul_apply_eq_vecMul, ← mulVec_transpose]
  exact dot_transpose_mulVec_le W hW (Y i)

/-- multiplying on the left by orthonormal columns keeps the Frobenius norm -/
theorem fro2_orth_mul [Fintype m] [Fintype n] {c : Type} [Fintype c] [DecidableEq c]
    (Q : Matrix m c ℝ) (hQ : Qᵀ * Q = 1) (M : Matrix c n ℝ) : fro2 (Q * M) = fro2 M := by
  unfold fro2
  rw [transpose_mul, Matrix.mul_assoc, trace_mul_comm, Matrix.mul_assoc, Matrix.mul_assoc, hQ, Matrix.mul_one]

theorem fro2_diagonal_mul {c k : Type} [Fintype c] [DecidableEq c] [Fintype k] (s : c → ℝ) (W : Matrix c k ℝ) :
    fro2 (diagonal s * W) = ∑ j, s j ^ 2 * (W j ⬝ᵥ W j) := by
  rw [fro2_eq_sum_rows]
  apply Finset.sum_congr rfl
  intro j _
  simp only [dotProduct, diagonal_mul, Finset.mul_sum]
  exact Finset.sum_congr rfl (fun l _ => by ring)

theorem row_dot_le_one {c k : Type} [Fintype c] [DecidableEq c] [Fintype k] [DecidableEq k]
    (W : Matrix c k ℝ) (hW : Wᵀ * W = 1) (j : c) : W j ⬝ᵥ W j ≤ 1 := by
  have h := dot_transpose_mulVec_le W hW (Pi.single j 1)
  have e : Wᵀ *ᵥ Pi.single j 1 = W j := by
    rw [mulVec_single_one]; rfl
  rw [e] at h
  simpa using h

theorem sum_row_dot {c k : Type} [Fintype c] [DecidableEq c] [Fintype k] [DecidableEq k]
    (W : Matrix c k ℝ) (hW : Wᵀ * W = 1) : ∑ j, W j ⬝ᵥ W j = Fintype.card k := by
  rw [← fro2_eq_sum_rows, fro2, trace_mul_comm, hW, trace_one]

/-- the weight argument: weights in `[0,1]` of total mass `≥ |b|` put on values that are larger on `a` than on `b` -/
theorem weights_lemma [Fintype a] [Fintype b] (g u : a ⊕ b → ℝ) (hg0 : ∀ j, 0 ≤ g j)
    (hg : ∀ i k, g (Sum.inr k) ≤ g (Sum.inl i)) (hu0 : ∀ j, 0 ≤ u j) (hu1 : ∀ j, u j ≤ 1)
    (hu : (Fintype.card b : ℝ) ≤ ∑ j, u j) : ∑ k, g (Sum.inr k) ≤ ∑ j, g j * u j := by
  rcases isEmpty_or_nonempty b with hb | hb
  · rw [Finset.sum_of_isEmpty]
    exact Finset.sum_nonneg (fun j _ => mul_nonneg (hg0 j) (hu0 j))
  · obtain ⟨k0, hk0⟩ := Finite.exists_max (fun k : b => g (Sum.inr k))
    set t := g (Sum.inr k0) with ht
    have h1 : ∑ i : a, t * u (Sum.inl i) ≤ ∑ i : a, g (Sum.inl i) * u (Sum.inl i) :=
      Finset.sum_le_sum (fun i _ => mul_le_mul_of_nonneg_right (hg i k0) (hu0 _))
    have h2 : ∑ k : b, g (Sum.inr k) * (1 - u (Sum.inr k)) ≤ ∑ k : b, t * (1 - u (Sum.inr k)) :=
      Finset.sum_le_sum (fun k _ => mul_le_mul_of_nonneg_right (hk0 k) (by linarith [hu1 (Sum.inr k)]))
    rw [Fintype.sum_sum_type] at hu ⊢
    simp only [mul_sub, mul_one, Finset.sum_sub_distrib, Finset.sum_const, Finset.card_univ, nsmul_eq_mul,
      ← Finset.mul_sum] at h1 h2
    have h3 : 0 ≤ t * (∑ i : a, u (Sum.inl i) + ∑ k : b, u (Sum.inr k) - Fintype.card b) :=
      mul_nonneg (hg0 _) (by linarith)
    linarith


/-- **Eckart–Young–Mirsky, Frobenius norm**: with the singular values non-negative and every kept one at least every
discarded one, no `B` of rank `≤ |a|` is closer to `X` than `Σ_b σ²` (the distance of the truncation, by
`truncation_residual`) -/
theorem eckart_young_frobenius [Fintype m] [Fintype n] [Fintype a] [Fintype b] [DecidableEq a] [DecidableEq b]
    (Q : Matrix m (a ⊕ b) ℝ) (Z : Matrix n (a ⊕ b) ℝ) (s : a ⊕ b → ℝ)
    (hQ : Qᵀ * Q = 1) (hZ : Zᵀ * Z = 1) (hs0 : ∀ j, 0 ≤ s j)
    (hsort : ∀ (i : a) (k : b), s (Sum.inr k) ≤ s (Sum.inl i))
    (B : Matrix m n ℝ) (hB : B.rank ≤ Fintype.card a) :
    ∑ k : b, s (Sum.inr k) ^ 2 ≤ fro2 (Q * diagonal s * Zᵀ - B) := by
  obtain ⟨W, hW, hmem⟩ := exists_orth_columns (LinearMap.ker (B * Z).mulVecLin)
  have hrank : (B * Z).rank ≤ Fintype.card a := le_trans (rank_mul_le_left B Z) hB
  have hdim := LinearMap.finrank_range_add_finrank_ker (B * Z).mulVecLin
  rw [Module.finrank_fintype_fun_eq_card, Fintype.card_sum] at hdim
  have hk : Fintype.card b ≤ Module.finrank ℝ (LinearMap.ker (B * Z).mulVecLin) := by
    unfold Matrix.rank at hrank; omega
  have hMW : B * Z * W = 0 := by
    ext i l
    have := congrFun (LinearMap.mem_ker.mp (hmem l)) i
    exact this
  have e : (Q * diagonal s * Zᵀ - B) * Z * W = Q * (diagonal s * W) := by
    rw [Matrix.sub_mul, Matrix.sub_mul, hMW, sub_zero, Matrix.mul_assoc (Q * diagonal s), hZ, Matrix.mul_one,
      Matrix.mul_assoc]
  calc ∑ k : b, s (Sum.inr k) ^ 2
      ≤ ∑ j, s j ^ 2 * (W j ⬝ᵥ W j) := by
        apply weights_lemma (fun j => s j ^ 2) (fun j => W j ⬝ᵥ W j)
        · intro j; positivity
        · intro i k; nlinarith [hs0 (Sum.inr k), hsort i k]
        · intro j; exact dot_self_nonneg _
        · intro j; exact row_dot_le_one W hW j
        · rw [sum_row_dot W hW, Fintype.card_fin]; exact_mod_cast hk
    _ = fro2 (Q * (diagonal s * W)) := by rw [fro2_orth_mul Q hQ, fro2_diagonal_mul]
    _ = fro2 ((Q * diagonal s * Zᵀ - B) * Z * W) := by rw [e]
    _ ≤ fro2 ((Q * diagonal s * Zᵀ - B) * Z) := fro2_mul_orth_le _ W hW
    _ ≤ fro2 (Q * diagonal s * Zᵀ - B) := fro2_mul_orth_le _ Z hZ


/-- **Eckart–Young–Mirsky, Frobenius norm, as optimality of the truncation** -/
theorem eckart_young_frobenius_optimal [Fintype m] [Fintype n] [Fintype a] [Fintype b]
    [DecidableEq a] [DecidableEq b]
    (Q : Matrix m (a ⊕ b) ℝ) (Z : Matrix n (a ⊕ b) ℝ) (s : a ⊕ b → ℝ)
    (hQ : Qᵀ * Q = 1) (hZ : Zᵀ * Z = 1) (hs0 : ∀ j, 0 ≤ s j)
    (hsort : ∀ (i : a) (k : b), s (Sum.inr k) ≤ s (Sum.inl i))
    (B : Matrix m n ℝ) (hB : B.rank ≤ Fintype.card a) :
    fro2 (Q * diagonal s * Zᵀ - keepL Q * diagonal (s ∘ Sum.inl) * (keepL Z)ᵀ)
      ≤ fro2 (Q * diagonal s * Zᵀ - B) := by
  rw [(truncation_residual Q Z s hQ hZ).2]
  exact eckart_young_frobenius Q Z s hQ hZ hs0 hsort B hB

/-! ### non-vacuity: the hypotheses of every theorem hold on a concrete instance
(`X = diag(2, 1)` on index set `Unit ⊕ Unit`, `Q = Z = 1`, keep the first triplet, competitor `B = 0`) -/

section Examples

/-- the singular values of the instance: kept `2`, discarded `1` -/
def exS : Unit ⊕ Unit → ℝ := Sum.elim (fun _ => 2) (fun _ => 1)

abbrev exQ : Matrix (Unit ⊕ Unit) (Unit ⊕ Unit) ℝ := 1

theorem exQ_orth : exQᵀ * exQ = 1 := by simp

/-- hypotheses of `truncation_opnorm_le` (with `τ = 1`) -/
example : ∀ x : Unit ⊕ Unit → ℝ,
    ((exQ * diagonal exS * exQᵀ - keepL exQ * diagonal (exS ∘ Sum.inl) * (keepL exQ)ᵀ) *ᵥ x)
        ⬝ᵥ ((exQ * diagonal exS * exQᵀ - keepL exQ * diagonal (exS ∘ Sum.inl) * (keepL exQ)ᵀ) *ᵥ x)
      ≤ 1 ^ 2 * (x ⬝ᵥ x) :=
  truncation_opnorm_le exQ exQ exS exQ_orth exQ_orth 1 (by simp [exS])

/-- hypotheses of `eckart_young_spectral` (with `τ = 2`, `B = 0` of rank `0 < 1`) -/
example : ∃ x : Unit ⊕ Unit → ℝ, x ≠ 0 ∧
    2 ^ 2 * (x ⬝ᵥ x) ≤ ((exQ * diagonal exS * exQᵀ - 0) *ᵥ x) ⬝ᵥ ((exQ * diagonal exS * exQᵀ - 0) *ᵥ x) :=
  eckart_young_spectral exQ exQ exS exQ_orth exQ_orth 2 (by norm_num) (by simp [exS]) 0 (by simp)

/-- hypotheses of `eckart_young_spectral_optimal` (`k0` the only discarded triplet, `τ = 1`) -/
example :=
  eckart_young_spectral_optimal exQ exQ exS exQ_orth exQ_orth () (by simp [exS]) (by simp [exS])

/-- hypotheses of `eckart_young_frobenius` (`B = 0`): the bound reads `1² ≤ ‖X‖_F²` -/
example : ∑ k : Unit, exS (Sum.inr k) ^ 2 ≤ fro2 (exQ * diagonal exS * exQᵀ - 0) :=
  eckart_young_frobenius exQ exQ exS exQ_orth exQ_orth (by intro j; cases j <;> simp [exS])
    (by simp [exS]) 0 (by simp)

/-- hypotheses of `eckart_young_frobenius_optimal` (`B = 0`) -/
example : fro2 (exQ * diagonal exS * exQᵀ - keepL exQ * diagonal (exS ∘ Sum.inl) * (keepL exQ)ᵀ)
    ≤ fro2 (exQ * diagonal exS * exQᵀ - 0) :=
  eckart_young_frobenius_optimal exQ exQ exS exQ_orth exQ_orth (by intro j; cases j <;> simp [exS])
    (by simp [exS]) 0 (by simp)

end Examples

end PkLA

