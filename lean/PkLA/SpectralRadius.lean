import Mathlib.LinearAlgebra.Matrix.PosDef
import Mathlib.Analysis.Complex.Basic
import Mathlib.Tactic.Ring
import Mathlib.Tactic.Linarith

namespace PkLA

/-! the spectral-radius LMI bounds every complex eigenvalue. -/
open Matrix

variable {n : Type} [Fintype n] [DecidableEq n]

/-- the spectral-radius block of `LmiEdmdSpectralRadiusConstr` for symmetric `P` (generic in the ring so that
the same definition is evaluated over ℚ by the driver and reasoned about over ℝ) -/
def specLMI {R : Type} [CommRing R] (ρ : R) (P A : Matrix n n R) : Matrix (n ⊕ n) (n ⊕ n) R :=
  fromBlocks (ρ • P) (Aᵀ * P) (P * A) (ρ • P)

def V (P : Matrix n n ℝ) (x : n → ℝ) : ℝ := x ⬝ᵥ (P *ᵥ x)

omit [DecidableEq n] in
theorem lyap_step (ρ : ℝ) (hρ : 0 < ρ) (P A : Matrix n n ℝ)
    (h : (specLMI ρ P A).PosDef) (x : n → ℝ) (hx : x ≠ 0) :
    V P (A *ᵥ x) < ρ^2 * V P x := by
  have hz : (Sum.elim (ρ • x) (-(A *ᵥ x)) : n ⊕ n → ℝ) ≠ 0 := by
    intro h0; apply hx; funext i
    have := congrFun h0 (Sum.inl i)
    simp at this
    rcases this with h1 | h1
    · exact absurd h1 hρ.ne'
    · exact h1
  have key := h.dotProduct_mulVec_pos hz
  simp only [specLMI, star_trivial, fromBlocks_mulVec, sumElim_dotProduct_sumElim,
    Sum.elim_comp_inl, Sum.elim_comp_inr] at key
  have e1 : x ⬝ᵥ ((Aᵀ * P) *ᵥ (A *ᵥ x)) = V P (A *ᵥ x) := by
    unfold V; rw [← mulVec_mulVec, dotProduct_mulVec, vecMul_transpose]
  have e2 : (A *ᵥ x) ⬝ᵥ ((P * A) *ᵥ x) = V P (A *ᵥ x) := by
    unfold V; rw [← mulVec_mulVec]
  simp only [mulVec_smul, smul_mulVec, mulVec_neg, dotProduct_add, smul_dotProduct,
    dotProduct_smul, neg_dotProduct, dotProduct_neg, e1, e2, smul_eq_mul] at key
  have hV : x ⬝ᵥ (P *ᵥ x) = V P x := rfl
  rw [hV] at key
  have hV2 : (A *ᵥ x) ⬝ᵥ (P *ᵥ (A *ᵥ x)) = V P (A *ᵥ x) := rfl
  rw [hV2] at key
  have : 0 < ρ * (ρ^2 * V P x - V P (A *ᵥ x)) := by nlinarith [key]
  have h2 := (mul_pos_iff_of_pos_left hρ).mp this
  linarith

omit [DecidableEq n] in
theorem V_pos (ρ : ℝ) (hρ : 0 < ρ) (P A : Matrix n n ℝ)
    (h : (specLMI ρ P A).PosDef) (x : n → ℝ) (hx : x ≠ 0) : 0 < V P x := by
  have hz : (Sum.elim x 0 : n ⊕ n → ℝ) ≠ 0 := by
    intro h0; apply hx; funext i
    simpa using congrFun h0 (Sum.inl i)
  have key := h.dotProduct_mulVec_pos hz
  simp only [specLMI, star_trivial, fromBlocks_mulVec, sumElim_dotProduct_sumElim,
    Sum.elim_comp_inl, Sum.elim_comp_inr, mulVec_zero, add_zero, zero_dotProduct,
    smul_mulVec, dotProduct_smul, smul_eq_mul] at key
  have hV : x ⬝ᵥ (P *ᵥ x) = V P x := rfl
  rw [hV] at key
  exact (mul_pos_iff_of_pos_left hρ).mp key

omit [DecidableEq n] in
theorem lyap_step_le (ρ : ℝ) (hρ : 0 < ρ) (P A : Matrix n n ℝ)
    (h : (specLMI ρ P A).PosDef) (x : n → ℝ) : V P (A *ᵥ x) ≤ ρ^2 * V P x := by
  by_cases hx : x = 0
  · subst hx; simp [V]
  · exact (lyap_step ρ hρ P A h x hx).le

/-- real/imaginary parts of an eigen-relation -/
theorem eigen_bound (ρ : ℝ) (hρ : 0 < ρ) (P A : Matrix n n ℝ) (h : (specLMI ρ P A).PosDef)
    (a b : ℝ) (x y : n → ℝ) (hxy : x ≠ 0 ∨ y ≠ 0)
    (hx : A *ᵥ x = a • x - b • y) (hy : A *ᵥ y = b • x + a • y) :
    a^2 + b^2 < ρ^2 := by
  have hsum : V P (A *ᵥ x) + V P (A *ᵥ y) = (a^2 + b^2) * (V P x + V P y) := by
    rw [hx, hy]
    simp only [V, mulVec_sub, mulVec_add, mulVec_smul, dotProduct_sub, dotProduct_add, sub_dotProduct,
      add_dotProduct, smul_dotProduct, dotProduct_smul, smul_eq_mul]
    ring
  have hS : 0 < V P x + V P y := by
    rcases hxy with h1 | h1
    · have := V_pos ρ hρ P A h x h1
      have h2 : 0 ≤ V P y := by
        by_cases hy0 : y = 0
        · subst hy0; simp [V]
        · exact (V_pos ρ hρ P A h y hy0).le
      linarith
    · have := V_pos ρ hρ P A h y h1
      have h2 : 0 ≤ V P x := by
        by_cases hx0 : x = 0
        · subst hx0; simp [V]
        · exact (V_pos ρ hρ P A h x hx0).le
      linarith
  have hlt : V P (A *ᵥ x) + V P (A *ᵥ y) < ρ^2 * (V P x + V P y) := by
    rcases hxy with h1 | h1
    · have := lyap_step ρ hρ P A h x h1
      have := lyap_step_le ρ hρ P A h y
      linarith
    · have := lyap_step ρ hρ P A h y h1
      have := lyap_step_le ρ hρ P A h x
      linarith
  rw [hsum] at hlt
  by_contra hcon
  push_neg at hcon
  nlinarith


theorem eigen_complex (ρ : ℝ) (hρ : 0 < ρ) (P A : Matrix n n ℝ) (h : (specLMI ρ P A).PosDef)
    (μ : ℂ) (v : n → ℂ) (hv : v ≠ 0) (hev : (A.map Complex.ofReal) *ᵥ v = μ • v) :
    ‖μ‖ < ρ := by
  let x : n → ℝ := fun i => (v i).re
  let y : n → ℝ := fun i => (v i).im
  have hre : ∀ i, ((A.map Complex.ofReal) *ᵥ v) i = ((A *ᵥ x) i : ℝ) + ((A *ᵥ y) i : ℝ) * Complex.I := by
    intro i
    apply Complex.ext
    · simp [mulVec, dotProduct, x, y, Complex.re_sum]
    · simp [mulVec, dotProduct, x, y, Complex.im_sum]
  have hx : A *ᵥ x = μ.re • x - μ.im • y := by
    funext i
    have := congrArg Complex.re (congrFun hev i)
    rw [hre i] at this
    simpa [x, y] using this
  have hy : A *ᵥ y = μ.im • x + μ.re • y := by
    funext i
    have := congrArg Complex.im (congrFun hev i)
    rw [hre i] at this
    simp [x, y] at this ⊢
    linarith
  have hxy : x ≠ 0 ∨ y ≠ 0 := by
    by_contra hcon
    push Not at hcon
    apply hv
    funext i
    apply Complex.ext
    · simpa [x] using congrFun hcon.1 i
    · simpa [y] using congrFun hcon.2 i
  have hb := eigen_bound ρ hρ P A h μ.re μ.im x y hxy hx hy
  have hn : ‖μ‖^2 = μ.re^2 + μ.im^2 := by
    rw [Complex.sq_norm, Complex.normSq_apply]; ring
  have hn0 : 0 ≤ ‖μ‖ := norm_nonneg μ
  nlinarith

end PkLA
