import Mathlib.Probability.Distributions.Gaussian.Multivariate

namespace PkLA
open MeasureTheory ProbabilityTheory Complex
open scoped RealInnerProductSpace

variable {E : Type*} [NormedAddCommGroup E] [InnerProductSpace ℝ E] [FiniteDimensional ℝ E]
  [MeasurableSpace E] [BorelSpace E]

/-- **Gaussian weights give the Gaussian kernel.**  For standard normal weights `w`, the mean of the `weight_only`
feature product `cos(√(2·shape)·⟨w, x − y⟩)` (see `rff_pair`) - and, by `rff_offset_average`, of the `weight_offset`
product - is `exp(−shape·‖x − y‖²)`, the kernel `'gaussian'` names. -/
theorem rff_gaussian_mean (s : ℝ) (hs : 0 ≤ s) (δ : E) :
    ∫ w, Real.cos (Real.sqrt (2 * s) * ⟪w, δ⟫) ∂(stdGaussian E) = Real.exp (-(s * ‖δ‖ ^ 2)) := by
  have h := charFun_stdGaussian (E := E) (Real.sqrt (2 * s) • δ)
  rw [charFun_apply] at h
  have hre := congrArg Complex.re h
  have hint : Integrable (fun x : E => cexp (⟪x, Real.sqrt (2 * s) • δ⟫ * I)) (stdGaussian E) := by
    apply (integrable_const (1 : ℝ)).mono'
    · exact (by fun_prop : Measurable fun x : E => cexp (⟪x, Real.sqrt (2 * s) • δ⟫ * I)).aestronglyMeasurable
    · filter_upwards with x
      rw [Complex.norm_exp_ofReal_mul_I]
  have e1 : (∫ x, cexp (⟪x, Real.sqrt (2 * s) • δ⟫ * I) ∂(stdGaussian E)).re
      = ∫ x, (cexp (⟪x, Real.sqrt (2 * s) • δ⟫ * I)).re ∂(stdGaussian E) := by
    exact (integral_re hint).symm
  rw [e1] at hre
  have e2 : ∀ x : E, (cexp (⟪x, Real.sqrt (2 * s) • δ⟫ * I)).re = Real.cos (Real.sqrt (2 * s) * ⟪x, δ⟫) := by
    intro x
    rw [Complex.exp_ofReal_mul_I_re, real_inner_smul_right]
  simp_rw [e2] at hre
  rw [hre, norm_smul, Real.norm_eq_abs, abs_of_nonneg (Real.sqrt_nonneg _)]
  have hsq : (Real.sqrt (2 * s) * ‖δ‖) ^ 2 = 2 * (s * ‖δ‖ ^ 2) := by
    rw [mul_pow, Real.sq_sqrt (by positivity)]; ring
  have : (-((Real.sqrt (2 * s) * ‖δ‖ : ℝ) : ℂ) ^ 2 / 2) = ((-(s * ‖δ‖ ^ 2) : ℝ) : ℂ) := by
    rw [← Complex.ofReal_pow, hsq]; push_cast; ring
  rw [this]
  exact Complex.exp_ofReal_re (-(s * ‖δ‖ ^ 2))

end PkLA

namespace PkLA
open MeasureTheory ProbabilityTheory
open scoped RealInnerProductSpace

/-- the same statement for what `scipy.stats.norm.rvs` is assumed to deliver: independent standard normal
coordinates `w_i` (product measure), with the inner product written as the sum the code computes -/
theorem rff_gaussian_mean_iid {ι : Type*} [Fintype ι] (s : ℝ) (hs : 0 ≤ s) (δ : ι → ℝ) :
    ∫ w : ι → ℝ, Real.cos (Real.sqrt (2 * s) * ∑ i, w i * δ i) ∂(Measure.pi fun _ : ι => gaussianReal 0 1)
      = Real.exp (-(s * ∑ i, δ i ^ 2)) := by
  have h := rff_gaussian_mean (E := EuclideanSpace ℝ ι) s hs (WithLp.toLp 2 δ)
  rw [← map_pi_eq_stdGaussian, integral_map (by fun_prop) (by fun_prop)] at h
  rw [EuclideanSpace.real_norm_sq_eq] at h
  simpa [PiLp.inner_apply, mul_comm] using h

end PkLA
