import PkLA.SvdExists
import Mathlib.LinearAlgebra.Matrix.Charpoly.Basic
import Mathlib.Algebra.Polynomial.Roots
import Mathlib.Algebra.Polynomial.BigOperators
/-! Uniqueness of the singular values of a real matrix (as a multiset). -/
namespace PkLA
open Matrix Polynomial

section
variable {m n r r' : Type} [Fintype m] [Fintype n] [Fintype r] [Fintype r']
  [DecidableEq m] [DecidableEq n] [DecidableEq r] [DecidableEq r']

omit [DecidableEq n] in
/-- a matrix with orthonormal columns has at most as many columns as rows -/
theorem card_le_of_orth (Z : Matrix n r ℝ) (hZ : Zᵀ * Z = 1) : Fintype.card r ≤ Fintype.card n := by
  calc Fintype.card r = (1 : Matrix r r ℝ).rank := rank_one.symm
    _ = (Zᵀ * Z).rank := by rw [hZ]
    _ ≤ Z.rank := rank_mul_le_right _ _
    _ ≤ Fintype.card n := rank_le_card_height _

omit [DecidableEq m] [DecidableEq n] [Fintype n] in
/-- the Gram matrix of `Q diag(s) Zᵀ` is `Z diag(s²) Zᵀ` -/
theorem gram_of_svd (X : Matrix m n ℝ) (Q : Matrix m r ℝ) (Z : Matrix n r ℝ) (s : r → ℝ)
    (hQ : Qᵀ * Q = 1) (hX : X = Q * diagonal s * Zᵀ) :
    Xᵀ * X = Z * (diagonal (fun i => s i ^ 2) * Zᵀ) := by
  have e : diagonal (fun i => s i ^ 2) = diagonal s * diagonal s := by
    rw [diagonal_mul_diagonal]; congr 1; funext i; exact sq (s i)
  rw [hX, transpose_mul, transpose_mul, transpose_transpose, diagonal_transpose, e]
  calc Z * (diagonal s * Qᵀ) * (Q * diagonal s * Zᵀ)
      = Z * diagonal s * (Qᵀ * Q) * diagonal s * Zᵀ := by simp only [Matrix.mul_assoc]
    _ = Z * (diagonal s * diagonal s * Zᵀ) := by rw [hQ, Matrix.mul_one]; simp only [Matrix.mul_assoc]

omit [DecidableEq m] in
/-- **characteristic polynomial of the Gram matrix from a compact SVD** -/
theorem gram_charpoly_of_svd (X : Matrix m n ℝ) (Q : Matrix m r ℝ) (Z : Matrix n r ℝ) (s : r → ℝ)
    (hQ : Qᵀ * Q = 1) (hZ : Zᵀ * Z = 1) (hX : X = Q * diagonal s * Zᵀ) :
    (Xᵀ * X).charpoly
      = Polynomial.X ^ (Fintype.card n - Fintype.card r) * ∏ i, (Polynomial.X - Polynomial.C (s i ^ 2)) := by
  rw [gram_of_svd X Q Z s hQ hX, charpoly_mul_comm_of_le _ _ (card_le_of_orth Z hZ), Matrix.mul_assoc, hZ,
    Matrix.mul_one, charpoly_diagonal]

omit [DecidableEq r] in
/-- the multiset of roots of `X^k ∏ (X − aᵢ)` -/
theorem roots_X_pow_mul_prod (k : ℕ) (a : r → ℝ) :
    ((Polynomial.X : ℝ[X]) ^ k * ∏ i, (Polynomial.X - Polynomial.C (a i))).roots
      = k • {0} + Multiset.map a Finset.univ.val := by
  have h1 : (Polynomial.X : ℝ[X]) ^ k ≠ 0 := pow_ne_zero _ X_ne_zero
  have h2 : (∏ i, ((Polynomial.X : ℝ[X]) - Polynomial.C (a i))) ≠ 0 :=
    Finset.prod_ne_zero_iff.2 fun i _ => X_sub_C_ne_zero (a i)
  rw [roots_mul (mul_ne_zero h1 h2), roots_X_pow, roots_prod _ _ h2]
  simp_rw [roots_X_sub_C]
  rw [Multiset.bind_singleton]

omit [DecidableEq r] in
theorem filter_ne_zero_roots (k : ℕ) (a : r → ℝ) (ha : ∀ i, a i ≠ 0) :
    Multiset.filter (fun x : ℝ => x ≠ 0) (k • {0} + Multiset.map a Finset.univ.val)
      = Multiset.map a Finset.univ.val := by
  rw [Multiset.filter_add, Multiset.filter_nsmul]
  have e1 : Multiset.filter (fun x : ℝ => x ≠ 0) ({0} : Multiset ℝ) = 0 := by
    rw [Multiset.filter_eq_nil]; intro x hx; simpa using hx
  have e2 : Multiset.filter (fun x : ℝ => x ≠ 0) (Multiset.map a Finset.univ.val)
      = Multiset.map a Finset.univ.val := by
    rw [Multiset.filter_eq_self]; intro x hx
    obtain ⟨i, _, rfl⟩ := Multiset.mem_map.1 hx
    exact ha i
  rw [e1, e2, smul_zero, zero_add]

omit [DecidableEq m] in
/-- the squared singular values are determined by the matrix -/
theorem singular_values_sq_unique (X : Matrix m n ℝ)
    (Q : Matrix m r ℝ) (Z : Matrix n r ℝ) (s : r → ℝ)
    (Q' : Matrix m r' ℝ) (Z' : Matrix n r' ℝ) (s' : r' → ℝ)
    (hQ : Qᵀ * Q = 1) (hZ : Zᵀ * Z = 1) (hs : ∀ i, 0 < s i) (hX : X = Q * diagonal s * Zᵀ)
    (hQ' : Q'ᵀ * Q' = 1) (hZ' : Z'ᵀ * Z' = 1) (hs' : ∀ j, 0 < s' j) (hX' : X = Q' * diagonal s' * Z'ᵀ) :
    Multiset.map (fun i => s i ^ 2) Finset.univ.val = Multiset.map (fun j => s' j ^ 2) Finset.univ.val := by
  have h := gram_charpoly_of_svd X Q Z s hQ hZ hX
  rw [gram_charpoly_of_svd X Q' Z' s' hQ' hZ' hX'] at h
  have hr := congrArg Polynomial.roots h
  rw [roots_X_pow_mul_prod, roots_X_pow_mul_prod] at hr
  have hf := congrArg (Multiset.filter (fun x : ℝ => x ≠ 0)) hr
  rw [filter_ne_zero_roots _ _ (fun i => ne_of_gt (pow_pos (hs i) 2)),
    filter_ne_zero_roots _ _ (fun j => ne_of_gt (pow_pos (hs' j) 2))] at hf
  exact hf.symm

omit [DecidableEq m] in
/-- **the singular values of a real matrix are unique**: two compact SVDs of the same matrix have the same
singular values, counted with multiplicity -/
theorem singular_values_unique (X : Matrix m n ℝ)
    (Q : Matrix m r ℝ) (Z : Matrix n r ℝ) (s : r → ℝ)
    (Q' : Matrix m r' ℝ) (Z' : Matrix n r' ℝ) (s' : r' → ℝ)
    (hQ : Qᵀ * Q = 1) (hZ : Zᵀ * Z = 1) (hs : ∀ i, 0 < s i) (hX : X = Q * diagonal s * Zᵀ)
    (hQ' : Q'ᵀ * Q' = 1) (hZ' : Z'ᵀ * Z' = 1) (hs' : ∀ j, 0 < s' j) (hX' : X = Q' * diagonal s' * Z'ᵀ) :
    Multiset.map s Finset.univ.val = Multiset.map s' Finset.univ.val := by
  have h := congrArg (Multiset.map Real.sqrt)
    (singular_values_sq_unique X Q Z s Q' Z' s' hQ hZ hs hX hQ' hZ' hs' hX')
  rw [Multiset.map_map, Multiset.map_map] at h
  have e : (Real.sqrt ∘ fun i => s i ^ 2) = s := funext fun i => Real.sqrt_sq (le_of_lt (hs i))
  have e' : (Real.sqrt ∘ fun j => s' j ^ 2) = s' := funext fun j => Real.sqrt_sq (le_of_lt (hs' j))
  rwa [e, e'] at h

omit [DecidableEq m] in
/-- in particular the number of triplets is the same -/
theorem singular_values_card_unique (X : Matrix m n ℝ)
    (Q : Matrix m r ℝ) (Z : Matrix n r ℝ) (s : r → ℝ)
    (Q' : Matrix m r' ℝ) (Z' : Matrix n r' ℝ) (s' : r' → ℝ)
    (hQ : Qᵀ * Q = 1) (hZ : Zᵀ * Z = 1) (hs : ∀ i, 0 < s i) (hX : X = Q * diagonal s * Zᵀ)
    (hQ' : Q'ᵀ * Q' = 1) (hZ' : Z'ᵀ * Z' = 1) (hs' : ∀ j, 0 < s' j) (hX' : X = Q' * diagonal s' * Z'ᵀ) :
    Fintype.card r = Fintype.card r' := by
  have h := congrArg Multiset.card (singular_values_unique X Q Z s Q' Z' s' hQ hZ hs hX hQ' hZ' hs' hX')
  simpa using h

omit [DecidableEq m] in
/-- every symmetric function of the singular values is well defined; here the nuclear norm `∑ σᵢ` and the squared
Frobenius norm `∑ σᵢ²` -/
theorem singular_values_sum_unique (X : Matrix m n ℝ)
    (Q : Matrix m r ℝ) (Z : Matrix n r ℝ) (s : r → ℝ)
    (Q' : Matrix m r' ℝ) (Z' : Matrix n r' ℝ) (s' : r' → ℝ)
    (hQ : Qᵀ * Q = 1) (hZ : Zᵀ * Z = 1) (hs : ∀ i, 0 < s i) (hX : X = Q * diagonal s * Zᵀ)
    (hQ' : Q'ᵀ * Q' = 1) (hZ' : Z'ᵀ * Z' = 1) (hs' : ∀ j, 0 < s' j) (hX' : X = Q' * diagonal s' * Z'ᵀ) :
    ∑ i, s i = ∑ j, s' j ∧ ∑ i, s i ^ 2 = ∑ j, s' j ^ 2 := by
  constructor
  · have h := congrArg Multiset.sum (singular_values_unique X Q Z s Q' Z' s' hQ hZ hs hX hQ' hZ' hs' hX')
    exact h
  · have h := congrArg Multiset.sum (singular_values_sq_unique X Q Z s Q' Z' s' hQ hZ hs hX hQ' hZ' hs' hX')
    exact h

omit [DecidableEq m] in
/-- **sorted singular values are unique**: with the conventional non-increasing order the two lists coincide -/
theorem sorted_singular_values_unique {k k' : ℕ} (X : Matrix m n ℝ)
    (Q : Matrix m (Fin k) ℝ) (Z : Matrix n (Fin k) ℝ) (s : Fin k → ℝ)
    (Q' : Matrix m (Fin k') ℝ) (Z' : Matrix n (Fin k') ℝ) (s' : Fin k' → ℝ)
    (hQ : Qᵀ * Q = 1) (hZ : Zᵀ * Z = 1) (hs : ∀ i, 0 < s i) (hX : X = Q * diagonal s * Zᵀ)
    (hQ' : Q'ᵀ * Q' = 1) (hZ' : Z'ᵀ * Z' = 1) (hs' : ∀ j, 0 < s' j) (hX' : X = Q' * diagonal s' * Z'ᵀ)
    (hmono : Antitone s) (hmono' : Antitone s') :
    ∃ h : k = k', ∀ i, s i = s' (Fin.cast h i) := by
  have hm := singular_values_unique X Q Z s Q' Z' s' hQ hZ hs hX hQ' hZ' hs' hX'
  rw [Fin.univ_val_map, Fin.univ_val_map] at hm
  have hp : List.Perm (List.ofFn s) (List.ofFn s') := Quotient.exact hm
  have hl : List.ofFn s = List.ofFn s' :=
    List.Perm.eq_of_sortedGE hmono.sortedGE_ofFn hmono'.sortedGE_ofFn hp
  have hk : k = k' := by simpa using congrArg List.length hl
  subst hk
  exact ⟨rfl, fun i => congrFun (List.ofFn_injective hl) i⟩

end

/-! non-vacuity: the identity on `Fin 2` has the compact SVDs `1 · diag(1,1) · 1ᵀ` and `P · diag(1,1) · Pᵀ` with `P`
the swap; the hypotheses of `singular_values_unique` hold for this pair -/
example :
    Multiset.map (fun _ : Fin 2 => (1 : ℝ)) Finset.univ.val = Multiset.map (fun _ : Fin 2 => (1 : ℝ)) Finset.univ.val := by
  let P : Matrix (Fin 2) (Fin 2) ℝ := !![0, 1; 1, 0]
  have hP : Pᵀ * P = 1 := by
    ext i j; fin_cases i <;> fin_cases j <;> simp [P, Matrix.mul_apply, Fin.sum_univ_two]
  refine singular_values_unique (1 : Matrix (Fin 2) (Fin 2) ℝ) 1 1 (fun _ => 1) P P (fun _ => 1)
    (by simp) (by simp) (fun _ => one_pos) ?_ hP hP (fun _ => one_pos) ?_
  · simp
  · ext i j; fin_cases i <;> fin_cases j <;> simp [P, Matrix.mul_apply, Fin.sum_univ_two]

/-- non-vacuity of the sorted form on a rank-one matrix: `!![2, 0; 0, 0] = e₁ · (2) · e₁ᵀ`, written twice with
opposite signs of the singular vectors; the conclusion is `s = s'` -/
example (Q Q' : Matrix (Fin 2) (Fin 1) ℝ) (hQ : Q = !![1; 0]) (hQ' : Q' = !![-1; 0]) :
    ∃ h : 1 = 1, ∀ i : Fin 1, (fun _ : Fin 1 => (2 : ℝ)) i = (fun _ : Fin 1 => (2 : ℝ)) (Fin.cast h i) := by
  have e : Qᵀ * Q = 1 := by
    subst hQ; ext i j; fin_cases i; fin_cases j; simp [Matrix.mul_apply, Fin.sum_univ_two]
  have e' : Q'ᵀ * Q' = 1 := by
    subst hQ'; ext i j; fin_cases i; fin_cases j; simp [Matrix.mul_apply, Fin.sum_univ_two]
  refine sorted_singular_values_unique (!![2, 0; 0, 0] : Matrix (Fin 2) (Fin 2) ℝ) Q Q (fun _ => 2) Q' Q' (fun _ => 2)
    e e (fun _ => two_pos) ?_ e' e' (fun _ => two_pos) ?_ (fun _ _ _ => le_rfl) (fun _ _ _ => le_rfl)
  · subst hQ; ext i j; fin_cases i <;> fin_cases j <;> simp [Matrix.mul_apply]
  · subst hQ'; ext i j; fin_cases i <;> fin_cases j <;> simp [Matrix.mul_apply]

end PkLA

