import Mathlib.LinearAlgebra.Matrix.NonsingularInverse
import Mathlib.LinearAlgebra.Matrix.ConjTranspose
import Mathlib.Data.Complex.Basic
import Mathlib.Data.Matrix.Reflection
/-! # The DMD reconstruction `V Λ V⁺` of conjugate-closed eigenpairs is a real matrix

`Dmd` / `Dmdc` publish `A = real(V Λ V⁺)` with `V⁺ = (VᴴV)⁻¹Vᴴ` the Moore–Penrose left inverse of the full-column-rank
mode matrix.  If the modes and eigenvalues are closed under complex conjugation (the eigenpairs of a real matrix), then
`V Λ V⁺` is already real, so taking the real part loses nothing and the published `eigenvalues_` / `modes_` are
eigenpairs of the published real block. -/
namespace PkLA
open Matrix

variable {n r : Type} [Fintype n] [Fintype r] [DecidableEq r]

/-- entrywise complex conjugation of a matrix -/
noncomputable abbrev cj {a b : Type} (M : Matrix a b ℂ) : Matrix a b ℂ := M.map (starRingEnd ℂ)

theorem cj_mul {a b c : Type} [Fintype b] (A : Matrix a b ℂ) (B : Matrix b c ℂ) : cj (A * B) = cj A * cj B :=
  Matrix.map_mul

/-- entrywise conjugation commutes with the matrix inverse -/
theorem cj_inv (G : Matrix r r ℂ) (hG : IsUnit G.det) : cj G⁻¹ = (cj G)⁻¹ := by
  symm
  apply Matrix.inv_eq_left_inv
  rw [← cj_mul, Matrix.nonsing_inv_mul _ hG]
  exact Matrix.map_one _ (map_zero _) (map_one _)

/-- **Goal 3.**  `(VᴴV)⁻¹Vᴴ` is a left inverse of a full-column-rank `V` -/
theorem pinv_left_inverse (V : Matrix n r ℂ) (hV : IsUnit (Vᴴ * V).det) : ((Vᴴ * V)⁻¹ * Vᴴ) * V = 1 := by
  rw [Matrix.mul_assoc, Matrix.nonsing_inv_mul _ hV]

/-- conjugating the (conjugate-closed) modes permutes the rows of the pseudo-inverse -/
theorem cj_pinv (V : Matrix n r ℂ) (σ : Equiv.Perm r) (hVσ : ∀ a i, V a (σ i) = star (V a i))
    (hV : IsUnit (Vᴴ * V).det) :
    cj ((Vᴴ * V)⁻¹ * Vᴴ) = ((Vᴴ * V)⁻¹ * Vᴴ).submatrix σ id := by
  have h1 : cj V = V.submatrix id σ := by
    ext a i; simp [hVσ]
  have h2 : cj Vᴴ = Vᴴ.submatrix σ id := by
    ext i a; simp [hVσ]
  have h3 : cj (Vᴴ * V) = (Vᴴ * V).submatrix σ σ := by
    rw [cj_mul, h1, h2]
    exact Matrix.submatrix_mul_equiv Vᴴ V σ (Equiv.refl n) σ
  rw [cj_mul, cj_inv _ hV, h3, Matrix.inv_submatrix_equiv, h2]
  exact Matrix.submatrix_mul_equiv _ _ σ σ id

/-- **Goal 1.**  Conjugate-closed eigenpairs reconstruct to a real matrix. -/
theorem reconstruction_real_of_conj_closed (V : Matrix n r ℂ) (lam : r → ℂ) (σ : Equiv.Perm r)
    (hlam : ∀ i, lam (σ i) = star (lam i)) (hVσ : ∀ a i, V a (σ i) = star (V a i))
    (hV : IsUnit (Vᴴ * V).det) (a b : n) :
    star ((V * diagonal lam * ((Vᴴ * V)⁻¹ * Vᴴ)) a b) = (V * diagonal lam * ((Vᴴ * V)⁻¹ * Vᴴ)) a b := by
  have h1 : cj V = V.submatrix id σ := by
    ext a i; simp [hVσ]
  have hD : cj (diagonal lam) = (diagonal lam).submatrix σ σ := by
    rw [Matrix.submatrix_diagonal_equiv]
    change (diagonal lam).map _ = _
    rw [Matrix.diagonal_map (map_zero _)]
    congr 1
    funext i
    simp [hlam]
  have key : cj (V * diagonal lam * ((Vᴴ * V)⁻¹ * Vᴴ)) = V * diagonal lam * ((Vᴴ * V)⁻¹ * Vᴴ) := by
    rw [cj_mul, cj_mul, h1, hD, cj_pinv V σ hVσ hV, Matrix.submatrix_mul_equiv, Matrix.submatrix_mul_equiv]
    rfl
  exact congrFun (congrFun key a) b

/-- the same, as a matrix identity: entrywise conjugation fixes the reconstruction -/
theorem reconstruction_map_star (V : Matrix n r ℂ) (lam : r → ℂ) (σ : Equiv.Perm r)
    (hlam : ∀ i, lam (σ i) = star (lam i)) (hVσ : ∀ a i, V a (σ i) = star (V a i))
    (hV : IsUnit (Vᴴ * V).det) :
    (V * diagonal lam * ((Vᴴ * V)⁻¹ * Vᴴ)).map star = V * diagonal lam * ((Vᴴ * V)⁻¹ * Vᴴ) :=
  Matrix.ext fun a b => reconstruction_real_of_conj_closed V lam σ hlam hVσ hV a b

/-- … and its entries have zero imaginary part -/
theorem reconstruction_im_eq_zero (V : Matrix n r ℂ) (lam : r → ℂ) (σ : Equiv.Perm r)
    (hlam : ∀ i, lam (σ i) = star (lam i)) (hVσ : ∀ a i, V a (σ i) = star (V a i))
    (hV : IsUnit (Vᴴ * V).det) (a b : n) :
    ((V * diagonal lam * ((Vᴴ * V)⁻¹ * Vᴴ)) a b).im = 0 :=
  Complex.conj_eq_iff_im.mp (reconstruction_real_of_conj_closed V lam σ hlam hVσ hV a b)

/-- the reconstruction is the complexification of a real matrix (its entrywise real part) -/
theorem reconstruction_eq_ofReal (V : Matrix n r ℂ) (lam : r → ℂ) (σ : Equiv.Perm r)
    (hlam : ∀ i, lam (σ i) = star (lam i)) (hVσ : ∀ a i, V a (σ i) = star (V a i))
    (hV : IsUnit (Vᴴ * V).det) :
    (V * diagonal lam * ((Vᴴ * V)⁻¹ * Vᴴ)).map (fun z => ((z.re : ℝ) : ℂ))
      = V * diagonal lam * ((Vᴴ * V)⁻¹ * Vᴴ) := by
  ext a b
  have h := reconstruction_real_of_conj_closed V lam σ hlam hVσ hV a b
  exact Complex.conj_eq_iff_re.mp h

theorem reconstruction_exists_real (V : Matrix n r ℂ) (lam : r → ℂ) (σ : Equiv.Perm r)
    (hlam : ∀ i, lam (σ i) = star (lam i)) (hVσ : ∀ a i, V a (σ i) = star (V a i))
    (hV : IsUnit (Vᴴ * V).det) :
    ∃ A : Matrix n n ℝ, V * diagonal lam * ((Vᴴ * V)⁻¹ * Vᴴ) = A.map Complex.ofReal :=
  ⟨(V * diagonal lam * ((Vᴴ * V)⁻¹ * Vᴴ)).map Complex.re,
    (reconstruction_eq_ofReal V lam σ hlam hVσ hV).symm⟩

/-- **Goal 2.**  The published real block `A = real(V Λ V⁺)` has the published eigenvalues and modes as eigenpairs. -/
theorem real_part_keeps_eigenpairs (V : Matrix n r ℂ) (lam : r → ℂ) (σ : Equiv.Perm r)
    (hlam : ∀ i, lam (σ i) = star (lam i)) (hVσ : ∀ a i, V a (σ i) = star (V a i))
    (hV : IsUnit (Vᴴ * V).det) (A : Matrix n n ℝ)
    (hA : ∀ a b, A a b = ((V * diagonal lam * ((Vᴴ * V)⁻¹ * Vᴴ)) a b).re) (i : r) :
    (A.map Complex.ofReal) *ᵥ (fun a => V a i) = lam i • (fun a => V a i) := by
  have hAM : A.map Complex.ofReal = V * diagonal lam * ((Vᴴ * V)⁻¹ * Vᴴ) := by
    rw [← reconstruction_eq_ofReal V lam σ hlam hVσ hV]
    ext a b
    simp [hA]
  have hcol : (fun a => V a i) = V *ᵥ Pi.single i 1 := by
    funext a; simp
  rw [hAM, hcol, mulVec_mulVec, Matrix.mul_assoc, pinv_left_inverse V hV, Matrix.mul_one, ← mulVec_mulVec]
  simp

/-- the hypotheses are satisfiable with a genuinely complex pair: the eigenpairs `(i, (1, -i))`, `(-i, (1, i))` of the
rotation `!![0, 1; -1, 0]`, paired by the swap -/
example :
    let V : Matrix (Fin 2) (Fin 2) ℂ := !![1, 1; -Complex.I, Complex.I]
    let lam : Fin 2 → ℂ := ![Complex.I, -Complex.I]
    let σ : Equiv.Perm (Fin 2) := Equiv.swap 0 1
    (∀ i, lam (σ i) = star (lam i)) ∧ (∀ a i, V a (σ i) = star (V a i)) ∧ IsUnit (Vᴴ * V).det := by
  intro V lam σ
  refine ⟨?_, ?_, ?_⟩
  · intro i; fin_cases i <;> simp [lam, σ]
  · intro a i; fin_cases a <;> fin_cases i <;> simp [V, σ]
  · rw [Matrix.det_mul, Matrix.det_conjTranspose]
    simp [V, Matrix.det_fin_two]

end PkLA

