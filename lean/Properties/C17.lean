import PkLA.Rff
import PkLA.RffGaussian
import PkLA.RffLaplace
import PkLA.RffMore
import Pk.Streams
import Pk.KindLaws
import Mathlib.Algebra.BigOperators.Group.Finset.Basic
import Mathlib.Tactic.FieldSimp
/-! # C17 — Random feature maps approximate the kernel they are named after

Proved: the exact identities of the two feature-generation methods (`weight_only`: the inner product of two
feature vectors is the average of `cos(⟨x−y, w_j⟩)` and every feature vector has unit norm; `weight_offset`:
averaging over a uniform offset removes it), the layout of `KernelApproxLiftingFn`, and the stream model of the
seed plumbing (integer seeds make weights and offsets read the same stream positions — finding F-rff).
Also proved: the three named kernels are the means of a feature product for i.i.d. weights of the distribution the
lookup table names, in any dimension - standard normal ↦ Gaussian kernel `exp(−shape·‖x−y‖²)`
(`C17_gaussian_kernel_mean`, Mathlib's Gaussian characteristic function), Laplace ↦ product Cauchy kernel
`∏ 1/(1+2·shape·(x_i−y_i)²)` (`C17_cauchy_kernel_mean`), Cauchy ↦ Laplacian kernel `exp(−√(2·shape)·‖x−y‖₁)`
(`C17_laplacian_kernel_mean`, by Fourier inversion of `e^{−|x|}`); unbiasedness of the `weight_offset` features over
an independent uniform offset (`C17_offset_unbiased`); and the concentration clause: for `D` independent draws the
estimate deviates from the kernel by `ε` with probability at most `2·exp(−D ε²/2)` (`weight_only`, Hoeffding,
`C17_concentration_*`) resp. `4/(D ε²)` (`weight_offset`, Chebyshev, `C17_offset_concentration`) - i.e. `O(1/√D)`.
NOT provable here: that scipy's samplers have the named distributions and that successive draws are independent
(the integer-seed defect F-rff is exactly a failure of that).  Property theorems only. -/
namespace Pk.C17
open Real Finset PkLA

/-- `weight_only`: with features `(1/√D)[cos p_j(x); sin p_j(x)]`, the inner product of two feature vectors is exactly
`(1/D) Σ_j cos(p_j(x) − p_j(y))` -/
theorem C17_weight_only_exact {ι : Type} (s : Finset ι) (a c : ι → ℝ) (D : ℝ) :
    (∑ j ∈ s, ((1/D) * (cos (a j) * cos (c j)))) + (∑ j ∈ s, ((1/D) * (sin (a j) * sin (c j))))
      = (1/D) * ∑ j ∈ s, cos (a j - c j) := by
  rw [← Finset.sum_add_distrib, Finset.mul_sum]
  apply Finset.sum_congr rfl
  intro j _
  rw [← rff_pair]; ring

/-- `weight_only`: every feature vector has unit norm -/
theorem C17_weight_only_unit {ι : Type} (s : Finset ι) (a : ι → ℝ) (hs : (s.card : ℝ) ≠ 0) :
    (∑ j ∈ s, ((1/(s.card : ℝ)) * (cos (a j) * cos (a j)))) + (∑ j ∈ s, ((1/(s.card : ℝ)) * (sin (a j) * sin (a j)))) = 1 := by
  rw [← Finset.sum_add_distrib]
  have : ∀ j ∈ s, (1/(s.card : ℝ)) * (cos (a j) * cos (a j)) + (1/(s.card : ℝ)) * (sin (a j) * sin (a j)) = 1/(s.card : ℝ) := by
    intro j _
    rw [← mul_add, rff_unit, mul_one]
  rw [Finset.sum_congr rfl this, Finset.sum_const, nsmul_eq_mul]
  field_simp

/-- `weight_offset`: the expectation over an offset uniform on `[0, 2π]` (independent of the weight) of
`√2 cos(a+b) · √2 cos(c+b)` is `cos(a − c)` -/
theorem C17_offset_average (a c : ℝ) :
    (1 / (2 * π)) * (∫ b in (0:ℝ)..(2*π), 2 * cos (a + b) * cos (c + b)) = cos (a - c) := by
  rw [rff_offset_average]
  field_simp

open Pk.Streams in
/-- a `RandomState` instance: weights (first call, `n` numbers) and offsets (second call, `k` numbers) read
disjoint stream positions -/
theorem C17_streams_instance (n k : Nat) :
    positions .instance 0 [n, k] = [List.range n, (List.range k).map (n + ·)]
    ∧ ∀ p ∈ List.range n, p ∉ (List.range k).map (n + ·) := by
  refine ⟨by simp [positions], ?_⟩
  intro p hp hq
  simp only [List.mem_range] at hp
  simp only [List.mem_map, List.mem_range] at hq
  obtain ⟨i, _, rfl⟩ := hq
  omega

open Pk.Streams in
/-- **finding F-rff as a theorem about the stream model**: with an integer seed the second call restarts the
stream — offset `j` and the `j`-th weight drawn are functions of the same stream position -/
theorem C17_streams_int_witness (n k : Nat) (j : Nat) (hj : j < min n k) :
    positions .int 0 [n, k] = [List.range n, List.range k]
    ∧ j ∈ List.range n ∧ j ∈ List.range k := by
  refine ⟨by simp [positions], ?_, ?_⟩ <;> simp only [List.mem_range] <;> omega

/-- `KernelApproxLiftingFn`: the flat lifted row is state, input, then the features — in the input-dependent block
whenever there is an input (C02) -/
theorem C17_lifting_layout {α : Type} (ops : Ops α) (ok : α → Prop) (id n : Nat) (r : Row α) :
    ((rowFn ops ok (.kernel id n)).f r).x ++ ((rowFn ops ok (.kernel id n)).f r).u
      = r.x ++ r.u ++ (List.range n).map (fun c => ops.kern id c r.x r.u)
    ∧ (r.u.length ≠ 0 → ((rowFn ops ok (.kernel id n)).f r).x = r.x) := by
  simp only [rowFn]
  split
  · rename_i h0
    have : r.u = [] := List.eq_nil_of_length_eq_zero h0
    simp [this]
  · simp

/-- **the `'gaussian'` features are unbiased for the Gaussian kernel**: for i.i.d. standard normal weights `w_i`
(what `scipy.stats.norm.rvs` is assumed to deliver) the mean of `cos(√(2·shape)·Σ_i w_i (x_i − y_i))` - which by
`C17_weight_only_exact` / `C17_offset_average` is the mean of the feature inner product - is `exp(−shape·‖x − y‖²)` -/
theorem C17_gaussian_kernel_mean {ι : Type} [Fintype ι] (shape : ℝ) (hs : 0 ≤ shape) (x y : ι → ℝ) :
    ∫ w : ι → ℝ, Real.cos (Real.sqrt (2 * shape) * ∑ i, w i * (x i - y i))
        ∂(MeasureTheory.Measure.pi fun _ : ι => ProbabilityTheory.gaussianReal 0 1)
      = Real.exp (-(shape * ∑ i, (x i - y i) ^ 2)) :=
  rff_gaussian_mean_iid shape hs (fun i => x i - y i)

/-- **the `'cauchy'` features, one coordinate**: for a weight with the Laplace density `½e^{−|w|}`
(`scipy.stats.laplace`, scale 1) the mean of `cos(√(2·shape)·w·(x − y))` is the Cauchy kernel
`1 / (1 + 2·shape·(x − y)²)`.  (Several coordinates: `C17_cauchy_kernel_mean`.) -/
theorem C17_cauchy_kernel_mean_1d (shape : ℝ) (hs : 0 ≤ shape) (x y : ℝ) :
    ∫ w : ℝ, Real.cos (Real.sqrt (2 * shape) * (x - y) * w) * (1 / 2 * Real.exp (-|w|))
      = 1 / (1 + 2 * shape * (x - y) ^ 2) := by
  rw [rff_laplace_mean, mul_pow, Real.sq_sqrt (by positivity)]

/-- **the `'cauchy'` features in any dimension**: i.i.d. weights with the Laplace density `½e^{−|w|}`
(`scipy.stats.laplace`) give the product Cauchy kernel -/
theorem C17_cauchy_kernel_mean {ι : Type} [Fintype ι] (shape : ℝ) (hs : 0 ≤ shape) (x y : ι → ℝ) :
    ∫ w : ι → ℝ, Real.cos (Real.sqrt (2 * shape) * ∑ i, w i * (x i - y i))
        ∂(MeasureTheory.Measure.pi fun _ : ι => μL)
      = ∏ i, 1 / (1 + 2 * shape * (x i - y i) ^ 2) :=
  rff_laplace_mean_iid_scaled shape hs x y

/-- **the `'laplacian'` features in any dimension**: i.i.d. weights with the Cauchy density `1/(π(1+w²))`
(`scipy.stats.cauchy`) give the Laplacian kernel of the 1-norm, with the documented factor `√(2·shape)` -/
theorem C17_laplacian_kernel_mean {ι : Type} [Fintype ι] (shape : ℝ) (x y : ι → ℝ) :
    ∫ w : ι → ℝ, Real.cos (Real.sqrt (2 * shape) * ∑ i, w i * (x i - y i))
        ∂(MeasureTheory.Measure.pi fun _ : ι => μC)
      = Real.exp (-(Real.sqrt (2 * shape) * ∑ i, |x i - y i|)) :=
  rff_cauchy_mean_iid_scaled shape x y

/-- **`weight_offset` is unbiased**: for a weight `w ~ ν` (any distribution) and an INDEPENDENT offset uniform on
`(0, 2π]`, the mean of the feature product `√2cos(p(w)+b)·√2cos(q(w)+b)` is the mean of `cos(p(w) − q(w))` -
the quantity the three kernel theorems evaluate -/
theorem C17_offset_unbiased {E : Type} [MeasurableSpace E] (ν : MeasureTheory.Measure E)
    [MeasureTheory.IsProbabilityMeasure ν] (p q : E → ℝ) (hp : Measurable p) (hq : Measurable q) :
    ∫ z : E × ℝ, 2 * Real.cos (p z.1 + z.2) * Real.cos (q z.1 + z.2) ∂(ν.prod μU)
      = ∫ w, Real.cos (p w - q w) ∂ν :=
  rff_offset_mean ν p q hp hq

/-- **concentration, generic**: the mean of `D` independent draws of a feature product bounded by `c` deviates from
its expectation `κ` by at least `ε` with probability at most `2·exp(−D ε² / (2c²))` - the `O(1/√D)` clause -/
theorem C17_concentration {E : Type} [MeasurableSpace E] (ν : MeasureTheory.Measure E)
    [MeasureTheory.IsProbabilityMeasure ν] (D : ℕ) [NeZero D] (g : E → ℝ) (hg : Measurable g) (c κ : ℝ) (hc : 0 < c)
    (hb : ∀ w, |g w| ≤ c) (hmean : ∫ w, g w ∂ν = κ) {ε : ℝ} (hε : 0 ≤ ε) :
    (MeasureTheory.Measure.pi fun _ : Fin D => ν).real {W | ε ≤ |(1 / (D : ℝ)) * ∑ j, g (W j) - κ|}
      ≤ 2 * Real.exp (-((D : ℝ) * ε ^ 2) / (2 * c ^ 2)) :=
  rff_iid_hoeffding ν D g hg c κ hc hb hmean hε

/-- … end to end for the three named kernels (`weight_only`: a `D × n` matrix of i.i.d. weights) -/
theorem C17_concentration_gaussian {ι : Type} [Fintype ι] (D : ℕ) [NeZero D] (shape : ℝ) (hs : 0 ≤ shape)
    (x y : ι → ℝ) {ε : ℝ} (hε : 0 ≤ ε) :
    (MeasureTheory.Measure.pi fun _ : Fin D =>
        MeasureTheory.Measure.pi fun _ : ι => ProbabilityTheory.gaussianReal 0 1).real
      {W | ε ≤ |(1 / (D : ℝ)) * ∑ j, Real.cos (Real.sqrt (2 * shape) * ∑ i, W j i * (x i - y i))
                - Real.exp (-(shape * ∑ i, (x i - y i) ^ 2))|}
      ≤ 2 * Real.exp (-((D : ℝ) * ε ^ 2) / 2) :=
  rff_gaussian_kernel_hoeffding D shape hs x y hε

theorem C17_concentration_cauchy {ι : Type} [Fintype ι] (D : ℕ) [NeZero D] (shape : ℝ) (hs : 0 ≤ shape)
    (x y : ι → ℝ) {ε : ℝ} (hε : 0 ≤ ε) :
    (MeasureTheory.Measure.pi fun _ : Fin D => MeasureTheory.Measure.pi fun _ : ι => μL).real
      {W | ε ≤ |(1 / (D : ℝ)) * ∑ j, Real.cos (Real.sqrt (2 * shape) * ∑ i, W j i * (x i - y i))
                - ∏ i, 1 / (1 + 2 * shape * (x i - y i) ^ 2)|}
      ≤ 2 * Real.exp (-((D : ℝ) * ε ^ 2) / 2) :=
  rff_cauchy_kernel_hoeffding D shape hs x y hε

theorem C17_concentration_laplacian {ι : Type} [Fintype ι] (D : ℕ) [NeZero D] (shape : ℝ)
    (x y : ι → ℝ) {ε : ℝ} (hε : 0 ≤ ε) :
    (MeasureTheory.Measure.pi fun _ : Fin D => MeasureTheory.Measure.pi fun _ : ι => μC).real
      {W | ε ≤ |(1 / (D : ℝ)) * ∑ j, Real.cos (Real.sqrt (2 * shape) * ∑ i, W j i * (x i - y i))
                - Real.exp (-(Real.sqrt (2 * shape) * ∑ i, |x i - y i|))|}
      ≤ 2 * Real.exp (-((D : ℝ) * ε ^ 2) / 2) :=
  rff_laplacian_kernel_hoeffding D shape x y hε

/-- `weight_offset` (independent weight / offset pairs, any weight distribution with kernel mean `κ`) -/
theorem C17_offset_concentration {ι : Type} [Fintype ι] (ν : MeasureTheory.Measure (ι → ℝ))
    [MeasureTheory.IsProbabilityMeasure ν] (D : ℕ) [NeZero D] (s : ℝ) (x y : ι → ℝ) (κ : ℝ)
    (hκ : ∫ w : ι → ℝ, Real.cos (s * ∑ i, w i * (x i - y i)) ∂ν = κ) {ε : ℝ} (hε : 0 < ε) :
    (MeasureTheory.Measure.pi fun _ : Fin D => ν.prod μU)
      {Z | ε ≤ |(1 / (D : ℝ)) * ∑ j, 2 * Real.cos (s * ∑ i, (Z j).1 i * x i + (Z j).2)
                    * Real.cos (s * ∑ i, (Z j).1 i * y i + (Z j).2) - κ|}
      ≤ ENNReal.ofReal (4 / ((D : ℝ) * ε ^ 2)) :=
  rff_offset_concentration ν D s x y κ hκ hε

/-- `weight_offset`, exponential form: independent weight / offset pairs, feature products bounded by 2, so the estimate
misses the kernel mean `κ` by `ε` with probability at most `2·exp(−D ε² / 8)` -/
theorem C17_offset_hoeffding {ι : Type} [Fintype ι] (ν : MeasureTheory.Measure (ι → ℝ)) [MeasureTheory.IsProbabilityMeasure ν]
    (D : ℕ) [NeZero D] (s : ℝ) (x y : ι → ℝ) (κ : ℝ)
    (hκ : ∫ w : ι → ℝ, Real.cos (s * ∑ i, w i * (x i - y i)) ∂ν = κ) {ε : ℝ} (hε : 0 ≤ ε) :
    (MeasureTheory.Measure.pi fun _ : Fin D => ν.prod μU).real
      {Z | ε ≤ |(1 / (D : ℝ)) * ∑ j, 2 * Real.cos (s * ∑ i, (Z j).1 i * x i + (Z j).2)
                    * Real.cos (s * ∑ i, (Z j).1 i * y i + (Z j).2) - κ|}
      ≤ 2 * Real.exp (-((D : ℝ) * ε ^ 2) / 8) := by
  have hmean : ∫ z : (ι → ℝ) × ℝ, 2 * Real.cos (s * ∑ i, z.1 i * x i + z.2) * Real.cos (s * ∑ i, z.1 i * y i + z.2)
      ∂(ν.prod μU) = κ := by
    have h := rff_offset_mean ν (fun w : ι → ℝ => s * ∑ i, w i * x i) (fun w : ι → ℝ => s * ∑ i, w i * y i)
      (by fun_prop) (by fun_prop)
    rw [h, ← hκ]
    congr 1 with w
    rw [← mul_sub, ← Finset.sum_sub_distrib]
    congr 3 with i
    ring
  have h := rff_iid_hoeffding (ν.prod μU) D
    (fun z : (ι → ℝ) × ℝ => 2 * Real.cos (s * ∑ i, z.1 i * x i + z.2) * Real.cos (s * ∑ i, z.1 i * y i + z.2))
    (by fun_prop) 2 κ (by norm_num) (fun z => abs_two_cos_mul_cos_le _ _) hmean hε
  have e : (2 : ℝ) * 2 ^ 2 = 8 := by norm_num
  rwa [e] at h

end Pk.C17
