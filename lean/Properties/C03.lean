import Pk.FitLaws
import Pk.Flow
import Pk.Slice
import Pk.Inst
import Pk.InvFlow
import Pk.DepSound
/-! # C03 — Episodes are never mixed and samples keep their temporal order

Two semantic levels: `Stage.mt` routes the rows of a multi-episode matrix exactly as the code does
(row-wise stages in place, delays and splits via split-by-label / recombine in ascending label order);
`Stage.tr` is the meaning on one episode.  C03 is the refinement between them, for every layout.
Property theorems only. -/
namespace Pk.C03
open Pk
variable {α : Type} (ops : Ops α) (ok : α → Prop)

/-- transforming a multi-episode matrix gives, for each label, exactly the transform of that episode
alone, rows in their original time order — for any number, labelling, order and interleaving of episodes
(guard: no episode shorter than `min_samples_`) -/
theorem C03_transform_refines (s : S) (X : M α) (hG : Guard (Stage.nSamplesIn s 1) X) (l : Nat) :
    episodeOf l (Stage.mt (rowFn ops ok) s X) = Stage.tr (rowFn ops ok) s (episodeOf l X) :=
  Stage.mt_refines (rowFn ops ok) s X (by rw [Stage.nSamplesIn_eq] at hG; rwa [Nat.add_comm]) l

/-- the same for `inverse_transform`, with no guard at all: inverse-transforming a multi-episode matrix gives, for
each label, exactly the inverse transform of that episode alone -/
theorem C03_inverse_refines (s : S) (w : Nat × Nat) (Y : M α) (l : Nat) :
    episodeOf l (Stage.mi (rowFn ops ok) s w Y) = Stage.inv (rowFn ops ok) s w (episodeOf l Y) :=
  Stage.mi_refines (rowFn ops ok) s w Y l

/-- the arrangement of the episodes in the matrix is irrelevant -/
theorem C03_layout_irrelevant (s : S) (X Y : M α) (hGX : Guard (Stage.nSamplesIn s 1) X)
    (hGY : Guard (Stage.nSamplesIn s 1) Y) (h : ∀ l, episodeOf l X = episodeOf l Y) (l : Nat) :
    episodeOf l (Stage.mt (rowFn ops ok) s X) = episodeOf l (Stage.mt (rowFn ops ok) s Y) := by
  rw [C03_transform_refines ops ok s X hGX l, C03_transform_refines ops ok s Y hGY l, h l]

/-- locality in time: lifted sample `j` is what the transform makes of the window of
`min_samples_` input samples `j … j + min_samples_ - 1` of the same episode; it depends on nothing else -/
theorem C03_window (s : S) (X : Ep α) (j : Nat) (h : j + Stage.nSamplesIn s 1 ≤ X.length) :
    Stage.tr (rowFn ops ok) s (sl j (Stage.nSamplesIn s 1) X) = sl j 1 (Stage.tr (rowFn ops ok) s X) := by
  rw [Stage.nSamplesIn_eq, Nat.add_comm] at *
  exact Stage.window (rowFn ops ok) s X j (by omega)

/-- slice equivariance (the general form behind `C03_window` and the re-lifting loop of C07) -/
theorem C03_slice (s : S) (X : Ep α) (i len : Nat) (h : i + len ≤ X.length) (hl : Stage.loss s ≤ len) :
    Stage.tr (rowFn ops ok) s (sl i len X) = sl i (len - Stage.loss s) (Stage.tr (rowFn ops ok) s X) :=
  Stage.tr_sl (rowFn ops ok) s X i len h hl

section utils
variable {ρ : Type}
/-- the episode utilities act on each episode separately: `shift_episodes` (both outputs),
`strip_initial_conditions`, `extract_initial_conditions`, `extract_input` -/
theorem C03_utils (X : Mat ρ) (l : Nat) (m : Nat) (f : ρ → ρ) :
    episodeOf l (shiftUn X) = (episodeOf l X).dropLast
    ∧ episodeOf l (shiftSh f X) = (episodeOf l X).tail.map f
    ∧ episodeOf l (stripIC m X) = (episodeOf l X).drop m
    ∧ episodeOf l (extractIC m f X) = ((episodeOf l X).take m).map f
    ∧ episodeOf l (extractInput f X) = (episodeOf l X).map f :=
  ⟨episodeOf_perEpisode _ rfl X l, episodeOf_perEpisode _ rfl X l, episodeOf_perEpisode _ (by simp) X l,
   episodeOf_perEpisode _ (by simp) X l, episodeOf_perEpisode _ rfl X l⟩

/-- splitting and recombining loses nothing and mixes nothing -/
theorem C03_split_combine (X : Mat ρ) (l : Nat) :
    episodeOf l (combine (splitEps X)) = episodeOf l X := by
  have := episodeOf_perEpisode (fun e => e) rfl X l
  simpa [perEpisode] using this
end utils

private def xDemo : M Int := [(7, ⟨[1], [10]⟩), (3, ⟨[2], [20]⟩), (7, ⟨[3], [30]⟩), (3, ⟨[4], [40]⟩)]

/-- non-vacuity: an interleaved two-episode matrix with labels 7 and 3 meets the guard for a delay
stage and its lifted matrix is the expected concrete one (ascending labels, time order kept) -/
example : Stage.mt (rowFn intOps) (.delay 1 0 : S) xDemo = [(3, ⟨[4, 2], [40]⟩), (7, ⟨[3, 1], [30]⟩)] := by
  decide

/-- **row provenance is sound.**  Mark every cell of input row `r` with `{r}` and run the same generic tree at the
dependency-set domain (this is what the correspondence compares with row perturbations of the real `transform`).
If two typed episodes of equal length differ at most in row `j`, every lifted cell whose provenance set misses `j`
has the same value for both — for every tree and every value domain. -/
theorem C03_provenance_sound (okD : List Nat → Prop) (s : S) (nx nu : Nat) (X X' : Ep α) (j : Nat)
    (hX : Typed nx nu X) (hX' : Typed nx nu X') (hl : X'.length = X.length)
    (h : ∀ τ, τ ≠ j → X[τ]? = X'[τ]?) (r : Nat) (hr : r < X.length - Stage.loss s) :
    ∃ d v v', (Stage.tr (rowFn depOps okD) s (rowMarks nx nu X.length))[r]? = some d
      ∧ (Stage.tr (rowFn ops ok) s X)[r]? = some v ∧ (Stage.tr (rowFn ops ok) s X')[r]? = some v'
      ∧ (∀ c, j ∉ d.x.getD c [] → v.x[c]? = v'.x[c]?) ∧ (∀ c, j ∉ d.u.getD c [] → v.u[c]? = v'.u[c]?) := by
  have hlen : (rowMarks nx nu X.length).length = X.length := by simp [rowMarks]
  exact Stage.dep_sound ops ok okD s nx nu X X' (rowMarks nx nu X.length) j hX hX' (typed_rowMarks nx nu X.length)
    hlen.symm (by rw [hlen]; exact hl) (agreeOff_rowMarks ops nx nu X X' j hX hX' hl h) r (by rw [hlen]; exact hr)

/-- non-vacuity: through a one-step state delay, lifted row 1 of a 3-row episode comes from input rows 1 and 2 only -/
example : (Stage.tr (rowFn depOps) (.delay 1 0 : S) (rowMarks 1 1 3))[1]? = some ⟨[[2], [1]], [[2]]⟩ := by
  decide +kernel

end Pk.C03
