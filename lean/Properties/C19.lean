import Pk.Names
import Pk.FitLaws
import Pk.Denote
import Pk.Inst
/-! # C19 — Output feature names describe the columns they label

`Pk/Names.lean` is the names function of every stage kind and `get_feature_names_out`.  Row-wise stages:
values and names come from the *same* generic row function (`rowFn`) at two value domains.  Delays: block `i`
is named `D_i(·)` and holds the data delayed by `i`.  Property theorems only. -/
namespace Pk.C19
open Pk

/-- for every episode-independent kind the names are the generic row function evaluated at the string
operations — the function that produces the column values, applied to the input names -/
theorem C19_rowwise_names_are_transform (fmt : Fmt) (k : Kind) (nm : Row String) :
    Stage.names fmt (.rw k) nm = (rowFn (nameOps fmt) (fun _ => True) k).f nm := by
  simp [Stage.names]

theorem delayNames_length (fmt : Fmt) (d : Nat) (names : List String) :
    (delayNames fmt d names).length = names.length * (d+1) := by
  unfold delayNames
  rw [length_flatMap_const _ _ names.length (by intro b _; simp)]
  simp [Nat.mul_comm]

mutual
theorem names_len (fmt : Fmt) (s : S) (nm : Row String) :
    (Stage.names fmt s nm).x.length = (Stage.outW (rowFn unitOps) s (nm.x.length, nm.u.length)).1
    ∧ (Stage.names fmt s nm).u.length = (Stage.outW (rowFn unitOps) s (nm.x.length, nm.u.length)).2 := by
  cases s with
  | rw k =>
    simp [Stage.names, Stage.outW, rowFn_wx_len, rowFn_wu_len, rowFn_wx, rowFn_wu]
  | delay dx du => simp [Stage.names, Stage.outW, delayNames_length]
  | split a b =>
    have ha := names_len_chain fmt a ⟨nm.x, []⟩
    have hb := names_len_chain fmt b ⟨[], nm.u⟩
    simp only [List.length_nil] at ha hb
    simp only [Stage.names, Stage.outW]
    exact ⟨ha.1, hb.2⟩
  | pipe ss => simpa [Stage.names, Stage.outW] using names_len_chain fmt ss nm
theorem names_len_chain (fmt : Fmt) (ss : Ss) (nm : Row String) :
    (Stages.names fmt ss nm).x.length = (Stages.outW (rowFn unitOps) ss (nm.x.length, nm.u.length)).1
    ∧ (Stages.names fmt ss nm).u.length = (Stages.outW (rowFn unitOps) ss (nm.x.length, nm.u.length)).2 := by
  cases ss with
  | nil => simp [Stages.names, Stages.outW]
  | cons s rest =>
    have hs := names_len fmt s nm
    have hr := names_len_chain fmt rest (Stage.names fmt s nm)
    simp only [Stages.names, Stages.outW]
    rw [hs.1, hs.2] at hr
    exact hr
end

/-- one name per lifted column, in the declared widths — for every tree, both formats -/
theorem C19_one_per_column (fmt : Fmt) (s : S) (nx nu : Nat) (w' : Nat × Nat)
    (hfit : Stage.fit s (nx, nu) = .ok w') (nm : Row String) (hx : nm.x.length = nx) (hu : nm.u.length = nu) :
    (Stage.names fmt s nm).x.length = w'.1 ∧ (Stage.names fmt s nm).u.length = w'.2 := by
  have h := (Stage.fit_ok unitOps (fun _ => True) s (nx, nu) w' hfit).1
  have := names_len fmt s nm
  rw [hx, hu] at this
  rw [h]; exact this

theorem take_drop_flatMap_block {β : Type} (w : Nat) (f : Nat → List β) (n i : Nat) (hi : i < n)
    (hw : ∀ k, (f k).length = w) :
    (((List.range n).flatMap f).drop (w * i)).take w = f i := by
  induction n generalizing i f with
  | zero => omega
  | succ n ih =>
    rw [List.range_succ_eq_map, List.flatMap_cons, List.flatMap_map]
    cases i with
    | zero => simp [List.take_left' (hw 0)]
    | succ j =>
      have e : w * (j + 1) = (f 0).length + w * j := by rw [hw 0, Nat.mul_succ]; omega
      rw [e, ← List.drop_drop, List.drop_left]
      exact ih (fun k => f (k+1)) j (by omega) (fun k => hw (k+1))

/-- the delay stage: block `i` of the names is `D_i(name)` for every input name, in order … -/
theorem C19_delay_names (fmt : Fmt) (d : Nat) (names : List String) (i : Nat) (hi : i ≤ d) :
    ((delayNames fmt d names).drop (names.length * i)).take names.length = names.map (delayName fmt i) := by
  unfold delayNames
  exact take_drop_flatMap_block names.length (fun k => names.map (delayName fmt k)) (d+1) i (by omega)
    (by intro k; simp)

theorem chunks_get {β : Type} (w n i : Nat) (r : List β) (hi : i < n) :
    (chunks w n r)[i]? = some ((r.drop (w * i)).take w) := by
  induction n generalizing i r with
  | zero => omega
  | succ n ih =>
    cases i with
    | zero => simp [chunks]
    | succ j =>
      simp only [chunks, List.getElem?_cons_succ]
      rw [ih j (r.drop w) (by omega), List.drop_drop]
      congr 3
      rw [Nat.mul_succ]; omega

/-- … and block `i` of the delayed data at time `t` is the data at time `t - i`: each name denotes what
its column contains -/
theorem C19_delay_values {α : Type} (w : Nat) (cols : List (List α)) (hw : ∀ c ∈ cols, c.length = w)
    (d t i : Nat) (hd : d ≤ t) (ht : t < cols.length) (hi : i ≤ d) :
    ((delayRow cols d t).drop (w * i)).take w = cols.getD (t - i) [] := by
  have hch := chunks_delayRow w cols hw d t hd ht
  have h1 := chunks_get w (d+1) i (delayRow cols d t) (by omega)
  have h2 : (chunks w (d+1) (delayRow cols d t))[i]? = ((slice cols (t - d) (d+1)).reverse)[i]? := by
    rw [← hch, List.reverse_reverse]
  rw [h1] at h2
  have hlen : (chunks w (d+1) (delayRow cols d t)).length = d + 1 := by
    have := congrArg List.length hch; simpa [slice_length] using this
  rw [List.getElem?_reverse (by simp [slice_length]; omega)] at h2
  simp only [slice, List.length_map, List.length_range, List.getElem?_map] at h2
  rw [List.getElem?_range (by omega)] at h2
  simp only [Option.map_some] at h2
  have e : t - d + (d + 1 - 1 - i) = t - i := by omega
  rw [e] at h2
  exact (Option.some.inj h2)

/-- `symbols_only`: `[ep?] ++ theta0.. ++ upsilon0..`, the episode name present iff the resolved flag is set -/
theorem C19_symbols_only (s : S) (w : Nat × Nat) (fitEp : Bool) (given : Option (List String)) (fmt : Fmt)
    (callEp : Option Bool) :
    featureNamesOut s w fitEp given true fmt callEp
      = (if callEp.getD fitEp then [epName fmt] else [])
          ++ (genNamesOut fmt (Stage.outW (rowFn unitOps) s w).1 (Stage.outW (rowFn unitOps) s w).2).x
          ++ (genNamesOut fmt (Stage.outW (rowFn unitOps) s w).1 (Stage.outW (rowFn unitOps) s w).2).u := by
  simp [featureNamesOut]

/-- generated names: the episode name is present iff the resolved `episode_feature` is set, for all
2 (fit flag) × 3 (call flag) combinations, and it is followed by the transformed names -/
theorem C19_episode_name (s : S) (w : Nat × Nat) (fitEp : Bool) (fmt : Fmt) (callEp : Option Bool) :
    featureNamesOut s w fitEp none false fmt callEp
      = (if callEp.getD fitEp then [epName fmt] else [])
          ++ (Stage.names fmt s (genNamesIn fmt w.1 w.2)).x ++ (Stage.names fmt s (genNamesIn fmt w.1 w.2)).u := by
  have hlen : (genNamesIn fmt w.1 w.2).x.length = w.1 := by cases fmt <;> simp [genNamesIn]
  have htake : ((genNamesIn fmt w.1 w.2).x ++ (genNamesIn fmt w.1 w.2).u).take w.1 = (genNamesIn fmt w.1 w.2).x :=
    List.take_left' hlen
  have hdrop : ((genNamesIn fmt w.1 w.2).x ++ (genNamesIn fmt w.1 w.2).u).drop w.1 = (genNamesIn fmt w.1 w.2).u :=
    List.drop_left' hlen
  cases fitEp <;> cases callEp with
  | none => simp [featureNamesOut, htake, hdrop]
  | some c => cases c <;> simp [featureNamesOut, htake, hdrop]

/-- names given at fit time are used verbatim as the input names: with no lifting stage the output names
are exactly the given names -/
theorem C19_given_names (g : List String) (nx nu : Nat) (fitEp : Bool) (fmt : Fmt)
    (hg : g.length = (if fitEp then 1 else 0) + nx + nu) :
    featureNamesOut (.pipe .nil) (nx, nu) fitEp (some g) false fmt none = g := by
  cases fitEp
  · simp [featureNamesOut, Stage.names, Stages.names]
  · simp only [featureNamesOut, Stage.names, Stages.names, Option.getD_none, Bool.and_self, Bool.not_true,
      Bool.and_false, if_true, Bool.false_eq_true, if_false]
    cases g with
    | nil => simp
    | cons a t =>
      simp only [List.take_succ_cons, List.take_zero, List.drop_succ_cons, List.drop_zero, List.cons_append,
        List.nil_append, List.take_append_drop]

/-- **whole-pipeline denotation.**  For EVERY tree there is one row of symbolic terms over the original
features (`Stage.terms`) such that (1) the feature names are the terms printed with the string operations and the
given input names, and (2) lifted row `r` of every typed episode, in every value domain, is the terms evaluated on
that episode at time `r + loss` — `D k` looking `k` samples back, every other operation applied cell-wise.
Name and value of a column are two readings of the same term: the name describes the column it labels. -/
theorem C19_denotation {α : Type} (ops : Ops α) (ok : α → Prop) (fmt : Fmt) (s : S) (nm : Row String)
    (X : Ep α) (hX : Typed nm.x.length nm.u.length X) :
    Stage.names fmt s nm = (Stage.terms s (varsRow nm.x.length nm.u.length)).map (Term.render fmt nm)
    ∧ ∀ r, r < (Stage.tr (rowFn ops ok) s X).length →
        (Stage.tr (rowFn ops ok) s X)[r]?
          = some ((Stage.terms s (varsRow nm.x.length nm.u.length)).map
              fun t => Term.eval ops X t (r + Stage.loss s)) := by
  constructor
  · have h := Stage.names_eq_render fmt nm s (varsRow nm.x.length nm.u.length)
    rw [varsRow_render] at h
    exact h
  · intro r hr
    exact Stage.tr_eq_eval ops ok X s nm.x.length nm.u.length hX r hr

/-- the law both halves rest on: every row-wise lifting function commutes with every homomorphism of cell
operations (names, values, dependency sets, S-expressions are all such homomorphic images of the terms) -/
theorem C19_rowwise_natural {α β : Type} {A : Ops α} {B : Ops β} {h : α → β} (hh : OpsHom A B h)
    (k : Kind) (r : Row α) :
    (rowFn B (fun _ => True) k).f (r.map h) = ((rowFn A (fun _ => True) k).f r).map h :=
  rowFn_natural hh _ _ k r

/-- a delayed term reads the episode `k` samples earlier; variables read the named column -/
theorem C19_term_semantics {α : Type} (ops : Ops α) (X : Ep α) (k i τ : Nat) (t : Term) :
    Term.eval ops X (.D k t) τ = Term.eval ops X t (τ - k)
    ∧ Term.eval ops X (.vx i) τ = ((X.map (·.x)).getD τ []).getD i ops.one
    ∧ Term.eval ops X (.vu i) τ = ((X.map (·.u)).getD τ []).getD i ops.one := by
  simp [Term.eval]

/-! non-vacuity: a delay followed by a degree-2 polynomial, names and values of the same columns -/
def sDen : S := .pipe (.cons (.delay 1 0) (.cons (.rw (.poly 2 false)) .nil))
def xDen : Ep Int := [⟨[2], [10]⟩, ⟨[3], [20]⟩, ⟨[5], [30]⟩]

example : Stage.names .plain sDen ⟨["a"], ["b"]⟩
    = ⟨["a", "D1(a)", "a^2", "a*D1(a)", "D1(a)^2"], ["b", "a*b", "D1(a)*b", "b^2"]⟩ := by decide +kernel
example : Typed 1 1 xDen ∧ (Stage.tr (rowFn intOps) sDen xDen)[1]?
    = some ⟨[5, 3, 25, 15, 9], [30, 150, 90, 900]⟩ := by
  constructor
  · intro r hr; simp [xDen] at hr; rcases hr with rfl | rfl | rfl <;> simp
  · decide +kernel

/-- a DataFrame is only accepted when it carries the fit-time names in the fit-time positions: column `i` of every
accepted input is the column whose name was captured for position `i`, so the output names (which are built from the
captured names by position) label the data they were built for.  A permutation of the columns is rejected. -/
theorem C19_accepted_same_positions (fitNames callNames : List String)
    (h : namesAccepted (some fitNames) (.frame (some callNames)) = true) :
    callNames = fitNames ∧ ∀ i : Nat, callNames[i]? = fitNames[i]? := by
  have : fitNames = callNames := by simpa [namesAccepted] using h
  subst this
  exact ⟨rfl, fun _ => rfl⟩

/-- a frame is rejected whenever its names differ from the fit-time names in any way (other names, another order, names
that are not all strings); only a plain array — which has no names that could contradict the captured ones — passes
without a comparison -/
theorem C19_different_names_rejected (fitNames : Option (List String)) (callNames : Option (List String))
    (h : callNames ≠ fitNames) : namesAccepted fitNames (.frame callNames) = false := by
  simp only [namesAccepted, beq_eq_false_iff_ne, ne_eq]
  exact fun e => h e.symm

example : namesAccepted (some ["pos", "vel", "force"]) (.frame (some ["vel", "pos", "force"])) = false
    ∧ namesAccepted (some ["pos", "vel"]) (.frame none) = false ∧ namesAccepted none (.frame none) = true
    ∧ namesAccepted (some ["pos", "vel"]) .array = true := by decide

end Pk.C19
