import PkLA.Ridge
import PkLA.EdmdConsistent
import Mathlib.LinearAlgebra.Matrix.NonsingularInverse
import Pk.Gram
/-! # C06 — EDMD returns the regularised least-squares optimum; exact recovery

Over `Matrix _ _ ℝ`.  `Edmd._fit_regressor` forms `G = Θ₊Ψᵀ/q`, `H = (ΨΨᵀ + αI)/q` and solves
`Hᵀ X = Gᵀ`; `coef_ = X = Uᵀ`.  The theorems say what any solution of those equations is.
The solve itself (`scipy.linalg.lstsq`) is validated numerically and against an exact rational solve by
the check, not proved.  Property theorems only. -/
namespace Pk.C06
open Matrix PkLA

variable {p q t : Type} [Fintype p] [Fintype q] [Fintype t] [DecidableEq p]

/-- the identity behind everything: the cost gap to a solution of the normal equations -/
theorem C06_gap (Ψ : Matrix p q ℝ) (Θ : Matrix t q ℝ) (α : ℝ) (U V : Matrix t p ℝ)
    (hU : U * (Ψ * Ψᵀ + α • (1 : Matrix p p ℝ)) = Θ * Ψᵀ) :
    cost Ψ Θ α V - cost Ψ Θ α U = fro2 ((V - U) * Ψ) + α * fro2 (V - U) :=
  cost_gap Ψ Θ α U V hU

/-- for every data set and every `α ≥ 0`: a matrix satisfying the normal equations minimises
`‖Θ₊ − UΨ‖_F² + α‖U‖_F²` — no other matrix has lower cost -/
theorem C06_normal_eq_optimal (Ψ : Matrix p q ℝ) (Θ : Matrix t q ℝ) (α : ℝ) (hα : 0 ≤ α) (U : Matrix t p ℝ)
    (hU : U * (Ψ * Ψᵀ + α • (1 : Matrix p p ℝ)) = Θ * Ψᵀ) (V : Matrix t p ℝ) :
    cost Ψ Θ α U ≤ cost Ψ Θ α V :=
  normal_eq_optimal Ψ Θ α hα U hU V

/-- the `1/q` scaling of `G` and `H` in the code is harmless -/
theorem C06_scaling (Ψ : Matrix p q ℝ) (Θ : Matrix t q ℝ) (α c : ℝ) (hc : c ≠ 0) (U : Matrix t p ℝ) :
    U * (c • (Ψ * Ψᵀ) + (α * c) • (1 : Matrix p p ℝ)) = c • (Θ * Ψᵀ)
      ↔ U * (Ψ * Ψᵀ + α • (1 : Matrix p p ℝ)) = Θ * Ψᵀ := by
  have e : c • (Ψ * Ψᵀ) + (α * c) • (1 : Matrix p p ℝ) = c • (Ψ * Ψᵀ + α • (1 : Matrix p p ℝ)) := by
    rw [smul_add, smul_smul, mul_comm]
  rw [e, Matrix.mul_smul]
  constructor
  · intro h
    have := congrArg (fun M => c⁻¹ • M) h
    simpa [smul_smul, inv_mul_cancel₀ hc] using this
  · intro h; rw [h]

theorem fro2_eq_zero {m n : Type} [Fintype m] [Fintype n] (M : Matrix m n ℝ) (h : fro2 M = 0) : M = 0 := by
  unfold fro2 at h
  simp only [trace, diag, mul_apply, transpose_apply] at h
  ext i j
  have hnn : ∀ i ∈ Finset.univ, 0 ≤ ∑ j, M i j * M i j :=
    fun i _ => Finset.sum_nonneg (fun j _ => mul_self_nonneg _)
  have h1 := (Finset.sum_eq_zero_iff_of_nonneg hnn).mp h i (Finset.mem_univ i)
  have h2 := (Finset.sum_eq_zero_iff_of_nonneg (fun j _ => mul_self_nonneg (M i j))).mp h1 j (Finset.mem_univ j)
  simpa using mul_self_eq_zero.mp h2

/-- with `α > 0` the minimiser is unique: any matrix that does as well as the normal-equation solution is it -/
theorem C06_unique (Ψ : Matrix p q ℝ) (Θ : Matrix t q ℝ) (α : ℝ) (hα : 0 < α) (U V : Matrix t p ℝ)
    (hU : U * (Ψ * Ψᵀ + α • (1 : Matrix p p ℝ)) = Θ * Ψᵀ) (hV : cost Ψ Θ α V ≤ cost Ψ Θ α U) : V = U := by
  have hgap := cost_gap Ψ Θ α U V hU
  have h1 := fro2_nonneg ((V - U) * Ψ)
  have h2 := fro2_nonneg (V - U)
  have h3 : fro2 (V - U) = 0 := by
    have : α * fro2 (V - U) ≤ 0 := by linarith
    have : fro2 (V - U) ≤ 0 := by
      by_contra hc
      rw [not_le] at hc
      have := mul_pos hα hc
      linarith
    linarith
  have := fro2_eq_zero _ h3
  exact sub_eq_zero.mp this

/-- the normal equations have at most one solution when `ΨΨᵀ + αI` is invertible -/
theorem C06_normal_unique (Ψ : Matrix p q ℝ) (Θ : Matrix t q ℝ) (α : ℝ) (U V : Matrix t p ℝ)
    (hdet : IsUnit (Ψ * Ψᵀ + α • (1 : Matrix p p ℝ)).det)
    (hU : U * (Ψ * Ψᵀ + α • (1 : Matrix p p ℝ)) = Θ * Ψᵀ)
    (hV : V * (Ψ * Ψᵀ + α • (1 : Matrix p p ℝ)) = Θ * Ψᵀ) : U = V := by
  have h := hU.trans hV.symm
  have := congrArg (fun M => M * (Ψ * Ψᵀ + α • (1 : Matrix p p ℝ))⁻¹) h
  simpa [Matrix.mul_assoc, Matrix.mul_nonsing_inv _ hdet] using this

/-- **exact recovery**: on noise-free data `Θ₊ = KΨ` with sufficiently exciting inputs (`ΨΨᵀ` invertible),
the solution of the unregularised normal equations is `K = [A B]` itself -/
theorem C06_recovery (Ψ : Matrix p q ℝ) (K U : Matrix t p ℝ) (hdet : IsUnit (Ψ * Ψᵀ).det)
    (hU : U * (Ψ * Ψᵀ) = (K * Ψ) * Ψᵀ) : U = K := by
  have h : U * (Ψ * Ψᵀ) = K * (Ψ * Ψᵀ) := by rw [hU, Matrix.mul_assoc]
  have := congrArg (fun M => M * (Ψ * Ψᵀ)⁻¹) h
  simpa [Matrix.mul_assoc, Matrix.mul_nonsing_inv _ hdet] using this

/-- untruncated DMDc / DMD: with an economy SVD `Ψ = Q Σ Zᵀ` (`QᵀQ = 1`, `ZᵀZ = 1`, `Σ` symmetric invertible) the
formula `Θ₊ Z Σ⁻¹ Qᵀ` of `Dmdc` / `Dmd` solves the same unregularised normal equations as EDMD -/
theorem C06_svd_formula {r : Type} [Fintype r] [DecidableEq r]
    (Ψ : Matrix p q ℝ) (Θ : Matrix t q ℝ) (Q : Matrix p r ℝ) (S Sinv : Matrix r r ℝ) (Z : Matrix q r ℝ)
    (hΨ : Ψ = Q * S * Zᵀ) (hQ : Qᵀ * Q = 1) (hZ : Zᵀ * Z = 1) (hSt : Sᵀ = S) (hSi : Sinv * S = 1) :
    (Θ * Z * Sinv * Qᵀ) * (Ψ * Ψᵀ) = Θ * Ψᵀ := by
  have hΨt : Ψᵀ = Z * S * Qᵀ := by
    rw [hΨ]; simp [Matrix.transpose_mul, hSt, Matrix.mul_assoc]
  have h1 : Qᵀ * Ψ = S * Zᵀ := by
    rw [hΨ, ← Matrix.mul_assoc, ← Matrix.mul_assoc, hQ, Matrix.one_mul]
  have h2 : Zᵀ * Ψᵀ = S * Qᵀ := by
    rw [hΨt, ← Matrix.mul_assoc, ← Matrix.mul_assoc, hZ, Matrix.one_mul]
  calc (Θ * Z * Sinv * Qᵀ) * (Ψ * Ψᵀ)
      = Θ * Z * Sinv * (Qᵀ * Ψ) * Ψᵀ := by simp only [Matrix.mul_assoc]
    _ = Θ * Z * Sinv * (S * Zᵀ) * Ψᵀ := by rw [h1]
    _ = Θ * Z * (Sinv * S) * (Zᵀ * Ψᵀ) := by simp only [Matrix.mul_assoc]
    _ = Θ * Z * (S * Qᵀ) := by rw [hSi, h2, Matrix.mul_one]
    _ = Θ * Ψᵀ := by rw [hΨt]; simp only [Matrix.mul_assoc]

/-- what the exact-rational driver prints satisfies the normal equations `U (ΨΨᵀ + αI) = ΘΨᵀ` in ℚ: the
answer is only returned after the certificate check, so the elimination routine need not be trusted -/
theorem C06_driver_certificate (α : Rat) (Psi Theta U : Pk.Gram.RMat) (h : Pk.Gram.edmd α Psi Theta = some U) :
    Pk.Gram.mul U (Pk.Gram.addDiag α (Pk.Gram.mulT Psi Psi)) = Pk.Gram.mulT Theta Psi := by
  unfold Pk.Gram.edmd at h
  simp only [] at h
  split at h
  · cases h
  · split at h
    · rename_i hc; cases h; exact hc
    · cases h

/-! ### every data set: the normal equations are always solvable and `lstsq` solves them -/

/-- the normal equations of the regularised problem have a solution for EVERY data set and every `α ≥ 0` - also for
rank-deficient `Ψ` with `α = 0` (explicitly `Θ Z diag(σ/(σ²+α)) Qᵀ` for an SVD `Ψ = Q diag(σ) Zᵀ`) -/
theorem C06_normal_eq_solvable [DecidableEq q] (Ψ : Matrix p q ℝ) (Θ : Matrix t q ℝ) (α : ℝ) (hα : 0 ≤ α) :
    ∃ U : Matrix t p ℝ, U * (Ψ * Ψᵀ + α • (1 : Matrix p p ℝ)) = Θ * Ψᵀ :=
  normal_eq_consistent Ψ Θ α hα

/-- a least-squares solution of a CONSISTENT system solves it exactly … -/
theorem C06_lstsq_exact {a b c : Type} [Fintype a] [Fintype b] [Fintype c]
    (A : Matrix a b ℝ) (B : Matrix a c ℝ) (X : Matrix b c ℝ)
    (hc : ∃ X0 : Matrix b c ℝ, A * X0 = B) (hX : Aᵀ * (A * X - B) = 0) : A * X = B :=
  lstsq_exact_of_consistent A B X hc hX

/-- … and every minimiser of `‖A X − B‖_F` satisfies those least-squares normal equations -/
theorem C06_lstsq_normal {a b c : Type} [Fintype a] [Fintype b] [Fintype c]
    (A : Matrix a b ℝ) (B : Matrix a c ℝ) (X : Matrix b c ℝ)
    (hmin : ∀ Y : Matrix b c ℝ, fro2 (A * X - B) ≤ fro2 (A * Y - B)) : Aᵀ * (A * X - B) = 0 :=
  lstsq_normal_of_min A B X hmin

/-- **`Edmd._fit_regressor` in the code's own variables**: whatever least-squares solution `Xs` of `Hᵀ X = Gᵀ`
(`H = (ΨΨᵀ + αI)/q`, `G = ΘΨᵀ/q`) `scipy.linalg.lstsq` returns, its transpose satisfies the normal equations and
minimises the documented cost - for every data set, rank-deficient ones included, every `α ≥ 0`, every `q ≥ 1` -/
theorem C06_edmd_lstsq_optimal [DecidableEq q] (Ψ : Matrix p q ℝ) (Θ : Matrix t q ℝ) (α : ℝ) (hα : 0 ≤ α)
    (n : ℕ) (hn : n ≠ 0) (Xs : Matrix p t ℝ)
    (hXs : ((n : ℝ)⁻¹ • (Ψ * Ψᵀ + α • (1 : Matrix p p ℝ)))
        * (((n : ℝ)⁻¹ • (Ψ * Ψᵀ + α • (1 : Matrix p p ℝ)))ᵀ * Xs - ((n : ℝ)⁻¹ • (Θ * Ψᵀ))ᵀ) = 0) :
    Xsᵀ * (Ψ * Ψᵀ + α • (1 : Matrix p p ℝ)) = Θ * Ψᵀ
      ∧ ∀ V : Matrix t p ℝ, cost Ψ Θ α Xsᵀ ≤ cost Ψ Θ α V :=
  edmd_lstsq_optimal_nat Ψ Θ α hα n hn Xs hXs

end Pk.C06
