import PkLA.BoundedReal
import PkLA.SpectralRadius
import PkLA.HinfFreq
import PkLA.Lmi
import Pk.FitLoop
import Mathlib.Tactic.Abel
import Mathlib.Analysis.SpecialFunctions.Trigonometric.Basic
/-! # C10 — H-infinity regularised fits report a valid bound on the true gain

Over `Matrix _ _ ℝ`.  The 4×4-block LMI of `LmiEdmdHinfReg` / `LmiDmdcHinfReg` implies, for the identified
(weighted) system `(A, B, C, D)`: strict dissipation with storage `xᵀP⁻¹x`, hence the ℓ2-gain bound
`Σ‖y‖² ≤ γ² Σ‖u‖²` over *every* finite horizon from rest (the time-domain form of `‖G‖∞ ≤ γ`), and
asymptotic stability; and, in the frequency domain, `‖G(z)u‖ ≤ γ‖u‖` at every point `z` of the unit circle
(`C10_hinf_norm`: the H∞ norm itself, obtained from the dissipation inequality applied to the real and imaginary
parts of a complex solution - no appeal to Parseval).  The check also measures the frequency-domain norm independently.  Property theorems only. -/
namespace Pk.C10
open Matrix PkLA

variable {n m k : Type} [Fintype n] [Fintype m] [Fintype k] [DecidableEq n] [DecidableEq m] [DecidableEq k]

/-- inverse-free core of the bounded-real lemma -/
theorem C10_core (P A : Matrix n n ℝ) (B : Matrix n m ℝ) (C : Matrix k n ℝ) (D : Matrix k m ℝ)
    (γ : ℝ) (hγ : 0 < γ) (hP : Pᵀ = P) (h : (brlLMI P A B C D γ).PosDef)
    (η ξ : n → ℝ) (u : m → ℝ) (hne : ξ ≠ 0 ∨ u ≠ 0 ∨ η ≠ 0) :
    2 * (η ⬝ᵥ (A *ᵥ (P *ᵥ ξ) + B *ᵥ u)) - η ⬝ᵥ (P *ᵥ η)
      < ξ ⬝ᵥ (P *ᵥ ξ) + γ * (u ⬝ᵥ u)
        - γ⁻¹ * ((C *ᵥ (P *ᵥ ξ) + D *ᵥ u) ⬝ᵥ (C *ᵥ (P *ᵥ ξ) + D *ᵥ u)) :=
  brl_core P A B C D γ hγ hP h η ξ u hne

/-- the `(1,1)` block of a feasible LMI: `P` itself is positive definite … -/
theorem brl_P_pos (P A : Matrix n n ℝ) (B : Matrix n m ℝ) (C : Matrix k n ℝ) (D : Matrix k m ℝ) (γ : ℝ)
    (h : (brlLMI P A B C D γ).PosDef) (ξ : n → ℝ) (hξ : ξ ≠ 0) : 0 < ξ ⬝ᵥ (P *ᵥ ξ) := by
  have hz : (Sum.elim (Sum.elim ξ (0 : n → ℝ)) (Sum.elim (0 : m → ℝ) (0 : k → ℝ)) : (n ⊕ n) ⊕ (m ⊕ k) → ℝ) ≠ 0 := by
    intro h0; apply hξ; funext i; simpa using congrFun h0 (Sum.inl (Sum.inl i))
  have key := h.dotProduct_mulVec_pos hz
  simpa [brlLMI, fromBlocks_mulVec, sumElim_dotProduct_sumElim] using key

/-- dissipation with storage `W x = xᵀP⁻¹x`: `W(Ax+Bu) − W(x) ≤ γ‖u‖² − γ⁻¹‖Cx+Du‖²` -/
theorem C10_dissipation (P A : Matrix n n ℝ) (B : Matrix n m ℝ) (C : Matrix k n ℝ) (D : Matrix k m ℝ)
    (γ : ℝ) (hγ : 0 < γ) (hP : Pᵀ = P) (hPu : IsUnit P.det) (h : (brlLMI P A B C D γ).PosDef)
    (x : n → ℝ) (u : m → ℝ) :
    W P (A *ᵥ x + B *ᵥ u) - W P x ≤ γ * (u ⬝ᵥ u) - γ⁻¹ * ((C *ᵥ x + D *ᵥ u) ⬝ᵥ (C *ᵥ x + D *ᵥ u)) :=
  brl_dissipation P A B C D γ hγ hP hPu h x u

/-- the storage function is non-negative: `xᵀP⁻¹x = ξᵀPξ` with `ξ = P⁻¹x` -/
theorem W_nonneg (P A : Matrix n n ℝ) (B : Matrix n m ℝ) (C : Matrix k n ℝ) (D : Matrix k m ℝ) (γ : ℝ)
    (hP : Pᵀ = P) (hPu : IsUnit P.det) (h : (brlLMI P A B C D γ).PosDef) (x : n → ℝ) : 0 ≤ W P x := by
  unfold W
  set ξ := P⁻¹ *ᵥ x with hξ
  have hx : x = P *ᵥ ξ := by rw [hξ, mulVec_mulVec, mul_nonsing_inv P hPu, one_mulVec]
  by_cases h0 : ξ = 0
  · rw [h0]; simp
  · have := brl_P_pos P A B C D γ h ξ h0
    rw [hx]
    have e : (P *ᵥ ξ) ⬝ᵥ ξ = ξ ⬝ᵥ (P *ᵥ ξ) := dotProduct_comm _ _
    rw [e]; exact le_of_lt this

/-- **the reported `γ` bounds the gain**: from rest, for every input sequence and every horizon `N`,
`Σ_{t<N} ‖y_t‖² ≤ γ² Σ_{t<N} ‖u_t‖²` -/
theorem C10_l2_gain (P A : Matrix n n ℝ) (B : Matrix n m ℝ) (C : Matrix k n ℝ) (D : Matrix k m ℝ)
    (γ : ℝ) (hγ : 0 < γ) (hP : Pᵀ = P) (hPu : IsUnit P.det) (h : (brlLMI P A B C D γ).PosDef)
    (u : ℕ → m → ℝ) (N : ℕ) :
    (Finset.range N).sum (fun t => (C *ᵥ stateAt A B u t + D *ᵥ u t) ⬝ᵥ (C *ᵥ stateAt A B u t + D *ᵥ u t))
      ≤ γ^2 * (Finset.range N).sum (fun t => u t ⬝ᵥ u t) :=
  brl_l2_gain P A B C D γ hγ hP hPu (W_nonneg P A B C D γ hP hPu h) h u N

/-- the upper-left 2×2 block of the LMI is the spectral-radius block with `ρ = 1` for `Aᵀ` … -/
theorem brl_spec_block (P A : Matrix n n ℝ) (B : Matrix n m ℝ) (C : Matrix k n ℝ) (D : Matrix k m ℝ) (γ : ℝ)
    (hP : Pᵀ = P) (h : (brlLMI P A B C D γ).PosDef) : (specLMI (1 : ℝ) P Aᵀ).PosDef := by
  have hsym : (specLMI (1 : ℝ) P Aᵀ).IsHermitian := by
    unfold specLMI
    rw [Matrix.IsHermitian, fromBlocks_conjTranspose]
    simp [conjTranspose_eq_transpose_of_trivial, hP, Matrix.transpose_mul]
  refine Matrix.PosDef.of_dotProduct_mulVec_pos hsym ?_
  intro z hz
  have hz' : (Sum.elim z (0 : m ⊕ k → ℝ) : (n ⊕ n) ⊕ (m ⊕ k) → ℝ) ≠ 0 := by
    intro h0; apply hz; funext i; simpa using congrFun h0 (Sum.inl i)
  have key := h.dotProduct_mulVec_pos hz'
  have : star (Sum.elim z (0 : m ⊕ k → ℝ)) ⬝ᵥ (brlLMI P A B C D γ *ᵥ Sum.elim z 0)
      = star z ⬝ᵥ (specLMI (1 : ℝ) P Aᵀ *ᵥ z) := by
    simp [brlLMI, specLMI, fromBlocks_mulVec, sumElim_dotProduct_sumElim, hP]
  rw [this] at key
  exact key

/-- … hence **asymptotic stability**: every (complex) eigenvalue of `Aᵀ` — the eigenvalues of `A` — lies
strictly inside the unit circle -/
theorem C10_stable (P A : Matrix n n ℝ) (B : Matrix n m ℝ) (C : Matrix k n ℝ) (D : Matrix k m ℝ) (γ : ℝ)
    (hP : Pᵀ = P) (h : (brlLMI P A B C D γ).PosDef)
    (μ : ℂ) (v : n → ℂ) (hv : v ≠ 0) (hev : (Aᵀ.map Complex.ofReal) *ᵥ v = μ • v) : ‖μ‖ < 1 :=
  eigen_complex 1 one_pos P Aᵀ (brl_spec_block P A B C D γ hP h) μ v hv hev

section series
variable {a b c d e : Type} [Fintype a] [Fintype b] [Fintype c] [Fintype d] [Fintype e]
  [DecidableEq a] [DecidableEq b]

/-- `'post'` weighting realises the series connection `W ∘ G`: one step of the composite state-space model built by
`_create_ss` is one step of the model followed by one step of the filter driven by the model output, and its output
is the filter output -/
theorem C10_series_post (Am : Matrix a a ℝ) (Bm : Matrix a d ℝ) (Cm : Matrix c a ℝ) (Dm : Matrix c d ℝ)
    (Aw : Matrix b b ℝ) (Bw : Matrix b c ℝ) (Cw : Matrix e b ℝ) (Dw : Matrix e c ℝ)
    (xm : a → ℝ) (xw : b → ℝ) (u : d → ℝ) :
    postA Am Aw Bw Cm *ᵥ Sum.elim xm xw + postB Bm Bw Dm *ᵥ u
        = Sum.elim (Am *ᵥ xm + Bm *ᵥ u) (Aw *ᵥ xw + Bw *ᵥ (Cm *ᵥ xm + Dm *ᵥ u))
    ∧ postC Cm Cw Dw *ᵥ Sum.elim xm xw + postD Dw Dm *ᵥ u = Cw *ᵥ xw + Dw *ᵥ (Cm *ᵥ xm + Dm *ᵥ u) := by
  constructor
  · ext i
    cases i with
    | inl i => simp [postA, postB, fromBlocks_mulVec, fromRows_mulVec]
    | inr i =>
      simp only [postA, postB, fromBlocks_mulVec, fromRows_mulVec, Sum.elim_inr, Pi.add_apply, mulVec_add,
        mulVec_mulVec, Sum.elim_comp_inl, Sum.elim_comp_inr]
      ring
  · simp only [postC, postD, fromCols_mulVec, mulVec_add, mulVec_mulVec, Sum.elim_comp_inl, Sum.elim_comp_inr]
    abel

/-- `'pre'` weighting realises `G ∘ W`: the filter runs on the external input, the model on the filter output -/
theorem C10_series_pre (Am : Matrix a a ℝ) (Bm : Matrix a c ℝ) (Cm : Matrix e a ℝ) (Dm : Matrix e c ℝ)
    (Aw : Matrix b b ℝ) (Bw : Matrix b d ℝ) (Cw : Matrix c b ℝ) (Dw : Matrix c d ℝ)
    (xw : b → ℝ) (xm : a → ℝ) (u : d → ℝ) :
    preA Am Aw Bm Cw *ᵥ Sum.elim xw xm + preB Bw Bm Dw *ᵥ u
        = Sum.elim (Aw *ᵥ xw + Bw *ᵥ u) (Am *ᵥ xm + Bm *ᵥ (Cw *ᵥ xw + Dw *ᵥ u))
    ∧ preC Cm Cw Dm *ᵥ Sum.elim xw xm + preD Dm Dw *ᵥ u = Cm *ᵥ xm + Dm *ᵥ (Cw *ᵥ xw + Dw *ᵥ u) := by
  constructor
  · ext i
    cases i with
    | inl i => simp [preA, preB, fromBlocks_mulVec, fromRows_mulVec]
    | inr i =>
      simp only [preA, preB, fromBlocks_mulVec, fromRows_mulVec, Sum.elim_inr, Pi.add_apply, mulVec_add,
        mulVec_mulVec, Sum.elim_comp_inl, Sum.elim_comp_inr]
      ring
  · simp only [preC, preD, fromCols_mulVec, mulVec_add, mulVec_mulVec, Sum.elim_comp_inl, Sum.elim_comp_inr]
    abel
end series

/-- units of the zero / pole lists of `LmiHinfZpkMeta`: `'hz'` multiplies by `2π`; `'normalized'` multiplies by the Nyquist
frequency in rad/s, `2π · ((1/t_step)/2) = π / t_step` -/
theorem C10_units (tStep : ℝ) (ht : tStep ≠ 0) : 2 * Real.pi * ((1 / tStep) / 2) = Real.pi / tStep := by
  field_simp

/-- `P` of a feasible LMI is positive definite, hence invertible: the two side conditions above are consequences
of the LMI itself -/
theorem brl_P_posDef (P A : Matrix n n ℝ) (B : Matrix n m ℝ) (C : Matrix k n ℝ) (D : Matrix k m ℝ) (γ : ℝ)
    (hP : Pᵀ = P) (h : (brlLMI P A B C D γ).PosDef) : P.PosDef := by
  refine Matrix.PosDef.of_dotProduct_mulVec_pos ?_ ?_
  · rw [Matrix.IsHermitian, conjTranspose_eq_transpose_of_trivial, hP]
  · intro x hx
    simpa using brl_P_pos P A B C D γ h x hx

/-- the gain bound with no side condition beyond the LMI and symmetry of `P` (what sub-problem B returns) -/
theorem C10_l2_gain_lmi (P A : Matrix n n ℝ) (B : Matrix n m ℝ) (C : Matrix k n ℝ) (D : Matrix k m ℝ)
    (γ : ℝ) (hγ : 0 < γ) (hP : Pᵀ = P) (h : (brlLMI P A B C D γ).PosDef) (u : ℕ → m → ℝ) (N : ℕ) :
    (Finset.range N).sum (fun t => (C *ᵥ stateAt A B u t + D *ᵥ u t) ⬝ᵥ (C *ᵥ stateAt A B u t + D *ᵥ u t))
      ≤ γ^2 * (Finset.range N).sum (fun t => u t ⬝ᵥ u t) :=
  C10_l2_gain P A B C D γ hγ hP
    ((Matrix.isUnit_iff_isUnit_det P).mp (Matrix.PosDef.isUnit (brl_P_posDef P A B C D γ hP h))) h u N

/-! ### frequency domain: the H∞ norm itself, with no appeal to Parseval -/

/-- on the unit circle `z I − A` is invertible (no eigenvalue of `A` has modulus one) -/
theorem C10_resolvent_exists (P A : Matrix n n ℝ) (B : Matrix n m ℝ) (C : Matrix k n ℝ) (D : Matrix k m ℝ) (γ : ℝ)
    (hP : Pᵀ = P) (h : (brlLMI P A B C D γ).PosDef) (z : ℂ) (hz : ‖z‖ = 1) :
    IsUnit (z • (1 : Matrix n n ℂ) - A.map Complex.ofReal).det := by
  rw [isUnit_iff_ne_zero]
  intro hdet
  have hdetT : ((z • (1 : Matrix n n ℂ) - A.map Complex.ofReal)ᵀ).det = 0 := by rw [det_transpose]; exact hdet
  obtain ⟨v, hv, hv0⟩ := (Matrix.exists_mulVec_eq_zero_iff).mpr hdetT
  have hev : (Aᵀ.map Complex.ofReal) *ᵥ v = z • v := by
    have e : (z • (1 : Matrix n n ℂ) - A.map Complex.ofReal)ᵀ = z • (1 : Matrix n n ℂ) - Aᵀ.map Complex.ofReal := by
      rw [transpose_sub, transpose_smul, transpose_one, transpose_map]
    rw [e, sub_mulVec, smul_mulVec, one_mulVec, sub_eq_zero] at hv0
    exact hv0.symm
  have := C10_stable P A B C D γ hP h z v hv hev
  rw [hz] at this
  exact lt_irrefl _ this

/-- the transfer matrix of `(A, B, C, D)` at the point `z` -/
noncomputable def transfer (A : Matrix n n ℝ) (B : Matrix n m ℝ) (C : Matrix k n ℝ) (D : Matrix k m ℝ) (z : ℂ) :
    Matrix k m ℂ :=
  C.map Complex.ofReal * (z • (1 : Matrix n n ℂ) - A.map Complex.ofReal)⁻¹ * B.map Complex.ofReal
    + D.map Complex.ofReal

/-- **`‖G‖∞ ≤ γ` without Parseval**: at every point `z` of the unit circle and for every complex input direction
`u`, the frequency response `G(z) = C (zI − A)⁻¹ B + D` of the identified (weighted) system satisfies
`‖G(z) u‖² ≤ γ² ‖u‖²` -/
theorem C10_hinf_norm (P A : Matrix n n ℝ) (B : Matrix n m ℝ) (C : Matrix k n ℝ) (D : Matrix k m ℝ)
    (γ : ℝ) (hγ : 0 < γ) (hP : Pᵀ = P) (h : (brlLMI P A B C D γ).PosDef)
    (z : ℂ) (hz : ‖z‖ = 1) (u : m → ℂ) :
    cnormSq (transfer A B C D z *ᵥ u) ≤ γ^2 * cnormSq u := by
  have hPu : IsUnit P.det :=
    (Matrix.isUnit_iff_isUnit_det P).mp (Matrix.PosDef.isUnit (brl_P_posDef P A B C D γ hP h))
  have hR := C10_resolvent_exists P A B C D γ hP h z hz
  set R := z • (1 : Matrix n n ℂ) - A.map Complex.ofReal with hRdef
  set x : n → ℂ := R⁻¹ *ᵥ ((B.map Complex.ofReal) *ᵥ u) with hxdef
  have hRx : R *ᵥ x = (B.map Complex.ofReal) *ᵥ u := by
    rw [hxdef, mulVec_mulVec, mul_nonsing_inv R hR, one_mulVec]
  have hx : z • x = (A.map Complex.ofReal) *ᵥ x + (B.map Complex.ofReal) *ᵥ u := by
    rw [← hRx, hRdef, sub_mulVec, smul_mulVec, one_mulVec]; abel
  have key := brl_freq_complex P A B C D γ hγ hP hPu h z hz x u hx
  have e : transfer A B C D z *ᵥ u = (C.map Complex.ofReal) *ᵥ x + (D.map Complex.ofReal) *ᵥ u := by
    rw [transfer, add_mulVec, hxdef, ← hRdef, mulVec_mulVec, mulVec_mulVec]
  rw [e]; exact key


section dmdc
variable {p r m : Type} [Fintype p] [Fintype r] [Fintype m] [DecidableEq p] [DecidableEq r] [DecidableEq m]

/-- **DMDc variant.**  `LmiDmdcHinfReg` bounds the reduced system `(Â, B̂, C = Q̂, 0)` and returns the full matrix
`U = Q̂ [Â B̂] blkdiag(Q̂, I)ᵀ`, i.e. `A = Q̂ Â Q̂ᵀ`, `B = Q̂ B̂`.  With `Q̂ᵀQ̂ = I` the state of the returned model is
`Q̂` times the state of the reduced one at every time, so its output (`C = I`) is the reduced system's output `Q̂ ξ`
and the bound on the reduced system is a bound on the returned model. -/
theorem C10_dmdc_lift (Q : Matrix p r ℝ) (hQ : Qᵀ * Q = 1) (Ah : Matrix r r ℝ) (Bh : Matrix r m ℝ)
    (u : ℕ → m → ℝ) (t : ℕ) :
    stateAt (Q * Ah * Qᵀ) (Q * Bh) u t = Q *ᵥ stateAt Ah Bh u t := by
  induction t with
  | zero => simp [stateAt]
  | succ t ih =>
    simp only [stateAt, ih, mulVec_add, mulVec_mulVec]
    congr 1
    have : Q * Ah * Qᵀ * Q = Q * Ah := by rw [Matrix.mul_assoc, hQ, Matrix.mul_one]
    rw [this]

/-- hence the reported `γ` bounds the ℓ2 gain of the returned DMDc model over every horizon -/
theorem C10_dmdc_l2_gain (P Ah : Matrix r r ℝ) (Bh : Matrix r m ℝ) (Q : Matrix p r ℝ) (hQ : Qᵀ * Q = 1)
    (γ : ℝ) (hγ : 0 < γ) (hP : Pᵀ = P) (hPu : IsUnit P.det)
    (h : (brlLMI P Ah Bh Q (0 : Matrix p m ℝ) γ).PosDef) (u : ℕ → m → ℝ) (N : ℕ) :
    (Finset.range N).sum (fun t => stateAt (Q * Ah * Qᵀ) (Q * Bh) u t ⬝ᵥ stateAt (Q * Ah * Qᵀ) (Q * Bh) u t)
      ≤ γ^2 * (Finset.range N).sum (fun t => u t ⬝ᵥ u t) := by
  have := C10_l2_gain P Ah Bh Q (0 : Matrix p m ℝ) γ hγ hP hPu h u N
  simpa [C10_dmdc_lift Q hQ Ah Bh u] using this

end dmdc

end Pk.C10
