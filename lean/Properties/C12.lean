import PkLA.Lmi
import PkLA.NormEpigraph
import PkLA.SvdExists
import PkLA.Ridge
import PkLA.DmdcLmi
import Mathlib.LinearAlgebra.Matrix.PosDef
import Mathlib.Data.Real.StarOrdered
/-! # C12 — LMI regressors minimise the regularised cost they document

Over `Matrix _ _ ℝ`.  `LmiEdmd._create_base_problem` minimises `c − 2 tr(U Gᵀ) + tr Z` subject to
`[[Z, U L],[Lᵀ Uᵀ, I]] ⪰ 0` with `L Lᵀ = H`.  The theorems show that this is exactly the documented cost:
the constraint is `Z ⪰ U H Uᵀ` (Schur complement), so `tr Z ≥ tr(U H Uᵀ)` with equality attainable, and
`c − 2 tr(U Gᵀ) + tr(U H Uᵀ) = (1/q)(‖Θ₊ − UΨ‖² + α‖U‖²)`.  Two-norm block: soundness direction.
Nuclear norm: partial (see `C12_nuclear_partial`).  Property theorems only. -/
namespace Pk.C12
open Matrix PkLA

variable {n m k : Type} [Fintype n] [Fintype m] [Fintype k] [DecidableEq n] [DecidableEq m] [DecidableEq k]

/-- Schur complement of the epigraph block: `[[Z, UL],[LᵀUᵀ, I]] ⪰ 0 ⇔ Z − (UL)(UL)ᵀ ⪰ 0` -/
theorem C12_schur_I (Z : Matrix n n ℝ) (U : Matrix n m ℝ) (L : Matrix m k ℝ) :
    (baseLmi Z U L).PosSemidef ↔ (Z - (U * L) * (U * L)ᵀ).PosSemidef := by
  unfold baseLmi
  have h1 : (Lᵀ * Uᵀ) = (U * L)ᴴ := by
    rw [conjTranspose_eq_transpose_of_trivial, transpose_mul]
  rw [h1]
  haveI : Invertible (1 : Matrix k k ℝ) := invertibleOne
  have := Matrix.PosDef.fromBlocks₂₂ Z (U * L) (D := (1 : Matrix k k ℝ)) Matrix.PosDef.one
  simpa [conjTranspose_eq_transpose_of_trivial] using this

/-- with `L Lᵀ = H` the constraint reads `Z ⪰ U H Uᵀ` … -/
theorem C12_constraint (Z : Matrix n n ℝ) (U : Matrix n m ℝ) (L : Matrix m k ℝ) (H : Matrix m m ℝ) (hL : L * Lᵀ = H) :
    (baseLmi Z U L).PosSemidef ↔ (Z - U * H * Uᵀ).PosSemidef := by
  rw [C12_schur_I]
  have : (U * L) * (U * L)ᵀ = U * H * Uᵀ := by
    rw [transpose_mul, ← hL]; simp only [Matrix.mul_assoc]
  rw [this]

/-- … so every feasible `(Z, U)` has `tr Z ≥ tr(U H Uᵀ)`, and `Z = U H Uᵀ` is feasible: at the optimum the slack
is tight and the LMI objective equals the quadratic cost -/
theorem C12_epigraph (Z : Matrix n n ℝ) (U : Matrix n m ℝ) (L : Matrix m k ℝ) (H : Matrix m m ℝ) (hL : L * Lᵀ = H) :
    ((baseLmi Z U L).PosSemidef → (U * H * Uᵀ).trace ≤ Z.trace)
    ∧ (baseLmi (U * H * Uᵀ) U L).PosSemidef := by
  constructor
  · intro h
    have := ((C12_constraint Z U L H hL).mp h).trace_nonneg
    rw [trace_sub] at this
    linarith
  · rw [C12_constraint _ U L H hL, sub_self]
    exact Matrix.PosSemidef.zero

/-- `inv_method='inv'` / `'pinv'`: the block `[[Z, U],[Uᵀ, H⁻¹]]` with a positive definite `H` says the same thing,
`Z ⪰ U H Uᵀ` (Schur complement with respect to `H⁻¹`) … -/
theorem C12_constraint_inv (Z : Matrix n n ℝ) (U : Matrix n m ℝ) (H : Matrix m m ℝ) (hH : H.PosDef) :
    (fromBlocks Z U Uᵀ H⁻¹).PosSemidef ↔ (Z - U * H * Uᵀ).PosSemidef := by
  have hHi : H⁻¹.PosDef := hH.inv
  have : Invertible H := hH.isUnit.invertible
  have : Invertible H⁻¹ := hHi.isUnit.invertible
  have h := Matrix.PosDef.fromBlocks₂₂ Z U hHi
  rw [conjTranspose_eq_transpose_of_trivial, Matrix.inv_inv_of_invertible] at h
  exact h

/-- … hence the same tight slack for that form of the problem -/
theorem C12_epigraph_inv (Z : Matrix n n ℝ) (U : Matrix n m ℝ) (H : Matrix m m ℝ) (hH : H.PosDef) :
    ((fromBlocks Z U Uᵀ H⁻¹).PosSemidef → (U * H * Uᵀ).trace ≤ Z.trace)
    ∧ (fromBlocks (U * H * Uᵀ) U Uᵀ H⁻¹).PosSemidef := by
  constructor
  · intro h
    have := ((C12_constraint_inv Z U H hH).mp h).trace_nonneg
    rw [trace_sub] at this
    linarith
  · rw [C12_constraint_inv _ U H hH, sub_self]
    exact Matrix.PosSemidef.zero

/-- the quadratic part of the LMI objective is the documented cost (with `c = tr(ΘΘᵀ)`, `G = ΘΨᵀ`,
`H = ΨΨᵀ + αI`; the common factor `1/q` of the code scales everything alike) -/
theorem C12_cost {q : Type} [Fintype q] (Ψ : Matrix m q ℝ) (Θ : Matrix n q ℝ) (α : ℝ) (U : Matrix n m ℝ) :
    baseObj (Θ * Θᵀ).trace U (Θ * Ψᵀ) (U * (Ψ * Ψᵀ + α • (1 : Matrix m m ℝ)) * Uᵀ) = cost Ψ Θ α U := by
  unfold baseObj cost
  rw [fro2_sub]
  unfold fro2
  have e1 : (U * (Θ * Ψᵀ)ᵀ).trace = (U * Ψ * Θᵀ).trace := by
    rw [transpose_mul, transpose_transpose, Matrix.mul_assoc]
  have e2 : (U * (Ψ * Ψᵀ + α • (1 : Matrix m m ℝ)) * Uᵀ).trace
      = ((U * Ψ) * (U * Ψ)ᵀ).trace + α * (U * Uᵀ).trace := by
    rw [Matrix.mul_add, Matrix.add_mul, trace_add, transpose_mul]
    simp only [Matrix.mul_assoc, Matrix.mul_smul, Matrix.smul_mul, Matrix.mul_one, Matrix.one_mul, trace_smul,
      smul_eq_mul]
  rw [e1, e2]
  ring

/-- hence: with pure Tikhonov regularisation the LMI problem and EDMD have the same minimiser — any `U` that
satisfies the normal equations makes the (tight) LMI objective minimal -/
theorem C12_tikhonov_is_edmd {q : Type} [Fintype q] (Ψ : Matrix m q ℝ) (Θ : Matrix n q ℝ) (α : ℝ) (hα : 0 ≤ α)
    (U : Matrix n m ℝ) (hU : U * (Ψ * Ψᵀ + α • (1 : Matrix m m ℝ)) = Θ * Ψᵀ) (V : Matrix n m ℝ) :
    baseObj (Θ * Θᵀ).trace U (Θ * Ψᵀ) (U * (Ψ * Ψᵀ + α • (1 : Matrix m m ℝ)) * Uᵀ)
      ≤ baseObj (Θ * Θᵀ).trace V (Θ * Ψᵀ) (V * (Ψ * Ψᵀ + α • (1 : Matrix m m ℝ)) * Vᵀ) := by
  rw [C12_cost, C12_cost]
  exact normal_eq_optimal Ψ Θ α hα U hU V

/-- two-norm block (soundness): `[[γI, Uᵀ],[U, γI]] ⪰ 0` with `γ > 0` forces `‖Ux‖² ≤ γ²‖x‖²` for every `x`,
i.e. the slack `γ` really bounds the matrix two-norm -/
theorem C12_twonorm_sound (γ : ℝ) (hγ : 0 < γ) (U : Matrix n m ℝ) (h : (twoNormLmi γ U).PosSemidef) (x : m → ℝ) :
    (U *ᵥ x) ⬝ᵥ (U *ᵥ x) ≤ γ^2 * (x ⬝ᵥ x) := twonorm_sound γ hγ U h x

/-- … and conversely: the two-norm block is EXACTLY the epigraph of the matrix two-norm (`γ ≥ 0`) -/
theorem C12_twonorm_epigraph (γ : ℝ) (hγ : 0 ≤ γ) (U : Matrix n m ℝ) :
    (twoNormLmi γ U).PosSemidef ↔ ∀ x : m → ℝ, (U *ᵥ x) ⬝ᵥ (U *ᵥ x) ≤ γ^2 * (x ⬝ᵥ x) :=
  twonorm_epigraph_nonneg γ hγ U

/-- nuclear-norm block, the inequality behind it: feasibility of `[[W₁, U],[Uᵀ, W₂]] ⪰ 0` gives
`2 |xᵀ U y| ≤ xᵀW₁x + yᵀW₂y` for all `x, y` -/
theorem C12_nuclear_partial (W1 : Matrix n n ℝ) (U : Matrix n m ℝ) (W2 : Matrix m m ℝ)
    (h : (nuclearLmi W1 U W2).PosSemidef) (x : n → ℝ) (y : m → ℝ) :
    2 * (x ⬝ᵥ (U *ᵥ y)) ≤ x ⬝ᵥ (W1 *ᵥ x) + y ⬝ᵥ (W2 *ᵥ y) := nuclear_partial W1 U W2 h x y

/-- **the nuclear-norm block is exactly the epigraph of the nuclear norm**: for `U` with singular value
decomposition `Q diag(s) Zᵀ` (orthonormal columns, `s ≥ 0`; every real matrix has one: `C12_nuclear_epigraph_exists`) the slack `(tr W₁ + tr W₂)/2` can be pushed down to `Σ σ_i` and no further -/
theorem C12_nuclear_epigraph {r : Type} [Fintype r] [DecidableEq r] (U : Matrix n m ℝ) (Q : Matrix n r ℝ)
    (Z : Matrix m r ℝ) (s : r → ℝ) (hQ : Qᵀ * Q = 1) (hZ : Zᵀ * Z = 1) (hU : U = Q * diagonal s * Zᵀ)
    (hs : ∀ i, 0 ≤ s i) (γ : ℝ) :
    (∃ (W1 : Matrix n n ℝ) (W2 : Matrix m m ℝ), (nuclearLmi W1 U W2).PosSemidef ∧ W1.trace + W2.trace ≤ 2 * γ)
      ↔ ∑ i, s i ≤ γ := nuclear_epigraph U Q Z s hQ hZ hU hs γ

/-- … and every real matrix HAS such a decomposition (`PkLA.exists_svd`, from the spectral theorem for `UᵀU`), so
unconditionally: for every `U` there are non-negative numbers `σ_i` (its singular values: `U = Q diag(σ) Zᵀ` with
orthonormal columns) such that the nuclear-norm block is feasible with slack `γ` iff `Σ σ_i ≤ γ` -/
theorem C12_nuclear_epigraph_exists (U : Matrix n m ℝ) :
    ∃ (r : Type) (_ : Fintype r) (_ : DecidableEq r) (Q : Matrix n r ℝ) (Z : Matrix m r ℝ) (s : r → ℝ),
      Qᵀ * Q = 1 ∧ Zᵀ * Z = 1 ∧ (∀ i, 0 < s i) ∧ U = Q * diagonal s * Zᵀ ∧
      ∀ γ : ℝ, (∃ (W1 : Matrix n n ℝ) (W2 : Matrix m m ℝ),
          (nuclearLmi W1 U W2).PosSemidef ∧ W1.trace + W2.trace ≤ 2 * γ) ↔ ∑ i, s i ≤ γ := by
  obtain ⟨r, fr, dr, Q, Z, s, hQ, hZ, hs, hU⟩ := exists_svd U
  exact ⟨r, fr, dr, Q, Z, s, hQ, hZ, hs, hU,
    fun γ => nuclear_epigraph U Q Z s hQ hZ hU (fun i => le_of_lt (hs i)) γ⟩

/-- forward half on its own: any feasible slack dominates `Σ σ_i` -/
theorem C12_nuclear_trace_bound {r : Type} [Fintype r] [DecidableEq r] (W1 : Matrix n n ℝ) (U : Matrix n m ℝ)
    (W2 : Matrix m m ℝ) (Q : Matrix n r ℝ) (Z : Matrix m r ℝ) (s : r → ℝ) (hQ : Qᵀ * Q = 1) (hZ : Zᵀ * Z = 1)
    (hU : U = Q * diagonal s * Zᵀ) (h : (nuclearLmi W1 U W2).PosSemidef) :
    ∑ i, s i ≤ (W1.trace + W2.trace) / 2 := nuclear_trace_bound W1 U W2 Q Z s hQ hZ hU h

/-! ### `LmiDmdc`: the same cost in the coordinates of the two truncated SVDs -/
section dmdc
variable {rh rt pu pt q : Type} [Fintype rh] [Fintype rt] [Fintype pu] [Fintype pt] [Fintype q]
  [DecidableEq rh] [DecidableEq rt] [DecidableEq pu] [DecidableEq pt] [DecidableEq q]

/-- `LmiDmdc`: the constraint `block ⪯ 0` says exactly that the slack dominates the quadratic form -/
theorem C12_dmdc_constraint (W Sh2 : Matrix rh rh ℝ) (Uh : Matrix rh (rh ⊕ pu) ℝ)
    (C : Matrix (rh ⊕ pu) rh ℝ) (B : Matrix (rh ⊕ pu) rt ℝ) :
    (-(dmdcLmi W Sh2 Uh C B)).PosSemidef ↔ (W - dmdcRhs Sh2 Uh C B).PosSemidef := by
  rw [neg_dmdcLmi, C12_schur_I]
  have : W - Sh2 + Uh * C + Cᵀ * Uhᵀ - (-Uh * B) * (-Uh * B)ᵀ = W - dmdcRhs Sh2 Uh C B := by
    unfold dmdcRhs
    simp only [Matrix.neg_mul, transpose_neg, Matrix.mul_neg, neg_neg]
    abel
  rw [this]

/-- so every feasible `(Ŵ, Û)` has `tr Ŵ ≥` the quadratic form, and the tight slack is feasible -/
theorem C12_dmdc_epigraph (W Sh2 : Matrix rh rh ℝ) (Uh : Matrix rh (rh ⊕ pu) ℝ)
    (C : Matrix (rh ⊕ pu) rh ℝ) (B : Matrix (rh ⊕ pu) rt ℝ) :
    ((-(dmdcLmi W Sh2 Uh C B)).PosSemidef → (dmdcRhs Sh2 Uh C B).trace ≤ W.trace)
    ∧ (-(dmdcLmi (dmdcRhs Sh2 Uh C B) Sh2 Uh C B)).PosSemidef := by
  constructor
  · intro h
    have := ((C12_dmdc_constraint W Sh2 Uh C B).mp h).trace_nonneg
    rw [trace_sub] at this
    linarith
  · rw [C12_dmdc_constraint, sub_self]
    exact Matrix.PosSemidef.zero

/-- **`LmiDmdc` minimises the documented cost in SVD coordinates** (the repaired cross term): at the tight slack the
objective `tr Ŵ` is `‖Σ̂ Ẑᵀ − Û Q̄ Σ̃ Z̃ᵀ‖² + α‖Û Q̄‖²`, i.e. the regularised least-squares cost of `LmiEdmd`
projected on the retained left singular vectors of the target (`dmdc_residual`) -/
theorem C12_dmdc_cost (Qb : Matrix (rh ⊕ pu) rt ℝ) (St Str : Matrix rt rt ℝ) (Sh : Matrix rh rh ℝ)
    (Zt : Matrix q rt ℝ) (Zh : Matrix q rh ℝ) (α : ℝ) (Uh : Matrix rh (rh ⊕ pu) ℝ)
    (hSt : Stᵀ = St) (hSh : Shᵀ = Sh) (hStr : Str * Strᵀ = St * St + α • (1 : Matrix rt rt ℝ))
    (hZt : Ztᵀ * Zt = 1) (hZh : Zhᵀ * Zh = 1) :
    (dmdcRhs (Sh * Sh) Uh (dmdcCross Qb St Zt Zh Sh) (Qb * Str)).trace
      = fro2 (Sh * Zhᵀ - Uh * Qb * St * Ztᵀ) + α * fro2 (Uh * Qb) :=
  dmdc_cost Qb St Str Sh Zt Zh α Uh hSt hSh hStr hZt hZh

/-- and the defect F-dmdc, as a theorem: had the cross term used the REGULARISED `Σ̃_reg` (as the code did before the
repair), the objective would differ from that cost by `2 tr(Û Q̄ (Σ̃_reg − Σ̃) Z̃ᵀ Ẑ Σ̂)` — non-zero whenever α > 0 -/
theorem C12_dmdc_defect (Qb : Matrix (rh ⊕ pu) rt ℝ) (St Str : Matrix rt rt ℝ) (Sh : Matrix rh rh ℝ)
    (Zt : Matrix q rt ℝ) (Zh : Matrix q rh ℝ) (Uh : Matrix rh (rh ⊕ pu) ℝ) :
    (dmdcRhs (Sh * Sh) Uh (dmdcCross Qb St Zt Zh Sh) (Qb * Str)).trace
      - (dmdcRhs (Sh * Sh) Uh (dmdcCross Qb Str Zt Zh Sh) (Qb * Str)).trace
      = 2 * (Uh * (Qb * (Str - St) * Ztᵀ * Zh * Sh)).trace := by
  unfold dmdcRhs dmdcCross
  have e : ∀ M : Matrix (rh ⊕ pu) rh ℝ, (Mᵀ * Uhᵀ).trace = (Uh * M).trace := by
    intro M; rw [← transpose_mul, trace_transpose]
  simp only [trace_add, trace_sub, e]
  have : Uh * (Qb * (Str - St) * Ztᵀ * Zh * Sh)
      = Uh * (Qb * Str * Ztᵀ * Zh * Sh) - Uh * (Qb * St * Ztᵀ * Zh * Sh) := by
    simp only [Matrix.mul_sub, Matrix.sub_mul]
  rw [this, trace_sub]
  ring

/-- the hypotheses of `C12_dmdc_cost` are satisfiable (identity factors, no regularisation) -/
example : ((1 : Matrix (Fin 2) (Fin 2) ℝ))ᵀ = 1 ∧ (1 : Matrix (Fin 2) (Fin 2) ℝ) * 1ᵀ = 1 * 1 + (0 : ℝ) • 1
    ∧ (1 : Matrix (Fin 2) (Fin 2) ℝ)ᵀ * 1 = 1 := by simp

end dmdc

end Pk.C12
