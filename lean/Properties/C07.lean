import Pk.PredictLaws
import Pk.FitLaws
import Pk.Diverge
/-! # C07 — Trajectory prediction is the iterated one-step prediction

Theorems about the executable model of `predict` / `predict_trajectory` (`Pk/Predict.lean`) for every
tree of lifting functions, every Koopman matrix, every initial condition and input sequence.
Property theorems only. -/
namespace Pk.C07
open Pk
variable {α : Type} [Add α] [Mul α] [OfNat α 0] (ops : Ops α) (ok : α → Prop)
variable (p : Pipe α Kind)

/-- the output reproduces the supplied initial conditions verbatim -/
theorem C07_ic (X0 U : List (List α)) :
    (trajStatesRelift (rowFn ops ok) p X0 U).take X0.length = X0 :=
  trajRelift_take _ p U _ X0

/-- one row per input sample -/
theorem C07_rows (X0 U : List (List α)) (h0 : X0.length = p.m) (hU : p.m ≤ U.length) :
    (trajStatesRelift (rowFn ops ok) p X0 U).length = U.length := by
  unfold trajStatesRelift
  rw [trajRelift_length]; omega

theorem window_take {β : Type} (j m : Nat) (l : List β) : window j m (l.take (j + m)) = window j m l := by
  unfold window
  rw [List.drop_take]
  simp [List.take_take]

/-- **the recursion**: for every `k ≥ min_samples_`, the `k`-th predicted state is the last row of the
one-step prediction (`predict`) computed from the `min_samples_` previously *predicted* states and the
true inputs.  (`hT`: the predicted states have the state width — the width law of the inverse is checked
by the correspondence, C04.) -/
theorem C07_step (hL : ops.Lawful ok) (X0 U : List (List α)) (h0 : X0.length = p.m) (hUl : p.m ≤ U.length)
    (hT : ∀ x ∈ trajStatesRelift (rowFn ops ok) p X0 U, x.length = p.w.1)
    (hU : ∀ u ∈ U, u.length = p.w.2) (j : Nat) (hj : p.m + j < U.length) :
    (trajStatesRelift (rowFn ops ok) p X0 U)[p.m + j]? =
      some ((predictEp (rowFn ops ok) p (List.zipWith Row.mk
              (window j p.m (trajStatesRelift (rowFn ops ok) p X0 U)) (window j p.m U))).getLast?.getD []) := by
  have hrow := trajRelift_row (rowFn ops ok) p U (U.length - p.m) X0 j (by omega)
  rw [h0] at hrow
  unfold trajStatesRelift
  rw [hrow]
  congr 1
  unfold nextRow
  simp only []
  have hlenT := C07_rows ops ok p X0 U h0 hUl
  unfold trajStatesRelift at hlenT hT
  have hk : (List.take (p.m + j) (trajRelift (rowFn ops ok) p U (U.length - p.m) X0)).length = p.m + j := by
    rw [List.length_take]; omega
  rw [hk]
  have e : p.m + j - p.m = j := by omega
  rw [e]
  have e2 : p.m + j = j + p.m := by omega
  rw [e2, window_take]
  have hwX : ∀ x ∈ window j p.m (trajRelift (rowFn ops ok) p U (U.length - p.m) X0), x.length = p.w.1 := by
    intro x hx
    exact hT x (List.mem_of_mem_drop (List.mem_of_mem_take hx))
  have hwU : ∀ u ∈ window j p.m U, u.length = p.w.2 := by
    intro u hu
    exact hU u (List.mem_of_mem_drop (List.mem_of_mem_take hu))
  rw [step_eq_predict (rowFn ops ok) p (rowFn_laws ops ok hL) (rowFn_xloc ops ok) _ _ hwX hwU
    (by simp [window]; omega)]

/-- inputs pass through unchanged and the four output shapes are what the flags say -/
theorem C07_inputs (X0 U : List (List α)) :
    trajEp (rowFn ops ok) p true false true X0 U
        = List.zipWith (· ++ ·) (trajStatesRelift (rowFn ops ok) p X0 U) U
    ∧ trajEp (rowFn ops ok) p true false false X0 U = trajStatesRelift (rowFn ops ok) p X0 U
    ∧ trajEp (rowFn ops ok) p true true false X0 U
        = liftStateEp (rowFn ops ok) p (trajStatesRelift (rowFn ops ok) p X0 U) := by
  simp [trajEp]

/-- each episode's prediction is independent of the other episodes (single-matrix call form): the
prediction for label `l` is the trajectory computed from that episode's own rows only -/
theorem C07_episodes (relift lifted inp : Bool) (X Y : FlatMat α) (l : Nat)
    (hX : predictTrajectory (rowFn ops ok) p relift lifted inp X none = .ok Y) :
    episodeOf l Y = if l ∈ labels X then
        trajEp (rowFn ops ok) p relift lifted inp
          (((episodeOf l X).take p.m).map (·.take p.w.1)) ((episodeOf l X).map (·.drop p.w.1))
      else [] := by
  unfold predictTrajectory at hX
  simp only [] at hX
  split at hX
  · cases hX
  · injection hX with hY
    rw [← hY]
    have hlist : ((splitEps X).map fun e => (e.1, (e.2.take p.m).map (·.take p.w.1), e.2.map (·.drop p.w.1))).map
          (fun e => (e.1, trajEp (rowFn ops ok) p relift lifted inp e.2.1 e.2.2))
        = (labels X).map fun l' => (l', trajEp (rowFn ops ok) p relift lifted inp
            (((episodeOf l' X).take p.m).map (·.take p.w.1)) ((episodeOf l' X).map (·.drop p.w.1))) := by
      simp only [splitEps, List.map_map, Function.comp_def]
    rw [hlist]
    exact episodeOf_combine_family l _ (labels X) (asc_labels X)

/-- **without re-lifting, the lifted trajectory satisfies `θ[k+1] = A θ[k] + B υ[k]` exactly**: in the log the
no-relift loop returns, every lifted state after the first is the Koopman matrix applied to the previous lifted
state and lifted input -/
theorem C07_norelift_step (X0 U : List (List α)) (i : Nat)
    (hi : i + 1 < (trajNoReliftAll (rowFn ops ok) p X0 U).2.1.length) :
    (trajNoReliftAll (rowFn ops ok) p X0 U).2.1.getD (i+1) []
      = matVec p.K ((trajNoReliftAll (rowFn ops ok) p X0 U).2.1.getD i []
          ++ (trajNoReliftAll (rowFn ops ok) p X0 U).2.2.getD i []) := by
  unfold trajNoReliftAll at hi ⊢
  simp only [] at hi ⊢
  exact trajNoRelift_rec (rowFn ops ok) p U _ 1 _ X0 _ []
    (by intro j hj; simp at hj) (by simp) (by intro _; simp) i hi

/-- the output shapes of the no-relift mode: with `n = |U| ≥ m` supplied input rows the loop returns `n`
retracted states, `n − m + 1` lifted states and `n − m + 1` lifted inputs -/
theorem C07_norelift_shapes (X0 U : List (List α)) (hX0 : X0.length = p.m) (hU : p.m ≤ U.length) :
    (trajNoReliftAll (rowFn ops ok) p X0 U).1.length = U.length
    ∧ (trajNoReliftAll (rowFn ops ok) p X0 U).2.1.length = U.length - p.m + 1
    ∧ (trajNoReliftAll (rowFn ops ok) p X0 U).2.2.length = U.length - p.m + 1 := by
  unfold trajNoReliftAll
  simp only []
  obtain ⟨h1, h2⟩ := trajNoRelift_lengths (rowFn ops ok) p U (U.length - p.m + 1) 1
    (((liftStateEp (rowFn ops ok) p X0).head?).getD []) X0 [((liftStateEp (rowFn ops ok) p X0).head?).getD []] []
  refine ⟨by rw [h2]; omega, by rw [h1]; simp; omega, by rw [trajNoRelift_ups_length]; simp⟩

/-- every lifted-input row the no-relift mode returns — the last one included — is `lift_input` of the window of
returned states and supplied inputs of its own time step -/
theorem C07_norelift_inputs (X0 U : List (List α)) (hX0 : X0.length = p.m) (j : Nat)
    (hj : j < U.length - p.m + 1) :
    (trajNoReliftAll (rowFn ops ok) p X0 U).2.2[j]?
      = some (((liftInputEp (rowFn ops ok) p (window j p.m (trajNoReliftAll (rowFn ops ok) p X0 U).1)
          (window j p.m U)).head?).getD []) := by
  unfold trajNoReliftAll
  simp only []
  have := trajNoRelift_ups_get (rowFn ops ok) p U (U.length - p.m + 1) 1
    (((liftStateEp (rowFn ops ok) p X0).head?).getD []) X0 [((liftStateEp (rowFn ops ok) p X0).head?).getD []] []
    (by omega) (by omega) (by simpa using hX0) j hj
  simpa using this

/-- `predict`, per label: transform, multiply every lifted row by the Koopman matrix, pad zero lifted
inputs, inverse-transform, keep the state — the definition the recursion above refers to -/
theorem C07_predict_def (X : Ep α) :
    predictEp (rowFn ops ok) p X
      = (Stage.inv (rowFn ops ok) p.s p.w
          ((Stage.tr (rowFn ops ok) p.s X).map fun r =>
            ⟨matVec p.K (r.x ++ r.u), zeros (Stage.outW (rowFn ops ok) p.s p.w).2⟩)).map (·.x) := by
  simp [predictEp, retractStateEp, Pipe.wOut, List.map_map, Function.comp_def]

/-! ### the divergence branch ("crash index", NaN fill) -/
section divergence
open Pk.Diverge

/-- the step of the re-lifting loop of the model, as a function of the rows known so far -/
def reliftStep (U : List (List α)) : Nat → List (List α) → List α := fun _ X =>
  let k := X.length
  let m := p.m
  let Xw := window (k - m) m X
  let Uw := window (k - m) m U
  let Th := liftStateEp (rowFn ops ok) p Xw
  let Up := liftInputEp (rowFn ops ok) p Xw Uw
  let Thk := List.zipWith (fun t u => matVec p.K (t ++ u)) Th Up
  (retractStateEp (rowFn ops ok) p Thk).getLast?.getD []

/-- the loop skeleton of `Pk/Diverge.lean` with this step IS the modelled re-lifting loop -/
theorem trajRelift_eq_loopT (U : List (List α)) (fuel : Nat) (X : List (List α)) :
    trajRelift (rowFn ops ok) p U fuel X = loopT (reliftStep ops ok p U) fuel X := by
  induction fuel generalizing X with
  | zero => rfl
  | succ f ih =>
    unfold trajRelift loopT
    exact ih _

/-- **a diverging prediction still returns one row per input sample** -/
theorem C07_divergence_rows {β : Type} (step : Nat → List β → Option β) (m n : Nat) (x0 : List β)
    (h0 : x0.length = m) (hm : m ≤ n) : (episode step m n x0).length = n :=
  episode_length step m n x0 h0 hm

/-- **the rows reported before the crash index are the iterated one-step predictions**: whenever the step that may
diverge agrees with the model's step where it does not, every non-NaN row of the episode is the row of
`trajStatesRelift` (for which `C07_step`, `C07_ic` hold) -/
theorem C07_divergence_prefix (U X0 : List (List α)) (step : Nat → List (List α) → Option (List α))
    (h : ∀ k X r, step k X = some r → r = reliftStep ops ok p U k X) (i : Nat) (r : List α)
    (hi : (episode step p.m U.length X0)[i]? = some (some r)) :
    (trajStatesRelift (rowFn ops ok) p X0 U)[i]? = some r := by
  unfold trajStatesRelift
  rw [trajRelift_eq_loopT]
  exact episode_prefix step (reliftStep ops ok p U) h p.m U.length X0 i r hi

/-- **NaN exactly from the crash index on**, and the crash index is the index of the last row computed before the
diverging step -/
theorem C07_divergence_pattern {β : Type} (step : Nat → List β → Option β) (m n : Nat) (x0 : List β)
    (h0 : x0.length = m) (hm : m ≤ n) :
    (episode step m n x0).map Option.isNone = nanPattern n (loop step (n - m) x0).2 := by
  unfold episode
  apply fill_pattern
  · intro h
    have := loop_length step (n - m) x0 h
    omega
  · intro c h
    have hc := loop_crash step (n - m) x0 c h
    have hg := loop_grows step (n - m) x0
    omega

/-- **a divergence never leaks into another episode of the same call** -/
theorem C07_divergence_local {β : Type} (pre post : List (Nat × (Nat → List β → Option β) × Nat × Nat × List β))
    (e : Nat × (Nat → List β → Option β) × Nat × Nat × List β) :
    (call (pre ++ e :: post))[pre.length]? = some (e.1, episode e.2.1 e.2.2.1 e.2.2.2.1 e.2.2.2.2) :=
  call_local pre post e

/-- non-vacuity: a three-row episode whose third step diverges keeps one row and reports two NaN rows -/
example : episode (fun k (_ : List Nat) => if k = 2 then none else some k) 1 3 [7] = [some 7, none, none] := by decide

end divergence

end Pk.C07
