import Pk.FitLaws
import Pk.MatFlow
import Pk.XLoc
import Pk.Inst
import Pk.DepSound
/-! # C02 — Lifted state block never depends on the exogenous input

Rows are pairs `⟨x, u⟩`: `x` is the lifted-state block, `u` the input-dependent block.  The theorems say
the partition is exactly the declared one and that the `x` block of the output is a function of the `x`
block of the input, for every tree of lifting functions.  Property theorems only. -/
namespace Pk.C02
open Pk
variable {α : Type} (ops : Ops α) (ok : α → Prop)

/-- the lifted row is partitioned exactly as declared: `n_states_out_` state features then
`n_inputs_out_` input-dependent features, nothing else -/
theorem C02_partition (hL : ops.Lawful ok) (s : S) (nx nu : Nat) (w' : Nat × Nat)
    (hfit : Stage.fit s (nx, nu) = .ok w') (X : Ep α) (hX : Typed nx nu X) :
    ∀ r ∈ Stage.tr (rowFn ops ok) s X, r.x.length = w'.1 ∧ r.u.length = w'.2 := by
  have h := (Stage.fit_ok ops ok s (nx, nu) w' hfit).1
  rw [h]
  exact Stage.typed_tr (rowFn ops ok) (rowFn_laws ops ok hL) s nx nu X hX

/-- changing only the input block of the data never changes the lifted-state block (per episode) -/
theorem C02_state_independent (hL : ops.Lawful ok) (s : S) (nx nu : Nat) (X X' : Ep α)
    (hX : Typed nx nu X) (hX' : Typed nx nu X') (hs : X.map (·.x) = X'.map (·.x)) :
    (Stage.tr (rowFn ops ok) s X).map (·.x) = (Stage.tr (rowFn ops ok) s X').map (·.x) :=
  Stage.x_local (rowFn ops ok) (rowFn_laws ops ok hL) (rowFn_xloc ops ok) s nx nu X X' hX hX' hs

/-- matrix level, any episode layout: if two data matrices agree on every episode's state block then
their lifted matrices agree on every episode's lifted-state block -/
theorem C02_state_independent_matrix (hL : ops.Lawful ok) (s : S) (nx nu : Nat) (X X' : M α)
    (hG : Guard (Stage.loss s + 1) X) (hG' : Guard (Stage.loss s + 1) X')
    (hX : ∀ l, Typed nx nu (episodeOf l X)) (hX' : ∀ l, Typed nx nu (episodeOf l X'))
    (hs : ∀ l, (episodeOf l X).map (·.x) = (episodeOf l X').map (·.x)) (l : Nat) :
    (episodeOf l (Stage.mt (rowFn ops ok) s X)).map (·.x)
      = (episodeOf l (Stage.mt (rowFn ops ok) s X')).map (·.x) := by
  rw [Stage.mt_refines (rowFn ops ok) s X hG l, Stage.mt_refines (rowFn ops ok) s X' hG' l]
  exact C02_state_independent ops ok hL s nx nu _ _ (hX l) (hX' l) (hs l)

/-- **the dependency-set instance is sound** (it is what the correspondence compares with column perturbations of
the real `transform`): mark every cell of an episode with a set of ids (`M`), run the SAME generic tree at the
dependency-set domain; a lifted cell whose set misses `j` has the same value on any two episodes that differ
only in cells whose marks contain `j`.  With the input columns marked `j`, a lifted-state column whose set misses
`j` is therefore independent of the input — for every tree and every value domain. -/
theorem C02_dependency_sound (okD : List Nat → Prop) (s : S) (nx nu : Nat) (X X' : Ep α) (M : Ep (List Nat)) (j : Nat)
    (hX : Typed nx nu X) (hX' : Typed nx nu X') (hM : Typed nx nu M)
    (hl : X.length = M.length) (hl' : X'.length = M.length)
    (h : AgreeOff ops X X' M j) (r : Nat) (hr : r < M.length - Stage.loss s) :
    ∃ d v v', (Stage.tr (rowFn depOps okD) s M)[r]? = some d
      ∧ (Stage.tr (rowFn ops ok) s X)[r]? = some v ∧ (Stage.tr (rowFn ops ok) s X')[r]? = some v'
      ∧ (∀ c, j ∉ d.x.getD c [] → v.x[c]? = v'.x[c]?) ∧ (∀ c, j ∉ d.u.getD c [] → v.u[c]? = v'.u[c]?) :=
  Stage.dep_sound ops ok okD s nx nu X X' M j hX hX' hM hl hl' h r hr

private def sDemo : S := .pipe (.cons (.rw (.poly 2 false)) (.cons (.delay 1 0) .nil))
private def xDemo : Ep Int := [⟨[2], [3]⟩, ⟨[5], [7]⟩]
private def xDemo' : Ep Int := [⟨[2], [11]⟩, ⟨[5], [13]⟩]

/-- non-vacuity: two concrete episodes that differ only in the input, through poly → delay, have equal
state blocks and different input blocks -/
example :
    (Stage.tr (rowFn intOps) sDemo xDemo).map (·.x) = (Stage.tr (rowFn intOps) sDemo xDemo').map (·.x)
    ∧ (Stage.tr (rowFn intOps) sDemo xDemo).map (·.u) ≠ (Stage.tr (rowFn intOps) sDemo xDemo').map (·.u) := by
  decide

/-- non-vacuity of the dependency instance: state column marked 0, input column marked 1; through poly → delay the
lifted-state cells carry only mark 0, the lifted-input cells carry mark 1 -/
example : Stage.tr (rowFn depOps) sDemo [⟨[[0]], [[1]]⟩, ⟨[[0]], [[1]]⟩]
    = [⟨[[0], [0], [0], [0]], [[1], [0, 1], [1]]⟩] := by decide +kernel

end Pk.C02
