import Mathlib.LinearAlgebra.Matrix.Rank
import Mathlib.LinearAlgebra.Matrix.NonsingularInverse
import Mathlib.Data.Complex.Basic
import Mathlib.LinearAlgebra.Matrix.Charpoly.Basic
import PkLA.DmdReal
/-! # C13 — DMD eigenvalues, modes and rank agree with the returned operator

Over `Matrix _ _ ℂ`.  `Dmd` / `Dmdc` return `A_r = real(V Λ V⁺)` with `V⁺` a left inverse of the mode matrix
(obtained by least squares).  The theorems are about that formula; that LAPACK's `eig` / `lstsq` deliver the
hypotheses (`V⁺V = 1`, `Ã Ṽ = Ṽ Λ`, conjugate-closed pairs so that taking the real part loses nothing) is
validated numerically by the check on every fitted estimator, not proved.  Property theorems only. -/
namespace Pk.C13
open Matrix

variable {n r : Type} [Fintype n] [Fintype r] [DecidableEq n] [DecidableEq r]

/-- the reported eigenvalues and modes are eigenpairs of the returned operator -/
theorem C13_eigpairs (V : Matrix n r ℂ) (Vp : Matrix r n ℂ) (Λ : Matrix r r ℂ) (hV : Vp * V = 1) :
    (V * Λ * Vp) * V = V * Λ := by
  rw [Matrix.mul_assoc, hV, Matrix.mul_one]

/-- column `i` of the mode matrix is an eigenvector for `λ_i` -/
theorem C13_eigvec (V : Matrix n r ℂ) (Vp : Matrix r n ℂ) (lam : r → ℂ) (hV : Vp * V = 1) (i : r) :
    (V * diagonal lam * Vp) *ᵥ (V *ᵥ Pi.single i 1) = lam i • (V *ᵥ Pi.single i 1) := by
  rw [mulVec_mulVec, C13_eigpairs V Vp (diagonal lam) hV, ← mulVec_mulVec]
  congr 1
  ext j
  simp [mulVec, dotProduct, diagonal, Pi.single_apply, mul_comm]

/-- … and it is not the zero vector -/
theorem C13_mode_ne_zero (V : Matrix n r ℂ) (Vp : Matrix r n ℂ) (hV : Vp * V = 1) (i : r) :
    V *ᵥ Pi.single i 1 ≠ 0 := by
  intro h0
  have := congrArg (fun z => Vp *ᵥ z) h0
  simp only [mulVec_mulVec, hV, one_mulVec, mulVec_zero] at this
  have := congrFun this i
  simp at this

/-- the operator has rank at most the retained rank (the number of modes) -/
theorem C13_rank (V : Matrix n r ℂ) (Vp : Matrix r n ℂ) (Λ : Matrix r r ℂ) :
    (V * Λ * Vp).rank ≤ Fintype.card r := by
  calc (V * Λ * Vp).rank ≤ (V * Λ).rank := Matrix.rank_mul_le_left _ _
    _ ≤ Λ.rank := Matrix.rank_mul_le_right _ _
    _ ≤ Fintype.card r := Matrix.rank_le_card_width _

/-- projected modes: `V = Q̂ Ṽ` with `Q̂ᴴQ̂ = 1`, `Ã Ṽ = Ṽ Λ`, `Ṽ` invertible: `V⁺ = Ṽ⁻¹Q̂ᴴ` is a left inverse and the
operator is `Q̂ Ã Q̂ᴴ` -/
theorem C13_projected (Q : Matrix n r ℂ) (Vt Vti At Λ : Matrix r r ℂ)
    (hQ : Qᴴ * Q = 1) (hinv : Vti * Vt = 1) (hinv' : Vt * Vti = 1) (hev : At * Vt = Vt * Λ) :
    (Vti * Qᴴ) * (Q * Vt) = 1 ∧ (Q * Vt) * Λ * (Vti * Qᴴ) = Q * At * Qᴴ := by
  constructor
  · calc (Vti * Qᴴ) * (Q * Vt) = Vti * (Qᴴ * Q) * Vt := by simp only [Matrix.mul_assoc]
      _ = 1 := by rw [hQ, Matrix.mul_one, hinv]
  · calc (Q * Vt) * Λ * (Vti * Qᴴ) = Q * (Vt * Λ) * Vti * Qᴴ := by simp only [Matrix.mul_assoc]
      _ = Q * (At * Vt) * Vti * Qᴴ := by rw [hev]
      _ = Q * At * (Vt * Vti) * Qᴴ := by simp only [Matrix.mul_assoc]
      _ = Q * At * Qᴴ := by rw [hinv', Matrix.mul_one]

/-- the non-zero spectrum is contained in the reported eigenvalues: a non-zero eigenvalue of `V Λ V⁺`
(`Λ` diagonal) is one of the `λ_i` -/
theorem C13_spectrum_partial (V : Matrix n r ℂ) (Vp : Matrix r n ℂ) (lam : r → ℂ) (hV : Vp * V = 1)
    (μ : ℂ) (hμ : μ ≠ 0) (w : n → ℂ) (hw : w ≠ 0) (hev : (V * diagonal lam * Vp) *ᵥ w = μ • w) :
    ∃ i, lam i = μ := by
  set z := Vp *ᵥ w with hz
  have hz0 : z ≠ 0 := by
    intro h0
    have : μ • w = 0 := by
      rw [← hev, ← mulVec_mulVec, ← hz, h0, mulVec_zero]
    rcases smul_eq_zero.mp this with h1 | h1
    · exact hμ h1
    · exact hw h1
  have hzev : diagonal lam *ᵥ z = μ • z := by
    have := congrArg (fun y => Vp *ᵥ y) hev
    simp only [mulVec_smul] at this
    rw [← hz] at this
    rw [← this, hz, mulVec_mulVec, mulVec_mulVec]
    congr 1
    simp only [← Matrix.mul_assoc, hV, Matrix.one_mul]
  obtain ⟨i, hi⟩ : ∃ i, z i ≠ 0 := by
    by_contra hcon
    push Not at hcon
    exact hz0 (funext hcon)
  refine ⟨i, ?_⟩
  have := congrFun hzev i
  simp only [mulVec_diagonal, Pi.smul_apply, smul_eq_mul] at this
  exact mul_right_cancel₀ hi this

section charpoly
open Polynomial

/-- **the whole spectrum, with multiplicities.**  With a left inverse of the modes, the characteristic polynomial of
the reconstructed operator `V Λ V⁺` is that of `Λ` up to powers of `X`:
`X^r · χ(VΛV⁺) = X^n · ∏ᵢ (X − λᵢ)`.  Hence the non-zero eigenvalues of the state-transition block, counted with
algebraic multiplicity, are exactly the non-zero reported `eigenvalues_`, and the remaining `n − r` (+ the number of
zero `λᵢ`) eigenvalues are zero. -/
theorem C13_charpoly (V : Matrix n r ℂ) (Vp : Matrix r n ℂ) (lam : r → ℂ) (hV : Vp * V = 1) :
    (X : ℂ[X]) ^ Fintype.card r * (V * diagonal lam * Vp).charpoly
      = X ^ Fintype.card n * ∏ i, (X - C (lam i)) := by
  have h := charpoly_mul_comm' V (diagonal lam * Vp)
  have e : diagonal lam * Vp * V = diagonal lam := by rw [Matrix.mul_assoc, hV, Matrix.mul_one]
  rw [e, charpoly_diagonal, ← Matrix.mul_assoc] at h
  exact h

/-- in particular every non-zero root of the characteristic polynomial is a reported eigenvalue and vice versa -/
theorem C13_spectrum (V : Matrix n r ℂ) (Vp : Matrix r n ℂ) (lam : r → ℂ) (hV : Vp * V = 1) (μ : ℂ) (hμ : μ ≠ 0) :
    (V * diagonal lam * Vp).charpoly.IsRoot μ ↔ ∃ i, lam i = μ := by
  have h := congrArg (fun p => Polynomial.eval μ p) (C13_charpoly V Vp lam hV)
  simp only [eval_mul, eval_pow, eval_X, eval_prod, eval_sub, eval_C] at h
  have hp : ∀ k : ℕ, μ ^ k ≠ 0 := fun k => pow_ne_zero k hμ
  constructor
  · intro hr
    rw [IsRoot.def] at hr
    rw [hr, mul_zero] at h
    have := (mul_eq_zero.mp h.symm).resolve_left (hp _)
    obtain ⟨i, _, hi⟩ := Finset.prod_eq_zero_iff.mp this
    exact ⟨i, (sub_eq_zero.mp hi).symm⟩
  · rintro ⟨i, hi⟩
    have hz : ∏ j, (μ - lam j) = 0 := Finset.prod_eq_zero (Finset.mem_univ i) (by rw [hi, sub_self])
    rw [hz, mul_zero] at h
    exact (mul_eq_zero.mp h).resolve_left (hp _)

end charpoly

/-! ### "that block is real": taking the real part loses nothing -/

/-- the eigenpairs of a real matrix come in conjugate pairs (`σ` pairs each mode with its conjugate; a real eigenpair is
its own partner).  For such `lam`, `V` and the Moore–Penrose left inverse `V⁺ = (VᴴV)⁻¹Vᴴ` that `lstsq` computes for a
full-column-rank `V`, the reconstruction `V Λ V⁺` IS a real matrix … -/
theorem C13_reconstruction_real (V : Matrix n r ℂ) (lam : r → ℂ) (σ : Equiv.Perm r)
    (hlam : ∀ i, lam (σ i) = star (lam i)) (hVσ : ∀ a i, V a (σ i) = star (V a i))
    (hV : IsUnit (Vᴴ * V).det) :
    ∃ A : Matrix n n ℝ, V * diagonal lam * ((Vᴴ * V)⁻¹ * Vᴴ) = A.map Complex.ofReal :=
  PkLA.reconstruction_exists_real V lam σ hlam hVσ hV

/-- … so the published block `A = real(V Λ V⁺)` still has the published eigenvalues and modes as eigenpairs -/
theorem C13_real_part_eigpairs (V : Matrix n r ℂ) (lam : r → ℂ) (σ : Equiv.Perm r)
    (hlam : ∀ i, lam (σ i) = star (lam i)) (hVσ : ∀ a i, V a (σ i) = star (V a i))
    (hV : IsUnit (Vᴴ * V).det) (A : Matrix n n ℝ)
    (hA : ∀ a b, A a b = ((V * diagonal lam * ((Vᴴ * V)⁻¹ * Vᴴ)) a b).re) (i : r) :
    (A.map Complex.ofReal) *ᵥ (fun a => V a i) = lam i • (fun a => V a i) :=
  PkLA.real_part_keeps_eigenpairs V lam σ hlam hVσ hV A hA i

end Pk.C13
