import Pk.Pairs
import Pk.Inst
import Mathlib.Data.Matrix.Mul
import Mathlib.Algebra.BigOperators.Group.List.Basic
/-! # C05 — Regressors train on exactly the within-episode consecutive pairs

`KoopmanRegressor.fit` calls `shift_episodes`, strips the episode column and hands the two matrices to
`_fit_regressor`; row `i` of the first is paired with row `i` of the second.  Property theorems only. -/
namespace Pk.C05
open Pk
variable {ρ : Type}

/-- the training pairs are exactly, for each label in ascending order, the consecutive pairs
`(row k, f (row k+1))` inside that episode — none straddles two episodes, none is dropped or duplicated -/
theorem C05_pairs (f : ρ → ρ) (X : Mat ρ) :
    trainPairs f X = (labels X).flatMap fun l => epPairs f (episodeOf l X) :=
  trainPairs_eq f X

/-- an episode of `n` samples contributes exactly `n - 1` pairs (none for a single sample) -/
theorem C05_count (f : ρ → ρ) (e : List ρ) : (epPairs f e).length = e.length - 1 := by
  simp [epPairs]

/-- pair `k` of an episode is (sample `k`, `f` of sample `k+1`): consecutive, in time order -/
theorem C05_consecutive (f : ρ → ρ) (e : List ρ) (k : Nat) (h : k + 1 < e.length) :
    (epPairs f e)[k]? = some (e[k]'(by omega), f (e[k+1]'h)) := by
  unfold epPairs
  rw [List.getElem?_eq_getElem (by simp; omega)]
  simp [List.getElem_zip, List.getElem_dropLast]

/-- the two matrices stay row-aligned: they carry the same label sequence -/
theorem C05_aligned (f : ρ → ρ) (X : Mat ρ) :
    (shiftUn X).map (·.1) = (shiftSh f X).map (·.1) := by
  unfold shiftUn shiftSh
  rw [perEpisode_eq, perEpisode_eq, List.map_flatMap, List.map_flatMap]
  congr 1
  funext l
  simp only [List.map_map, Function.comp_def]
  rw [List.map_const', List.map_const']
  simp

/-- the shifted side never contains inputs: with `f = dropInputs nu` every shifted row has the state
width only -/
theorem C05_shifted_has_no_inputs {α : Type} (nu w : Nat) (X : Mat (List α)) (hw : ∀ p ∈ X, p.2.length = w + nu) :
    ∀ p ∈ shiftSh (dropInputs nu) X, p.2.length = w := by
  intro p hp
  unfold shiftSh at hp
  rw [perEpisode_eq] at hp
  simp only [List.mem_flatMap, List.mem_map] at hp
  obtain ⟨l, _, r, ⟨r0, hr0, rfl⟩, rfl⟩ := hp
  have hmem : r0 ∈ episodeOf l X := List.mem_of_mem_tail hr0
  simp only [episodeOf, List.mem_map, List.mem_filter] at hmem
  obtain ⟨q, ⟨hq, _⟩, rfl⟩ := hmem
  simp [dropInputs, hw q hq]

/-- supplying the (unshifted, shifted) matrices explicitly gives the regressor the same arguments:
`fit(X)` is *defined* as `fit(shift_episodes(X))`; this is the statement for the model -/
theorem C05_explicit_eq (f : ρ → ρ) (X : Mat ρ) :
    trainPairs f X = List.zip ((shiftUn X).map (·.2)) ((shiftSh f X).map (·.2)) := rfl

/-- relabelling / reordering: if `Y` has the same episodes as `X` under an order-preserving relabelling
`σ` of the labels, the training pairs are identical (same order) -/
theorem C05_relabel (f : ρ → ρ) (X Y : Mat ρ) (σ : Nat → Nat)
    (hl : labels Y = (labels X).map σ) (he : ∀ l ∈ labels X, episodeOf (σ l) Y = episodeOf l X) :
    trainPairs f Y = trainPairs f X := by
  rw [trainPairs_eq, trainPairs_eq, hl, List.flatMap_map]
  apply flatMap_congr_mem
  intro l hl'
  rw [he l hl']

/-- permuting the episodes (any relabelling): the pairs are the same up to a permutation of the episode
blocks -/
theorem C05_relabel_perm (f : ρ → ρ) (X Y : Mat ρ) (σ : Nat → Nat)
    (hl : (labels Y).Perm ((labels X).map σ)) (he : ∀ l ∈ labels X, episodeOf (σ l) Y = episodeOf l X) :
    (trainPairs f Y).Perm (trainPairs f X) := by
  rw [trainPairs_eq, trainPairs_eq]
  have h1 : ((labels Y).flatMap fun l => epPairs f (episodeOf l Y)).Perm
      (((labels X).map σ).flatMap fun l => epPairs f (episodeOf l Y)) := List.Perm.flatMap_right _ hl
  refine h1.trans ?_
  rw [List.flatMap_map]
  have : ((labels X).flatMap fun l => epPairs f (episodeOf (σ l) Y))
       = ((labels X).flatMap fun l => epPairs f (episodeOf l X)) := by
    apply flatMap_congr_mem
    intro l hl'; rw [he l hl']
  rw [this]

private def xDemo : Mat (List Int) := [(7, [1, 10]), (3, [2, 20]), (7, [3, 30]), (3, [4, 40]), (7, [5, 50])]

/-- non-vacuity / concrete check on an interleaved two-episode matrix with one input column -/
example : trainPairs (dropInputs 1) xDemo
    = [([2, 20], [4]), ([1, 10], [3]), ([3, 30], [5])] := by decide

end Pk.C05

/-! ### the Gram sums only see the multiset of pairs -/
namespace Pk.C05
open Matrix

/-- `G = Σ θ₊ ψᵀ` and `H = Σ ψ ψᵀ` over the training pairs (what every least-squares regressor of the package forms,
up to the common factor `1/q`) -/
def gramG {p t : Type} (ps : List ((p → ℚ) × (t → ℚ))) : Matrix t p ℚ := (ps.map fun pr => vecMulVec pr.2 pr.1).sum
def gramH {p t : Type} (ps : List ((p → ℚ) × (t → ℚ))) : Matrix p p ℚ := (ps.map fun pr => vecMulVec pr.1 pr.1).sum

/-- relabelling or reordering the episodes permutes the training pairs (`C05_relabel_perm`); the Gram matrices — hence
the normal equations and, where their solution is unique (C06), the fitted Koopman matrix — do not change -/
theorem C05_gram_perm {p t : Type} (ps qs : List ((p → ℚ) × (t → ℚ))) (h : ps.Perm qs) :
    gramG ps = gramG qs ∧ gramH ps = gramH qs :=
  ⟨(h.map _).sum_eq, (h.map _).sum_eq⟩

end Pk.C05
