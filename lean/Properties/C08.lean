import Pk.Score
import Pk.ScoreG
import Pk.ScoreLaws
import Pk.Inst
import Mathlib.Algebra.Order.Field.Rat
import Mathlib.Tactic.Positivity
import Mathlib.Tactic.Linarith
/-! # C08 — Scores measure prediction error against the aligned ground truth

Theorems about the exact-rational model of `_weights_from_data_matrix`, `score_trajectory` and the
scorer wiring (`Pk/Score.lean`).  The multistep scorer's misalignment (finding F-score) is witnessed by a
closed example.  Property theorems only. -/
namespace Pk.C08
open Pk

/-- weight `γ^k` on the `k`-th predicted step of an episode, zero beyond `n_steps` -/
theorem C08_weights (ns : Option Nat) (γ : Rat) (n k : Nat) (hk : k < n) :
    (weightsEp ns γ n)[k]? = some (match ns with
      | none => γ ^ k
      | some s => if k < s then γ ^ k else 0) := by
  unfold weightsEp
  cases ns with
  | none => simp [hk]
  | some s =>
    simp only []
    by_cases h : k < s
    · rw [List.getElem?_append_left (by simp; omega)]
      simp [h, hk]
    · rw [List.getElem?_append_right (by simp; omega)]
      simp only [List.length_map, List.length_range, h, if_false]
      rw [List.getElem?_replicate]
      have : k - min s n < n - min s n := by omega
      simp [this]

/-- one weight per (IC-stripped) sample: initial-condition samples carry no weight because they are not
there — `score_trajectory` strips them from both matrices before weighting -/
theorem C08_weights_len (ns : Option Nat) (γ : Rat) (n : Nat) : (weightsEp ns γ n).length = n := by
  unfold weightsEp
  cases ns <;> simp <;> omega

theorem rsum_eq (l : List Rat) : rsum l = l.sum := by
  unfold rsum
  have : ∀ (a : Rat) (l : List Rat), l.foldl (· + ·) a = a + l.sum := by
    intro a l
    induction l generalizing a with
    | nil => simp
    | cons b t ih => simp [ih, add_assoc]
  simpa using this 0 l

theorem cellErr_self (m : Metric) (a : Rat) : cellErr m a a = 0 := by
  cases m <;> simp [cellErr]

theorem cellErr_nonneg (m : Metric) (a b : Rat) : 0 ≤ cellErr m a b := by
  cases m
  · simp only [cellErr]; exact mul_self_nonneg _
  · simp only [cellErr]; split <;> linarith
  · simp only [cellErr]
    apply div_nonneg
    · split <;> linarith
    · have he : (0 : Rat) < mapeEps := by unfold mapeEps; norm_num
      have hfl : ∀ s : Rat, 0 ≤ (if s < mapeEps then mapeEps else s) := by
        intro s; split
        · exact le_of_lt he
        · rename_i h; exact le_trans (le_of_lt he) (not_lt.mp h)
      exact hfl _

theorem sum_nonneg' (l : List Rat) (h : ∀ x ∈ l, 0 ≤ x) : 0 ≤ l.sum := List.sum_nonneg h

theorem rowErr_nonneg (m : Metric) (a b : List Rat) : 0 ≤ rsum (List.zipWith (cellErr m) a b) := by
  rw [rsum_eq]
  apply List.sum_nonneg
  intro x hx
  obtain ⟨i, hi, rfl⟩ := List.getElem_of_mem hx
  simp only [List.getElem_zipWith]
  exact cellErr_nonneg m _ _

theorem rowErr_self (m : Metric) (a : List Rat) : rsum (List.zipWith (cellErr m) a a) = 0 := by
  rw [rsum_eq]
  apply List.sum_eq_zero
  intro x hx
  obtain ⟨i, hi, rfl⟩ := List.getElem_of_mem hx
  simp [cellErr_self]

/-- a prediction that reproduces the expected trajectory exactly has weighted error 0 … -/
theorem C08_perfect_zero (m : Metric) (w : List Rat) (E : List (List Rat)) : weightedErr m w E E = 0 := by
  unfold weightedErr
  simp only []
  have : rsum (List.zipWith (fun wr pe => wr * rsum (List.zipWith (cellErr m) pe.1 pe.2)) w (List.zip E E)) = 0 := by
    rw [rsum_eq]
    apply List.sum_eq_zero
    intro x hx
    obtain ⟨i, hi, rfl⟩ := List.getElem_of_mem hx
    simp only [List.getElem_zipWith, List.getElem_zip, rowErr_self, mul_zero]
  rw [this]; simp

/-- … and no prediction does better: with non-negative weights the weighted error is never negative, so the
(negated) score of a perfect prediction, 0, is the best attainable -/
theorem C08_nonpos (m : Metric) (w : List Rat) (hw : ∀ x ∈ w, 0 ≤ x) (P E : List (List Rat)) :
    0 ≤ weightedErr m w P E := by
  unfold weightedErr
  simp only []
  apply div_nonneg
  · rw [rsum_eq]
    apply List.sum_nonneg
    intro x hx
    obtain ⟨i, hi, rfl⟩ := List.getElem_of_mem hx
    simp only [List.getElem_zipWith]
    exact mul_nonneg (hw _ (List.getElem_mem _)) (rowErr_nonneg m _ _)
  · apply mul_nonneg
    · rw [rsum_eq]; exact List.sum_nonneg hw
    · exact Nat.cast_nonneg _

/-- the weights are non-negative whenever the discount factor is -/
theorem weights_nonneg (ns : Option Nat) (γ : Rat) (hγ : 0 ≤ γ) (n : Nat) : ∀ x ∈ weightsEp ns γ n, 0 ≤ x := by
  intro x hx
  unfold weightsEp at hx
  simp only [List.mem_append, List.mem_map, List.mem_range, List.mem_replicate] at hx
  rcases hx with ⟨k, _, rfl⟩ | ⟨_, rfl⟩
  · exact pow_nonneg hγ k
  · exact le_refl _

/-- a finite `error_score` is a floor on the returned value -/
theorem C08_floor (metric : Metric) (e : Rat) (ns : Option Nat) (γ : Rat) (m : Nat) (P E : FlatMat Rat) (r : Rat)
    (h : scoreTrajectory true metric (.val e) ns γ m P E = .val r) : e ≤ r := by
  unfold scoreTrajectory at h
  simp only [Bool.not_true, Bool.false_eq_true, if_false] at h
  split at h
  · cases h
  · split at h
    · cases h
    · split at h
      · cases h
      · split at h
        · rename_i hlt; injection h with h; rw [← h]
        · rename_i hlt; injection h with h; rw [← h]; exact not_lt.mp hlt

/-- non-finite predictions yield `error_score`, or raise when `error_score='raise'` -/
theorem C08_nonfinite (metric : Metric) (es : ErrScore) (ns : Option Nat) (γ : Rat) (m : Nat) (P E : FlatMat Rat) :
    scoreTrajectory false metric es ns γ m P E = errOut es := by
  simp [scoreTrajectory]

/-- `KoopmanPipeline.score` is the scorer with default arguments; and the one-step scorer is
`score_trajectory(predict(X_unshifted), X_shifted)` with `n_steps=None`, `discount_factor=1` -/
theorem C08_onestep_wiring {κ : Type} (env : κ → RowFn Rat) (p : Pipe Rat κ) (relift : Bool) (metric : Metric)
    (es : ErrScore) (ns : Option Nat) (γ : Rat) (X : FlatMat Rat) :
    scorer env p false relift metric es ns γ X
      = scoreTrajectory true metric es none 1 p.m (predictFlat env p (shiftUn X))
          (shiftSh (dropInputs p.w.2) X) := by
  simp [scorer]

/-- **alignment of the one-step score.**  For every episode label `l` (any layout of the rows), what the one-step
scorer compares after stripping `m = min_samples_` rows is: the one-step predictions computed from that episode's own
samples `0 … n−2`, against that episode's own states `1 … n−1` — row `i` of one against row `i` of the other. -/
theorem C08_onestep_aligned {κ : Type} (env : κ → RowFn Rat) (p : Pipe Rat κ) (X : FlatMat Rat) (l : Nat)
    (hG : Guard (Stage.loss p.s + 1) (toPairs p.w.1 (shiftUn X))) :
    episodeOf l (stripIC p.m (predictFlat env p (shiftUn X)))
        = (predictEp env p (episodeOf l (toPairs p.w.1 (shiftUn X)))).drop p.m
    ∧ episodeOf l (toPairs p.w.1 (shiftUn X))
        = ((episodeOf l X).dropLast).map (fun r => ⟨r.take p.w.1, r.drop p.w.1⟩)
    ∧ episodeOf l (stripIC p.m (shiftSh (dropInputs p.w.2) X))
        = (((episodeOf l X).tail).map (dropInputs p.w.2)).drop p.m := by
  refine ⟨?_, ?_, ?_⟩
  · unfold stripIC
    rw [episodeOf_perEpisode _ (by simp), predictFlat_refines env p _ hG l]
  · unfold toPairs shiftUn
    rw [episodeOf_map_snd (fun r : List Rat => (⟨r.take p.w.1, r.drop p.w.1⟩ : Row Rat)),
      episodeOf_perEpisode _ (by simp)]
  · unfold stripIC shiftSh
    rw [episodeOf_perEpisode _ (by simp), episodeOf_perEpisode _ (by simp)]

/-- **what the multi-step scorer compares, in general** (finding F-score as a theorem, not only a witness): for every
episode `l`, the predicted side is the trajectory simulated from that episode's first `m` samples — whose row `i` is
the state at time `i` of the UNSHIFTED data — while the expected side is `shiftSh`, whose row `i` is the state at time
`i + 1`.  Row `i` of one is compared with row `i` of the other: the multi-step score is off by one sample. -/
theorem C08_multistep_compared {κ : Type} (env : κ → RowFn Rat) (p : Pipe Rat κ) (relift : Bool) (X Xp : FlatMat Rat)
    (hm : 1 ≤ p.m)
    (hok : predictTrajectory env p relift false false (extractIC p.m (dropInputs p.w.2) (shiftUn X))
      (some (extractInput (keepInputs p.w.2) (shiftUn X))) = .ok Xp)
    (l : Nat) (hl : l ∈ labels (shiftUn X)) :
    episodeOf l (stripIC p.m Xp)
        = (trajEp env p relift false false ((((episodeOf l X).dropLast).take p.m).map (dropInputs p.w.2))
            (((episodeOf l X).dropLast).map (keepInputs p.w.2))).drop p.m
    ∧ episodeOf l (stripIC p.m (shiftSh (dropInputs p.w.2) X))
        = (((episodeOf l X).tail).map (dropInputs p.w.2)).drop p.m := by
  constructor
  · unfold stripIC
    rw [episodeOf_perEpisode _ (by simp),
      predictTrajectory_refines env p relift false false (shiftUn X) _ _ hm Xp hok l hl]
    unfold shiftUn
    rw [episodeOf_perEpisode _ (by simp)]
  · unfold stripIC shiftSh
    rw [episodeOf_perEpisode _ (by simp), episodeOf_perEpisode _ (by simp)]

private def pDemo : Pipe Rat Kind := ⟨.pipe .nil, (1, 0), [[2]]⟩
private def xDemo : FlatMat Rat := [(0, [1]), (0, [2]), (0, [4]), (0, [8])]

/-- **finding F-score, closed witness**: the model `x⁺ = 2x` reproduces the data `1, 2, 4, 8` exactly
(its multi-step prediction from the initial condition is the data itself), the one-step scorer gives it
the best score 0, but the multistep scorer — which compares the prediction of time `k` with the truth at
time `k+1` — gives it −10. -/
theorem C08_multistep_misaligned_witness :
    trajEp (rowFn ratOps) pDemo true false false [[1]] [[], [], [], []] = [[1], [2], [4], [8]]
    ∧ scorer (rowFn ratOps) pDemo false true .mse .nan none 1 xDemo = .val 0
    ∧ scorer (rowFn ratOps) pDemo true true .mse .nan none 1 xDemo = .val (-10) := by
  decide +kernel


/-! ### the "greater is better" metrics (`'r2'`, `'explained_variance'`): the best attainable score is 1 -/
theorem wsum_nonneg (w v : List Rat) (hw : ∀ x ∈ w, 0 ≤ x) (hv : ∀ x ∈ v, 0 ≤ x) : 0 ≤ wsum w v := by
  unfold wsum
  rw [rsum_eq]
  apply List.sum_nonneg
  intro x hx
  obtain ⟨i, hi, rfl⟩ := List.getElem_of_mem hx
  simp only [List.getElem_zipWith]
  exact mul_nonneg (hw _ (List.getElem_mem _)) (hv _ (List.getElem_mem _))

theorem sq_nonneg' (x : Rat) : 0 ≤ sqr x := mul_self_nonneg x

theorem assemble_le_one (num den : Rat) (hn : 0 ≤ num) (hd : 0 ≤ den) : assemble num den ≤ 1 := by
  unfold assemble
  split
  · exact le_refl _
  · split
    · exact zero_le_one
    · have : 0 ≤ num / den := div_nonneg hn hd
      linarith

theorem colGood_le_one (g : GMetric) (w p e : List Rat) (hw : ∀ x ∈ w, 0 ≤ x) : colGood g w p e ≤ 1 := by
  have hW : 0 ≤ rsum w := by rw [rsum_eq]; exact List.sum_nonneg hw
  have hsq : ∀ (l : List Rat) (f : Rat → Rat), ∀ x ∈ l.map (fun y => sqr (f y)), 0 ≤ x := by
    intro l f x hx
    simp only [List.mem_map] at hx
    obtain ⟨y, _, rfl⟩ := hx
    exact sq_nonneg' _
  cases g
  · simp only [colGood]
    apply assemble_le_one
    · exact wsum_nonneg _ _ hw (hsq _ id)
    · exact wsum_nonneg _ _ hw (hsq _ _)
  · simp only [colGood]
    apply assemble_le_one
    · exact div_nonneg (wsum_nonneg _ _ hw (hsq _ _)) hW
    · exact div_nonneg (wsum_nonneg _ _ hw (hsq _ _)) hW

theorem rsum_le_length (l : List Rat) (h : ∀ x ∈ l, x ≤ 1) : rsum l ≤ (l.length : Rat) := by
  rw [rsum_eq]
  induction l with
  | nil => simp
  | cons a t ih =>
    simp only [List.sum_cons, List.length_cons, Nat.cast_add, Nat.cast_one]
    have := ih (fun x hx => h x (List.mem_cons_of_mem _ hx))
    have := h a (List.mem_cons_self)
    linarith

/-- no prediction scores above 1 with `'r2'` / `'explained_variance'` (non-negative weights) … -/
theorem C08_goodness_le_one (g : GMetric) (w : List Rat) (hw : ∀ x ∈ w, 0 ≤ x) (P E : List (List Rat)) :
    goodness g w P E ≤ 1 := by
  unfold goodness
  simp only []
  generalize ncolsOf E = ncols
  have h1 := rsum_le_length ((List.range ncols).map fun j => colGood g w (colOf j P) (colOf j E)) (by
    intro x hx
    simp only [List.mem_map] at hx
    obtain ⟨j, _, rfl⟩ := hx
    exact colGood_le_one g w _ _ hw)
  simp only [List.length_map, List.length_range] at h1
  rcases Nat.eq_zero_or_pos ncols with h0 | hpos
  · subst h0; simp
  · have : (0 : Rat) < ncols := by exact_mod_cast hpos
    rw [div_le_one this]; exact h1

theorem zipWith_sub_self (e : List Rat) : List.zipWith (fun a b => b - a) e e = List.replicate e.length 0 := by
  induction e with
  | nil => rfl
  | cons a t ih => simp [List.replicate_succ]

theorem wsum_zeros (w : List Rat) (n : Nat) : wsum w (List.replicate n 0) = 0 := by
  unfold wsum
  rw [rsum_eq]
  apply List.sum_eq_zero
  intro x hx
  obtain ⟨i, hi, rfl⟩ := List.getElem_of_mem hx
  simp

theorem colGood_self (g : GMetric) (w e : List Rat) : colGood g w e e = 1 := by
  cases g
  · simp only [colGood, zipWith_sub_self]
    have : (List.replicate e.length (0:Rat)).map sqr = List.replicate e.length 0 := by simp [sqr]
    rw [this, wsum_zeros]; simp [assemble]
  · simp only [colGood, zipWith_sub_self, wsum_zeros, zero_div, sub_zero]
    have : (List.replicate e.length (0:Rat)).map (fun x => sqr x) = List.replicate e.length 0 := by simp [sqr]
    rw [this, wsum_zeros]; simp [assemble]

/-- … and a prediction that reproduces the expected trajectory exactly attains it -/
theorem C08_goodness_perfect (g : GMetric) (w : List Rat) (r : List Rat) (E : List (List Rat)) (hr : r ≠ []) :
    goodness g w (r :: E) (r :: E) = 1 := by
  unfold goodness
  simp only [colGood_self, ncolsOf]
  have hlen : r.length ≠ 0 := by simpa using hr
  have : rsum ((List.range r.length).map fun _ => (1 : Rat)) = (r.length : Rat) := by
    rw [rsum_eq]; simp
  rw [this]
  exact div_self (by exact_mod_cast hlen)

/-- the `error_score` floor and the non-finite branch are the same as for the error metrics -/
theorem C08_floor_G (g : GMetric) (e : Rat) (ns : Option Nat) (γ : Rat) (m : Nat) (P E : FlatMat Rat) (r : Rat)
    (h : scoreTrajectoryG true g (.val e) ns γ m P E = .val r) : e ≤ r := by
  unfold scoreTrajectoryG at h
  simp only [Bool.not_true, Bool.false_eq_true, if_false] at h
  split at h
  · cases h
  · split at h
    · cases h
    · split at h
      · cases h
      · split at h
        · simp only [errOut] at h; injection h with h; rw [← h]
        · split at h
          · injection h with h; rw [← h]
          · rename_i hlt; injection h with h; rw [← h]; exact not_lt.mp hlt

theorem C08_nonfinite_G (g : GMetric) (es : ErrScore) (ns : Option Nat) (γ : Rat) (m : Nat) (P E : FlatMat Rat) :
    scoreTrajectoryG false g es ns γ m P E = errOut es := by
  simp [scoreTrajectoryG]

/-- never above the best score, whatever the prediction (valid discount factor) -/
theorem C08_best_G (g : GMetric) (ns : Option Nat) (γ : Rat) (m : Nat) (P E : FlatMat Rat) (r : Rat)
    (h : scoreTrajectoryG true g .nan ns γ m P E = .val r) : r ≤ 1 := by
  unfold scoreTrajectoryG at h
  simp only [Bool.not_true, Bool.false_eq_true, if_false] at h
  split at h
  · cases h
  · rename_i hγ
    split at h
    · cases h
    · split at h
      · cases h
      · split at h
        · simp [errOut] at h
        · injection h with h; rw [← h]
          apply C08_goodness_le_one
          intro x hx
          have hγ0 : 0 ≤ γ := by
            by_contra hc; exact hγ (Or.inl (not_le.mp hc))
          unfold weightsOf at hx
          simp only [List.mem_flatMap] at hx
          obtain ⟨ep, _, hx⟩ := hx
          exact weights_nonneg ns γ hγ0 _ x hx

example : goodness .r2 [1, 1, 1] [[1, 2], [3, 2], [4, 3]] [[1, 2], [2, 2], [4, 2]] = 11/28 := by decide +kernel

end Pk.C08
