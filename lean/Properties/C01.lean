import Pk.FitLaws
import Pk.MatFlow
import Pk.InvFlow
import Pk.Leading
import Pk.Inst
/-! # C01 — Lift then retract returns the original data for every pipeline

For every tree of lifting functions (all ten kinds, nested `SplitPipeline` / `KoopmanPipeline` to any
depth, unequal state/input delays), every input width and every episode: inverse-transforming the
transform returns the trailing samples of the episode — all of them when state and input delays agree.
Property theorems only; helper lemmas live in `Pk/`. -/
namespace Pk.C01
open Pk
variable {α : Type} (ops : Ops α) (ok : α → Prop)

mutual
/-- state and input delays agree everywhere in the tree -/
def Stage.eqDelays : S → Prop
  | .rw _ => True
  | .delay dx du => dx = du
  | .split a b => Stages.eqDelays a ∧ Stages.eqDelays b ∧ Stages.loss a = Stages.loss b
  | .pipe ss => Stages.eqDelays ss
def Stages.eqDelays : Ss → Prop
  | .nil => True
  | .cons s rest => Stage.eqDelays s ∧ Stages.eqDelays rest
end

/-- the invariant that composes through chains: the inverse of any non-empty suffix of the lifted
episode is a suffix of the original episode, `gain` samples longer -/
theorem C01_roundtrip_suffix (hL : ops.Lawful ok) (s : S) (nx nu : Nat) (w' : Nat × Nat)
    (hfit : Stage.fit s (nx, nu) = .ok w') (X : Ep α) (hX : Typed nx nu X)
    (hdom : Stage.dom (rowFn ops ok) s X)
    (k : Nat) (hk1 : 1 ≤ k) (hk : k + Stage.loss s ≤ X.length) :
    Stage.inv (rowFn ops ok) s (nx, nu) (lastN k (Stage.tr (rowFn ops ok) s X))
      = lastN (k + Stage.gain s) X :=
  Stage.roundtrip_suffix (rowFn ops ok) (rowFn_laws ops ok hL) s nx nu X
    (Stage.fit_ok ops ok s (nx, nu) w' hfit).2 hdom hX k hk1 hk

/-- C01 per episode: `inverse_transform (transform X)` is the trailing `n - loss + gain` samples of `X`
for every episode with at least `min_samples_ = loss + 1` samples -/
theorem C01_roundtrip_ep (hL : ops.Lawful ok) (s : S) (nx nu : Nat) (w' : Nat × Nat)
    (hfit : Stage.fit s (nx, nu) = .ok w') (X : Ep α) (hX : Typed nx nu X)
    (hdom : Stage.dom (rowFn ops ok) s X) (hmin : Stage.nSamplesIn s 1 ≤ X.length) :
    Stage.inv (rowFn ops ok) s (nx, nu) (Stage.tr (rowFn ops ok) s X)
      = lastN (X.length - Stage.loss s + Stage.gain s) X :=
  Stage.roundtrip (rowFn ops ok) (rowFn_laws ops ok hL) s nx nu X
    (Stage.fit_ok ops ok s (nx, nu) w' hfit).2 hdom hX (by rw [Stage.nSamplesIn_eq] at hmin; omega)

mutual
theorem gain_eq_loss (s : S) (h : Stage.eqDelays s) : Stage.gain s = Stage.loss s := by
  cases s with
  | rw k => simp [Stage.gain, Stage.loss]
  | delay dx du => simp only [Stage.eqDelays] at h; simp [Stage.gain, Stage.loss, h]
  | split a b =>
    simp only [Stage.eqDelays] at h
    simp only [Stage.gain, Stage.loss, gains_eq_loss a h.1, gains_eq_loss b h.2.1, h.2.2]; omega
  | pipe ss => simp only [Stage.eqDelays] at h; simpa [Stage.gain, Stage.loss] using gains_eq_loss ss h
theorem gains_eq_loss (ss : Ss) (h : Stages.eqDelays ss) : Stages.gain ss = Stages.loss ss := by
  cases ss with
  | nil => simp [Stages.gain, Stages.loss]
  | cons s rest =>
    simp only [Stages.eqDelays] at h
    simp [Stages.gain, Stages.loss, gain_eq_loss s h.1, gains_eq_loss rest h.2]
end

/-- with equal state and input delays the whole episode comes back -/
theorem C01_roundtrip_full (hL : ops.Lawful ok) (s : S) (nx nu : Nat) (w' : Nat × Nat)
    (hfit : Stage.fit s (nx, nu) = .ok w') (X : Ep α) (hX : Typed nx nu X)
    (hdom : Stage.dom (rowFn ops ok) s X) (hmin : Stage.nSamplesIn s 1 ≤ X.length)
    (heq : Stage.eqDelays s) :
    Stage.inv (rowFn ops ok) s (nx, nu) (Stage.tr (rowFn ops ok) s X) = X := by
  rw [C01_roundtrip_ep ops ok hL s nx nu w' hfit X hX hdom hmin, gain_eq_loss s heq]
  rw [Stage.nSamplesIn_eq] at hmin
  exact lastN_all _ _ (by omega)

/-- **matrix level, any episode layout**: for every label, `inverse_transform(transform(X))` restricted to that
label is the trailing part of that episode of `X` (guard: no episode shorter than `min_samples_`) -/
theorem C01_roundtrip_mat (hL : ops.Lawful ok) (s : S) (nx nu : Nat) (w' : Nat × Nat)
    (hfit : Stage.fit s (nx, nu) = .ok w') (X : M α)
    (hG : Guard (Stage.nSamplesIn s 1) X) (hX : ∀ l, Typed nx nu (episodeOf l X))
    (hdom : ∀ l, Stage.dom (rowFn ops ok) s (episodeOf l X)) (l : Nat) (hl : l ∈ labels X) :
    episodeOf l (Stage.mi (rowFn ops ok) s (nx, nu) (Stage.mt (rowFn ops ok) s X))
      = lastN ((episodeOf l X).length - Stage.loss s + Stage.gain s) (episodeOf l X) := by
  rw [Stage.mi_refines, Stage.mt_refines (rowFn ops ok) s X
    (by rw [Stage.nSamplesIn_eq] at hG; rwa [Nat.add_comm]) l]
  exact C01_roundtrip_ep ops ok hL s nx nu w' hfit _ (hX l) (hdom l) (hG l hl)

/-- **second clause of the property**: for lifting functions that are not pre-processors (no wrapped scikit-learn
transformer, no angle pre-processor anywhere in the tree), the leading `n_states` lifted-state columns of lifted
sample `j` are the original state of sample `j + min_samples_ − 1` — which is what makes retracting a predicted
lifted state meaningful -/
theorem C01_leading_state (hL : ops.Lawful ok) (s : S) (hnp : Stage.noPre s = true) (nx nu : Nat) (X : Ep α)
    (hX : Typed nx nu X) :
    (Stage.tr (rowFn ops ok) s X).map (fun r => r.x.take nx) = (X.drop (Stage.loss s)).map (·.x) :=
  Stage.lead ops ok hL s hnp nx nu X hX

/-- the retracted episode is never shorter than the lifted one, never longer than the original -/
theorem C01_retract_len (s : S) : Stage.gain s ≤ Stage.loss s := Stage.gain_le_loss s

/-- the integer instance used by the driver satisfies the laws of the opaque functions (so every hypothesis of the
theorems above is satisfiable) -/
theorem intOps_lawful : intOps.Lawful (fun _ => True) where
  sk_inv := by intro id j v; rfl
  atan2_sin_cos := by intro v _; rfl

private def sDemo : S := .pipe (.cons (.rw (.poly 2 false)) (.cons (.split (.cons (.delay 2 1) .nil)
    (.cons (.delay 0 1) (.cons (.rw .bilinear) .nil))) .nil))
private def xDemo : Ep Int := [⟨[1, 2], [3]⟩, ⟨[4, 5], [6]⟩, ⟨[7, 8], [9]⟩, ⟨[10, 11], [12]⟩, ⟨[13, 14], [15]⟩]

/-- non-vacuity of `C01_roundtrip_ep` on a concrete nested pipeline with unequal delays: the hypotheses hold and the
conclusion is the expected concrete suffix (loss 2, gain 0: the last three samples come back) -/
example : Stage.fit sDemo (2, 1) = .ok (15, 8) ∧ Typed 2 1 xDemo ∧ Stage.nSamplesIn sDemo 1 ≤ xDemo.length
    ∧ Stage.inv (rowFn intOps) sDemo (2, 1) (Stage.tr (rowFn intOps) sDemo xDemo) = xDemo.drop 2 := by
  refine ⟨by rfl, ?_, by decide, by decide⟩
  intro r hr
  simp only [xDemo, List.mem_cons, List.mem_nil_iff, or_false] at hr
  rcases hr with rfl | rfl | rfl | rfl | rfl <;> exact ⟨rfl, rfl⟩

/-- non-vacuity: the hypotheses are met by a concrete nested pipeline with unequal delays on `Int` data
(the laws of the opaque functions hold for `intOps`-like identities). -/
example : Stage.fit (.pipe (.cons (.rw (.poly 2 false)) (.cons (.split (.cons (.delay 2 1) .nil)
    (.cons (.delay 0 1) .nil)) .nil))) (2, 1) = .ok (15, 8) := by rfl

end Pk.C01
