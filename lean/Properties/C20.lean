import Pk.Config
/-! # C20 — config is per-thread and `config_context` restores the previous setting

Theorems about the config machine (`Pk/Config.lean`) for every nesting of `config_context` /
`set_config`, also when a block is left by an exception, and for every interleaving of any number of
threads.  (The "skipping validation never changes results" clause is a correspondence result, see the
check; it is not a theorem.)  Property theorems only. -/
namespace Pk.C20
open Pk.Config

/-- `config_context` restores the previous setting on exit — for any body, nested to any depth, also
when the body raises (then the exception propagates, with the setting already restored) -/
theorem C20_context_restores (v : Option Bool) (body : Prog) (c : Bool) :
    (run (.ctx v body .skip) c).cur = c := by
  simp only [run]
  split <;> rfl

/-- … and so does every program that only changes the setting through `with` blocks -/
def onlyCtx : Prog → Prop
  | .skip => True
  | .get k => onlyCtx k
  | .set _ _ => False
  | .raise => True
  | .ctx _ _ k => onlyCtx k

theorem C20_nested_restores (p : Prog) (h : onlyCtx p) (c : Bool) : (run p c).cur = c := by
  induction p generalizing c with
  | skip => rfl
  | get k ih => simp only [run]; exact ih h c
  | set v k _ => exact absurd h (by simp [onlyCtx])
  | raise => rfl
  | ctx v body k _ ihk =>
    simp only [run]
    split
    · rfl
    · exact ihk h c

/-- inside the block the requested value is in force; `None` keeps the current one -/
theorem C20_context_sets (v : Option Bool) (k k' : Prog) (c : Bool) :
    (run (.ctx v (.get k) k') c).outs.head? = some (v.getD c) := by
  simp only [run]
  by_cases h : (run k (v.getD c)).raised = true <;> simp [h]

theorem upd_same (σ : St) (t : Nat) (v : Th) : upd σ t v t = v := by simp [upd]
theorem upd_other (σ : St) (t t' : Nat) (v : Th) (h : t' ≠ t) : upd σ t v t' = σ t' := by simp [upd, h]

/-- **thread isolation, for every interleaving**: what thread `t` reads, and the state it ends in, are what
it would read and end in running alone — whatever the other threads do and however the steps interleave -/
theorem C20_thread_isolation (sched : List (Nat × Atom)) (σ : St) (t : Nat) :
    ((runSched sched σ).2.filter (·.1 = t)).map (·.2)
        = (runOne ((sched.filter (·.1 = t)).map (·.2)) (σ t)).2
    ∧ (runSched sched σ).1 t = (runOne ((sched.filter (·.1 = t)).map (·.2)) (σ t)).1 := by
  induction sched generalizing σ with
  | nil => simp [runSched, runOne]
  | cons hd rest ih =>
    obtain ⟨t', a⟩ := hd
    by_cases h : t' = t
    · subst h
      have ih' := ih (upd σ t' (stepTh a (σ t')).1)
      rw [upd_same] at ih'
      have hf : ((t', a) :: rest).filter (·.1 = t') = (t', a) :: rest.filter (·.1 = t') := by simp
      rw [hf]
      simp only [runSched, List.map_cons, runOne]
      cases ho : (stepTh a (σ t')).2 with
      | none => simp only []; exact ih'
      | some b => simp only [List.filter_cons, decide_true, if_true, List.map_cons]; exact ⟨by rw [ih'.1], ih'.2⟩
    · have ih' := ih (upd σ t' (stepTh a (σ t')).1)
      rw [upd_other _ _ _ _ (Ne.symm h)] at ih'
      have hf : ((t', a) :: rest).filter (·.1 = t) = rest.filter (·.1 = t) := by simp [h]
      rw [hf]
      simp only [runSched]
      cases ho : (stepTh a (σ t')).2 with
      | none => simp only []; exact ih'
      | some b =>
        have hfb : ((t', b) :: (runSched rest (upd σ t' (stepTh a (σ t')).1)).2).filter (·.1 = t)
            = (runSched rest (upd σ t' (stepTh a (σ t')).1)).2.filter (·.1 = t) := by simp [h]
        simp only [hfb]; exact ih'

/-- a thread that never called `set_config` / `config_context` reads the module default, whatever the
other threads did -/
theorem C20_fresh_thread_default (sched : List (Nat × Atom)) (t : Nat)
    (h : ∀ p ∈ sched, p.1 = t → p.2 = .get) :
    ∀ b ∈ ((runSched sched (fun _ => {})).2.filter (·.1 = t)).map (·.2), b = false := by
  rw [(C20_thread_isolation sched (fun _ => {}) t).1]
  have : ∀ (l : List Atom) (s : Th), (∀ a ∈ l, a = .get) → ∀ b ∈ (runOne l s).2, b = s.cur := by
    intro l
    induction l with
    | nil => intro s _ b hb; simp [runOne] at hb
    | cons a rest ih =>
      intro s hl b hb
      have ha := hl a (by simp)
      subst ha
      simp only [runOne, stepTh, List.mem_cons] at hb
      rcases hb with rfl | hb
      · rfl
      · exact ih s (fun a' ha' => hl a' (by simp [ha'])) b hb
  intro b hb
  refine this _ _ ?_ b hb
  intro a ha
  simp only [List.mem_map, List.mem_filter, decide_eq_true_eq] at ha
  obtain ⟨p, ⟨hp, hpt⟩, rfl⟩ := ha
  exact h p hp hpt

theorem runOne_append (l1 l2 : List Atom) (s : Th) :
    runOne (l1 ++ l2) s = ((runOne l2 (runOne l1 s).1).1, (runOne l1 s).2 ++ (runOne l2 (runOne l1 s).1).2) := by
  induction l1 generalizing s with
  | nil => simp [runOne]
  | cons a rest ih =>
    simp only [List.cons_append, runOne, ih]
    cases (stepTh a s).2 <;> simp

/-- the structured semantics and the atom semantics agree for programs that do not raise: what `compile`
feeds to the scheduler is the program -/
theorem C20_compile_sound (p : Prog) (s : Th) (hnr : (run p s.cur).raised = false) :
    (runOne (compile p) s).2 = (run p s.cur).outs
    ∧ (runOne (compile p) s).1 = ⟨(run p s.cur).cur, s.stack⟩ := by
  induction p generalizing s with
  | skip => simp [compile, runOne, run]
  | get k ih =>
    simp only [run] at hnr
    have := ih s hnr
    simp [compile, runOne, stepTh, run, this.1, this.2]
  | set v k ih =>
    simp only [run] at hnr
    have := ih ⟨v.getD s.cur, s.stack⟩ hnr
    simp [compile, runOne, stepTh, run, this.1, this.2]
  | raise => simp [run] at hnr
  | ctx v body k ihb ihk =>
    simp only [run] at hnr ⊢
    by_cases hb : (run body (v.getD s.cur)).raised = true
    · simp [hb] at hnr
    · have hb' : (run body (v.getD s.cur)).raised = false := by simpa using hb
      simp only [hb, if_false] at hnr ⊢
      have h1 := ihb ⟨v.getD s.cur, s.cur :: s.stack⟩ hb'
      have h2 := ihk ⟨s.cur, s.stack⟩ hnr
      simp only [compile, runOne, stepTh]
      rw [runOne_append]
      simp only [runOne, stepTh, h1.1, h1.2, h2.1, h2.2]
      exact ⟨rfl, rfl⟩

end Pk.C20
