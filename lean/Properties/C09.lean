import PkLA.SpectralRadius
import PkLA.Lmi
import Pk.FitLoop
import Mathlib.LinearAlgebra.Matrix.NonsingularInverse
/-! # C09 — Spectral-radius-constrained fits respect the requested bound

(i) the mathematics of the LMI over `Matrix _ _ ℝ`: the constraint of sub-problem A/B forces every complex
eigenvalue of `A` below `ρ`; (ii) the alternating loop as a state machine: whatever it returns is `0` or the
`U` of an `'optimal'` sub-problem-A answer.  Together with the trusted-base assumption "an `'optimal'` answer
satisfies its constraints up to solver tolerance" this is the property for every data set and iteration budget.
Property theorems only. -/
namespace Pk.C09
open Matrix PkLA Pk.FitLoop

variable {n : Type} [Fintype n] [DecidableEq n]

/-- one step contracts the Lyapunov function by `ρ²` -/
theorem C09_contract (ρ : ℝ) (hρ : 0 < ρ) (P A : Matrix n n ℝ) (h : (specLMI ρ P A).PosDef)
    (x : n → ℝ) (hx : x ≠ 0) : V P (A *ᵥ x) < ρ^2 * V P x :=
  lyap_step ρ hρ P A h x hx

/-- hence along trajectories `V(Aᵏx) ≤ ρ^{2k} V(x)` -/
theorem C09_powers (ρ : ℝ) (hρ : 0 < ρ) (P A : Matrix n n ℝ) (h : (specLMI ρ P A).PosDef)
    (x : n → ℝ) (k : ℕ) : V P ((A ^ k) *ᵥ x) ≤ ρ^(2*k) * V P x := by
  induction k with
  | zero => simp
  | succ j ih =>
    have hstep := lyap_step_le ρ hρ P A h ((A ^ j) *ᵥ x)
    have e : (A ^ (j+1)) *ᵥ x = A *ᵥ ((A ^ j) *ᵥ x) := by
      rw [pow_succ', mulVec_mulVec]
    rw [e]
    have hρ2 : 0 ≤ ρ^2 := by positivity
    calc V P (A *ᵥ ((A ^ j) *ᵥ x)) ≤ ρ^2 * V P ((A ^ j) *ᵥ x) := hstep
      _ ≤ ρ^2 * (ρ^(2*j) * V P x) := mul_le_mul_of_nonneg_left ih hρ2
      _ = ρ^(2*(j+1)) * V P x := by ring

/-- **every eigenvalue of the state-transition block, real or complex, has magnitude below the requested
spectral radius** -/
theorem C09_eigen (ρ : ℝ) (hρ : 0 < ρ) (P A : Matrix n n ℝ) (h : (specLMI ρ P A).PosDef)
    (μ : ℂ) (v : n → ℂ) (hv : v ≠ 0) (hev : (A.map Complex.ofReal) *ᵥ v = μ • v) : ‖μ‖ < ρ :=
  eigen_complex ρ hρ P A h μ v hv hev

/-- DMDc variant: `A = Q̂ Â Q̂ᵀ` with `Q̂ᵀQ̂ = 1`; every non-zero eigenvalue of `A` is an eigenvalue of `Â`,
so the bound proved for `Â` transfers (the zero eigenvalue satisfies any positive bound) -/
theorem C09_dmdc {r : Type} [Fintype r] [DecidableEq r] (Q : Matrix n r ℂ) (Ah : Matrix r r ℂ)
    (hQ : Qᴴ * Q = 1) (μ : ℂ) (hμ : μ ≠ 0) (v : n → ℂ) (hv : v ≠ 0)
    (hev : (Q * Ah * Qᴴ) *ᵥ v = μ • v) :
    ∃ w : r → ℂ, w ≠ 0 ∧ Ah *ᵥ w = μ • w := by
  refine ⟨Qᴴ *ᵥ v, ?_, ?_⟩
  · intro h0
    have : μ • v = 0 := by
      rw [← hev, ← mulVec_mulVec, h0, mulVec_zero]
    rcases smul_eq_zero.mp this with h1 | h1
    · exact hμ h1
    · exact hv h1
  · have := congrArg (fun z => Qᴴ *ᵥ z) hev
    simp only [mulVec_smul] at this
    rw [← this, mulVec_mulVec, mulVec_mulVec]
    congr 1
    simp only [← Matrix.mul_assoc, hQ, Matrix.one_mul]

/-- the loop invariant: whatever the alternating loop returns is the initial `U` (zero) or the `U` reported
by an `'optimal'` answer to some sub-problem A — never anything else, for every solver behaviour, stop
request timing and iteration budget -/
theorem C09_loop_inv {U P : Type} (e : Env U P) (fuel k : Nat) (u : U) (p : P) (log : List Rat)
    (Good : U → Prop) (hu : Good u)
    (hA : ∀ p k, (e.solveA p k).optimal = true → Good (e.solveA p k).u) :
    Good (loop e fuel k u p log).u := by
  induction fuel generalizing k u p log with
  | zero => simpa [loop] using hu
  | succ f ih =>
    simp only [loop]
    by_cases h1 : e.stopA k = true
    · simpa [h1] using hu
    · by_cases h2 : (e.solveA p k).optimal = true
      · have hg : Good (e.solveA p k).u := hA p k h2
        by_cases h3 : closeHit e log (e.solveA p k).obj = true
        · simpa [h1, h2, h3] using hg
        · by_cases h4 : e.stopB k = true
          · simpa [h1, h2, h3, h4] using hg
          · by_cases h5 : (e.solveB (e.solveA p k).u k).optimal = true
            · simpa [h1, h2, h3, h4, h5] using ih _ _ _ _ hg
            · simpa [h1, h2, h3, h4, h5] using hg
      · simpa [h1, h2] using hu

/-- iteration count and log length are consistent with what was solved: `n_iter_ ≤ max_iter` and the
objective log has at most one entry per iteration -/
theorem C09_loop_counts {U P : Type} (e : Env U P) (fuel k : Nat) (u : U) (p : P) (log : List Rat) :
    (loop e fuel k u p log).nIter ≤ k + fuel ∧ k ≤ (loop e fuel k u p log).nIter
    ∧ (loop e fuel k u p log).log.length ≤ log.length + fuel := by
  induction fuel generalizing k u p log with
  | zero => simp [loop]
  | succ f ih =>
    simp only [loop]
    by_cases h1 : e.stopA k = true
    · simp [h1]
    · by_cases h2 : (e.solveA p k).optimal = true
      · by_cases h3 : closeHit e log (e.solveA p k).obj = true
        · simp [h1, h2, h3]
        · by_cases h4 : e.stopB k = true
          · simp [h1, h2, h3, h4]
          · by_cases h5 : (e.solveB (e.solveA p k).u k).optimal = true
            · have := ih (k+1) (e.solveA p k).u (e.solveB (e.solveA p k).u k).p (log ++ [(e.solveA p k).obj])
              simp only [List.length_append, List.length_cons, List.length_nil] at this
              simp only [h1, h2, h3, h4, h5, Bool.false_eq_true, if_false, Bool.not_true]
              omega
            · simp [h1, h2, h3, h4, h5]
      · simp [h1, h2]

/-- monotone objective: the previous `U` stays feasible for the next sub-problem A (its constraint with the new
`P` is exactly what sub-problem B just certified), so an exact minimiser cannot do worse -/
theorem C09_monotone {X : Type} (feasible : X → Prop) (f : X → ℝ) (xstar xprev : X)
    (hmin : ∀ x, feasible x → f xstar ≤ f x) (hprev : feasible xprev) : f xstar ≤ f xprev :=
  hmin xprev hprev

/-- what an exact solver guarantees: an `'optimal'` answer of sub-problem A is a minimiser of `f` over the feasible set
`feasA p` of that sub-problem and reports its objective; an `'optimal'` answer of sub-problem B for `u` is a `p` that keeps
`u` feasible for the next sub-problem A (the two sub-problems share one LMI) -/
structure ExactSolver {U P : Type} (e : Env U P) (f : U → Rat) (feasA : P → U → Prop) : Prop where
  a_opt : ∀ p k, (e.solveA p k).optimal = true →
    (e.solveA p k).obj = f (e.solveA p k).u ∧ feasA p (e.solveA p k).u ∧ ∀ u, feasA p u → f (e.solveA p k).u ≤ f u
  b_opt : ∀ u k, (e.solveB u k).optimal = true → feasA (e.solveB u k).p u

theorem loop_log_monotone {U P : Type} (e : Env U P) (f : U → Rat) (feasA : P → U → Prop)
    (hs : ExactSolver e f feasA) (fuel k : Nat) (u : U) (p : P) (log : List Rat)
    (hpw : log.Pairwise (· ≥ ·)) (hlow : ∀ x ∈ log, f u ≤ x) (hfeas : log ≠ [] → feasA p u) :
    (loop e fuel k u p log).log.Pairwise (· ≥ ·) := by
  induction fuel generalizing k u p log with
  | zero => simpa [loop] using hpw
  | succ fuel ih =>
    unfold loop
    by_cases h1 : e.stopA k = true
    · simpa [h1] using hpw
    · simp only [h1, Bool.false_eq_true, if_false]
      by_cases h2 : (e.solveA p k).optimal = true
      · obtain ⟨hobj, hfa, hmin⟩ := hs.a_opt p k h2
        -- the new objective is below everything logged so far
        have hnew : ∀ x ∈ log, (e.solveA p k).obj ≤ x := by
          intro x hx
          have hne : log ≠ [] := List.ne_nil_of_mem hx
          have := hmin u (hfeas hne)
          rw [hobj]
          exact le_trans this (hlow x hx)
        have hpw' : (log ++ [(e.solveA p k).obj]).Pairwise (· ≥ ·) := by
          rw [List.pairwise_append]
          refine ⟨hpw, List.pairwise_singleton _ _, ?_⟩
          intro a ha b hb
          simp only [List.mem_singleton] at hb
          subst hb
          exact hnew a ha
        simp only [h2, Bool.not_true, Bool.false_eq_true, if_false]
        by_cases h3 : closeHit e log (e.solveA p k).obj = true
        · simpa [h3] using hpw'
        · simp only [h3, Bool.false_eq_true, if_false]
          by_cases h4 : e.stopB k = true
          · simpa [h4] using hpw'
          · simp only [h4, Bool.false_eq_true, if_false]
            by_cases h5 : (e.solveB (e.solveA p k).u k).optimal = true
            · simp only [h5, Bool.not_true, Bool.false_eq_true, if_false]
              apply ih
              · exact hpw'
              · intro x hx
                simp only [List.mem_append, List.mem_singleton] at hx
                rcases hx with hx | rfl
                · rw [← hobj]; exact hnew x hx
                · rw [hobj]
              · intro _
                exact hs.b_opt _ k h5
            · simpa [h5] using hpw'
      · simpa [h2] using hpw

/-- **the logged objective never increases** (every iteration budget, every sequence of stop requests and solver
failures), given an exact solver -/
theorem C09_log_monotone {U P : Type} (e : Env U P) (f : U → Rat) (feasA : P → U → Prop)
    (hs : ExactSolver e f feasA) (maxIter : Nat) (u0 : U) (p0 : P) :
    (fit e maxIter u0 p0).log.Pairwise (· ≥ ·) := by
  unfold fit
  exact loop_log_monotone e f feasA hs maxIter 0 u0 p0 [] List.Pairwise.nil (by simp) (by simp)

end Pk.C09
