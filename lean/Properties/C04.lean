import Pk.FitLaws
import Pk.MatFlow
/-! # C04 — Declared dimensions and sample counts match the arrays produced

Theorems about the executable model (`Stage.fit`, `Stage.tr`, `Stage.mt`, `Stage.nSamplesIn`,
`Stage.attrs`) for every tree of lifting functions, every input width and every episode.
Property theorems only; helper lemmas live in `Pk/`. -/
namespace Pk.C04
open Pk
variable {α : Type} (ops : Ops α) (ok : α → Prop)

/-- transform output width equals the declared `(n_states_out_, n_inputs_out_)`: every row of the lifted
episode has exactly the widths `fit` returned. -/
theorem C04_width (hL : ops.Lawful ok) (s : S) (nx nu : Nat) (w' : Nat × Nat)
    (hfit : Stage.fit s (nx, nu) = .ok w') (X : Ep α) (hX : Typed nx nu X) :
    Typed w'.1 w'.2 (Stage.tr (rowFn ops ok) s X) := by
  have h := (Stage.fit_ok ops ok s (nx, nu) w' hfit).1
  rw [h]
  exact Stage.typed_tr (rowFn ops ok) (rowFn_laws ops ok hL) s nx nu X hX

/-- an episode of length `n ≥ min_samples_` yields `n - min_samples_ + 1` lifted samples
(`min_samples_ = n_samples_in(1)`) -/
theorem C04_rows (s : S) (X : Ep α) (hmin : Stage.nSamplesIn s 1 ≤ X.length) :
    (Stage.tr (rowFn ops ok) s X).length = X.length - Stage.nSamplesIn s 1 + 1 := by
  rw [Stage.length_tr, Stage.nSamplesIn_eq] at *; omega

/-- shorter episodes yield no lifted sample at all -/
theorem C04_rows_short (s : S) (X : Ep α) (hmin : X.length < Stage.nSamplesIn s 1) :
    (Stage.tr (rowFn ops ok) s X).length = 0 := by
  rw [Stage.length_tr]; rw [Stage.nSamplesIn_eq] at hmin; omega

/-- `min_samples_ = n_samples_in(1)` for every stage kind (`minSamples` is what each `fit` stores) -/
theorem C04_min (s : S) : Stage.minSamples s = Stage.nSamplesIn s 1 := by
  cases s <;> simp [Stage.minSamples, Stage.nSamplesIn]; omega

/-- `n_samples_in` is additive over the stages of a chain … -/
theorem C04_additive (s : S) (rest : Ss) (k : Nat) :
    Stages.nSamplesIn (.cons s rest) k = Stage.nSamplesIn s (Stages.nSamplesIn rest k) := by
  simp [Stages.nSamplesIn]

/-- … in closed form: every stage adds its own sample loss, independently of `k` -/
theorem C04_additive_closed (s : S) (rest : Ss) (k : Nat) :
    Stages.nSamplesIn (.cons s rest) k = k + Stage.loss s + Stages.loss rest := by
  rw [Stages.nSamplesIn_eq]; simp [Stages.loss]; omega

/-- a split needs the larger of what its two branches need -/
theorem C04_split_min (a b : Ss) (k : Nat) :
    Stage.nSamplesIn (.split a b) k = max (Stages.nSamplesIn a k) (Stages.nSamplesIn b k) := by
  simp [Stage.nSamplesIn]

/-- each stage's input dimensions are the previous stage's output dimensions, and a chain reports its
last stage's output dimensions -/
theorem C04_chain (s : S) (rest : Ss) (w w' : Nat × Nat) :
    Stages.fitChain (.cons s rest) w = .ok w' ↔
      ∃ w1, Stage.fit s w = .ok w1 ∧ Stages.fitChain rest w1 = .ok w' := by
  simp only [Stages.fitChain]
  constructor
  · intro h
    split at h
    · cases h
    · rename_i w1 h1; exact ⟨w1, h1, h⟩
  · rintro ⟨w1, h1, h2⟩
    rw [h1]; exact h2

/-- the attribute record the model reports for the top estimator is (input widths, `fit`'s output widths,
`n_samples_in(1)`) -/
theorem C04_attrs_head (s : S) (nx nu : Nat) (w' : Nat × Nat) (hfit : Stage.fit s (nx, nu) = .ok w') :
    (Stage.attrs s (nx, nu)).head? = some ⟨nx, nu, w'.1, w'.2, Stage.nSamplesIn s 1⟩ := by
  have h := (Stage.fit_ok unitOps (fun _ => True) s (nx, nu) w' hfit).1
  cases s with
  | rw k => simp [Stage.attrs, h, Stage.outW, rowFn_wx, rowFn_wu, Stage.nSamplesIn]
  | delay dx du => simp [Stage.attrs, h, Stage.outW, Stage.nSamplesIn]; omega
  | split a b => simp [Stage.attrs, h, Stage.outW]
  | pipe ss => simp [Stage.attrs, h, Stage.outW, Stage.nSamplesIn]

/-- matrix level, any episode layout: every episode of the lifted matrix has
`n - min_samples_ + 1` rows, in the widths `fit` declared -/
theorem C04_matrix (hL : ops.Lawful ok) (s : S) (nx nu : Nat) (w' : Nat × Nat)
    (hfit : Stage.fit s (nx, nu) = .ok w') (X : M α)
    (hG : Guard (Stage.loss s + 1) X) (hX : ∀ l, Typed nx nu (episodeOf l X)) (l : Nat) :
    (episodeOf l (Stage.mt (rowFn ops ok) s X)).length = (episodeOf l X).length - Stage.loss s
    ∧ Typed w'.1 w'.2 (episodeOf l (Stage.mt (rowFn ops ok) s X)) := by
  rw [Stage.mt_refines (rowFn ops ok) s X hG l]
  exact ⟨Stage.length_tr _ s _, C04_width ops ok hL s nx nu w' hfit _ (hX l)⟩

/-- non-vacuity: a concrete nested pipeline fits, and the numbers are the expected ones -/
example : Stage.fit (.pipe (.cons (.rw (.poly 2 false)) (.cons (.split (.cons (.delay 2 1) .nil)
    (.cons (.delay 0 1) (.cons (.rw .bilinear) .nil))) .nil))) (2, 1) = .ok (15, 8) := by rfl

end Pk.C04
