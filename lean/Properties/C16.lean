import Pk.Lift
import Pk.FitLaws
import Pk.XLocInv
import Pk.ULocInv
import Pk.PredictLaws
import Properties.C01
/-! # C16 — lift/retract helpers agree with transform for every episode flag

The model (`Pk/Lift.lean`) is the six helpers exactly as the code slices and pads raw matrices whose first
column is the label iff the call has an episode feature.  The theorems relate every flag combination to
`transform` / `inverse_transform` on the correspondingly padded, stripped or per-episode data.
Property theorems only. -/
namespace Pk.C16
open Pk
variable {α : Type} {κ : Type} (cs : Cells α) (env : κ → RowFn α) (F : Fitted κ)

/-- passing `None` behaves identically to passing the fit-time value, for all six helpers -/
theorem C16_none_is_fit_value (X : Raw α) :
    liftRaw cs env F none X = liftRaw cs env F (some F.fitEp) X
    ∧ retractRaw cs env F none X = retractRaw cs env F (some F.fitEp) X
    ∧ liftState cs env F none X = liftState cs env F (some F.fitEp) X
    ∧ retractState cs env F none X = retractState cs env F (some F.fitEp) X
    ∧ liftInput cs env F none X = liftInput cs env F (some F.fitEp) X
    ∧ retractInput cs env F none X = retractInput cs env F (some F.fitEp) X := by
  refine ⟨?_, ?_, rfl, rfl, rfl, rfl⟩ <;> simp [liftRaw, retractRaw, viaFlagRaw]

/-- same flag as at fit time: `lift` is `transform`, `retract` is `inverse_transform` -/
theorem C16_lift_same_flag (X : Raw α) :
    liftRaw cs env F (some F.fitEp) X = transformRaw cs env F X
    ∧ retractRaw cs env F (some F.fitEp) X = inverseRaw cs env F X := by
  simp [liftRaw, retractRaw, viaFlagRaw]

/-- fitted with an episode feature, called without: transform of the zero-label-padded data, label
column stripped -/
theorem C16_lift_padded (h : F.fitEp = true) (X : Raw α) :
    liftRaw cs env F (some false) X = (transformRaw cs env F (X.map (cs.zero :: ·))).map List.tail
    ∧ retractRaw cs env F (some false) X = (inverseRaw cs env F (X.map (cs.zero :: ·))).map List.tail := by
  simp [liftRaw, retractRaw, viaFlagRaw, h]

theorem splitRaw_combineRaw (hlab : ∀ n, cs.lab (cs.ofLab n) = n) (Z : FlatMat α) :
    splitRaw cs true (combineRaw cs true Z) = Z := by
  unfold splitRaw combineRaw
  rw [List.map_map]
  conv => rhs; rw [← List.map_id Z]
  apply List.map_congr_left
  intro p _
  simp [hlab]

/-- fitted without an episode feature, called with one: every episode of the result is the transform of
that episode alone (`core` is `transform` or `inverse_transform`; both map the empty matrix to itself) -/
theorem C16_lift_per_episode (h : F.fitEp = false) (hlab : ∀ n, cs.lab (cs.ofLab n) = n)
    (core : Raw α → Raw α) (hcore : core [] = []) (X : Raw α) (l : Nat) :
    episodeOf l (splitRaw cs true (viaFlagRaw cs F core (some true) X))
      = core (episodeOf l (splitRaw cs true X)) := by
  simp only [viaFlagRaw, h, Bool.true_eq_false, if_false, Bool.false_eq_true]
  rw [splitRaw_combineRaw cs hlab]
  exact episodeOf_route l core hcore (splitRaw cs true X)

/-- `lift_state` is the leading `n_states_out_` (+ episode) columns of `lift` on the zero-padded input -/
theorem C16_lift_state_block (call : Option Bool) (X : Raw α) :
    liftState cs env F call X
      = (liftRaw cs env F (some (call.getD F.fitEp)) (X.map (· ++ List.replicate F.w.2 cs.zero))).map
          (List.take ((Stage.outW env F.s F.w).1 + epCols (call.getD F.fitEp))) := rfl

/-- `lift_input` is the episode column (iff the call has one) followed by the trailing
`n_inputs_out_` columns of `lift` -/
theorem C16_lift_input_block (call : Option Bool) (X : Raw α) :
    liftInput cs env F call X
      = (liftRaw cs env F (some (call.getD F.fitEp)) X).map fun r =>
          r.take (epCols (call.getD F.fitEp))
            ++ r.drop ((Stage.outW env F.s F.w).1 + epCols (call.getD F.fitEp)) := by
  unfold liftInput
  cases call.getD F.fitEp <;> simp [epCols]

/-- `retract_state` is the leading `n_states_in_` (+ episode) columns of `retract` on the zero-padded
lifted state -/
theorem C16_retract_state_block (call : Option Bool) (Y : Raw α) :
    retractState cs env F call Y
      = (retractRaw cs env F (some (call.getD F.fitEp))
          (Y.map (· ++ List.replicate (Stage.outW env F.s F.w).2 cs.zero))).map
          (List.take (F.w.1 + epCols (call.getD F.fitEp))) := rfl

/-- `retract_input` pads `n_states_out_` zero lifted states after the episode column, retracts, and keeps
the episode column followed by the trailing `n_inputs_in_` columns -/
theorem C16_retract_input_block (call : Option Bool) (Y : Raw α) :
    retractInput cs env F call Y
      = (retractRaw cs env F (some (call.getD F.fitEp))
          (Y.map fun r => r.take (epCols (call.getD F.fitEp))
              ++ List.replicate (Stage.outW env F.s F.w).1 cs.zero
              ++ r.drop (epCols (call.getD F.fitEp)))).map fun r =>
          r.take (epCols (call.getD F.fitEp)) ++ r.drop (F.w.1 + epCols (call.getD F.fitEp)) := by
  unfold retractInput
  cases call.getD F.fitEp <;> simp [epCols]

section inverse
variable {β : Type} [Add β] [Mul β] [OfNat β 0] (ops : Ops β) (okp : β → Prop) (p : Pipe β Kind)

/-- **`retract_state` inverts `lift_state` on the trailing samples** (episode level): retracting the lifted state of
an episode of states returns the trailing `n − loss + gain` states.  Uses the round trip (C01) on the zero-input
padding and the state-block locality of the inverse. -/
theorem C16_retract_state_inv (hL : ops.Lawful okp) (w' : Nat × Nat) (hfit : Stage.fit p.s p.w = .ok w')
    (X : List (List β)) (hX : ∀ x ∈ X, x.length = p.w.1)
    (hdom : Stage.dom (rowFn ops okp) p.s (X.map fun x => ⟨x, zeros p.w.2⟩))
    (hmin : Stage.nSamplesIn p.s 1 ≤ X.length) :
    retractStateEp (rowFn ops okp) p (liftStateEp (rowFn ops okp) p X)
      = lastN (X.length - Stage.loss p.s + Stage.gain p.s) X := by
  obtain ⟨X0, hX0⟩ : ∃ X0 : Ep β, X0 = X.map fun x => ⟨x, zeros p.w.2⟩ := ⟨_, rfl⟩
  have hT : Typed p.w.1 p.w.2 X0 := by
    intro r hr
    simp only [hX0, List.mem_map] at hr
    obtain ⟨x, hx, rfl⟩ := hr
    exact ⟨hX x hx, by simp [zeros]⟩
  have hlen0 : X0.length = X.length := by simp [hX0]
  have hx0 : X0.map (·.x) = X := by simp [hX0, List.map_map, Function.comp_def]
  unfold retractStateEp liftStateEp
  rw [← hX0] at hdom ⊢
  have hx : (((Stage.tr (rowFn ops okp) p.s X0).map (·.x)).map
        (fun t => (⟨t, zeros (p.wOut (rowFn ops okp)).2⟩ : Row β))).map (·.x)
      = (Stage.tr (rowFn ops okp) p.s X0).map (·.x) := by
    simp [List.map_map, Function.comp_def]
  rw [Stage.inv_x_local (rowFn ops okp) (rowFn_xlocInv ops okp) p.s p.w _ (Stage.tr (rowFn ops okp) p.s X0) hx]
  have hrt := Pk.C01.C01_roundtrip_ep ops okp hL p.s p.w.1 p.w.2 w' hfit X0 hT hdom (by rw [hlen0]; exact hmin)
  rw [hrt, ← lastN_map, hlen0, hx0]
/-- **`retract_input` inverts `lift_input` on the trailing samples** (episode level) -/
theorem C16_retract_input_inv (hL : ops.Lawful okp) (w' : Nat × Nat) (hfit : Stage.fit p.s p.w = .ok w')
    (X0 : Ep β) (hT : Typed p.w.1 p.w.2 X0) (hdom : Stage.dom (rowFn ops okp) p.s X0)
    (hmin : Stage.nSamplesIn p.s 1 ≤ X0.length) :
    retractInputEp (rowFn ops okp) p ((Stage.tr (rowFn ops okp) p.s X0).map (·.u))
      = lastN (X0.length - Stage.loss p.s + Stage.gain p.s) (X0.map (·.u)) := by
  unfold retractInputEp
  have hu : (((Stage.tr (rowFn ops okp) p.s X0).map (·.u)).map
        (fun u => (⟨zeros (p.wOut (rowFn ops okp)).1, u⟩ : Row β))).map (·.u)
      = (Stage.tr (rowFn ops okp) p.s X0).map (·.u) := by
    simp [List.map_map, Function.comp_def]
  rw [Stage.inv_u_local (rowFn ops okp) (rowFn_ulocInv ops okp) p.s p.w _ (Stage.tr (rowFn ops okp) p.s X0) hu]
  have hrt := Pk.C01.C01_roundtrip_ep ops okp hL p.s p.w.1 p.w.2 w' hfit X0 hT hdom hmin
  rw [hrt, ← lastN_map]
end inverse

end Pk.C16
