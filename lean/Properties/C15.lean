import Pk.Estimator
/-! # C15 — Fit depends only on parameters and data, never on history

Theorems about the estimator history machine (`Pk/Estimator.lean`).  They are simple by design: the
machine states *which* histories must be indistinguishable; the check executes real histories on every
estimator class of the package and verifies that the implementation respects the machine's equalities.
Property theorems only. -/
namespace Pk.C15
open Pk.Est
variable {D F R : Type} (Fit : Params → D → Bool → F) (Read : F → D → R)

theorem run_append (w : World F) (h1 h2 : List (Op D)) :
    run Fit Read w (h1 ++ h2) = run Fit Read (run Fit Read w h1) h2 := by
  induction h1 generalizing w with
  | nil => rfl
  | cons op rest ih => simp [run, ih]

theorem run_params (w : World F) (h : List (Op D)) :
    (run Fit Read w h).params = paramsAfter w.params h := by
  induction h generalizing w with
  | nil => rfl
  | cons op rest ih => cases op <;> simp [run, step, paramsAfter, ih]

theorem run_flag (w : World F) (h : List (Op D)) (hs : hasStop h = false) :
    (run Fit Read w h).stopFlag = w.stopFlag := by
  induction h generalizing w with
  | nil => rfl
  | cons op rest ih =>
    cases op <;> simp_all [run, step, hasStop]

/-- history independence: after ANY history without a stop request, a `fit` leaves exactly the fitted state
of a fresh estimator with the current parameters fitted on the same data -/
theorem C15_history_independent_partial (w : World F) (h : List (Op D)) (d : D) (hs : hasStop h = false) :
    (run Fit Read w (h ++ [.fit d])).fitted = some (Fit (paramsAfter w.params h) d w.stopFlag) := by
  rw [run_append]
  simp [run, step, run_params, run_flag Fit Read w h hs]

/-- no call but `set_params` changes the constructor parameters -/
theorem C15_params_untouched (w : World F) (op : Op D) (h : ∀ k v, op ≠ .setParam k v) :
    (step Fit Read w op).1.params = w.params := by
  cases op <;> simp_all [step]

/-- read-only calls are pure: they change nothing … -/
theorem C15_readonly_pure (w : World F) (x : D) : (step Fit Read w (.read x)).1 = w := rfl

/-- … so any number of them, issued by any number of threads in any interleaving, return the sequential
answers (the schedule is just a list of reads) -/
theorem C15_concurrent_reads (w : World F) (xs : List D) :
    run Fit Read w (xs.map .read) = w
    ∧ ∀ (pre : List D) (x : D), (step Fit Read (run Fit Read w (pre.map .read)) (.read x)).2
        = w.fitted.map fun f => Read f x := by
  have hrun : ∀ (ys : List D), run Fit Read w (ys.map .read) = w := by
    intro ys
    induction ys with
    | nil => rfl
    | cons y t ih => simpa [run, step] using ih
  refine ⟨hrun xs, ?_⟩
  intro pre x
  rw [hrun]
  rfl

theorem getParam_setParam_same (k : String) (v : Int) (p : Params) (h : (getParam k p).isSome) :
    getParam k (setParam k v p) = some v := by
  induction p with
  | nil => simp [getParam] at h
  | cons kv rest ih =>
    obtain ⟨k', v'⟩ := kv
    by_cases hk : k' = k
    · simp [setParam, getParam, hk]
    · have : (getParam k rest).isSome := by simpa [getParam, hk] using h
      simpa [setParam, getParam, hk] using ih this

theorem getParam_setParam_other (k k2 : String) (v : Int) (p : Params) (hne : k2 ≠ k) :
    getParam k2 (setParam k v p) = getParam k2 p := by
  induction p with
  | nil => rfl
  | cons kv rest ih =>
    obtain ⟨k', v'⟩ := kv
    by_cases hk : k' = k
    · subst hk
      have : ¬ k' = k2 := fun h => hne h.symm
      simp [setParam, getParam, this]
    · by_cases hk2 : k' = k2
      · subst hk2
        simp [setParam, getParam, hk]
      · simpa [setParam, getParam, hk, hk2] using ih

/-- `set_params(name__k = v)` then `get_params` gives `v` for that (possibly nested) name and leaves every
other key unchanged -/
theorem C15_params_roundtrip (k k2 : String) (v : Int) (p : Params) (h : (getParam k p).isSome) (hne : k2 ≠ k) :
    getParam k (setParam k v p) = some v ∧ getParam k2 (setParam k v p) = getParam k2 p :=
  ⟨getParam_setParam_same k v p h, getParam_setParam_other k k2 v p hne⟩

/-- setting a parameter to the value it already has is the identity (`set_params(**get_params())`) -/
theorem C15_set_get_id (k : String) (v : Int) (p : Params) (h : getParam k p = some v)
    (huniq : ∀ a ∈ p, ∀ b ∈ p, a.1 = b.1 → a = b) : setParam k v p = p := by
  induction p with
  | nil => rfl
  | cons kv rest ih =>
    obtain ⟨k', v'⟩ := kv
    by_cases hk : k' = k
    · subst hk
      have : v' = v := by simpa [getParam] using h
      simp [setParam, this]
    · have h' : getParam k rest = some v := by simpa [getParam, hk] using h
      simp only [setParam, hk, if_false]
      rw [ih h' (fun a ha b hb => huniq a (by simp [ha]) b (by simp [hb]))]

/-- **finding F-stop, as a theorem about the machine**: the stop flag is never reset, so there is a history
with one stop request after which a fit differs from a fresh fit whenever `Fit` reads the flag at all -/
theorem C15_stop_sticky_witness (w : World F) (d : D) (hw : w.stopFlag = false)
    (hFit : Fit w.params d true ≠ Fit w.params d false) :
    (run Fit Read w [.stop, .fit d]).fitted ≠ (run Fit Read w [.fit d]).fitted := by
  simp [run, step, hw, hFit]

end Pk.C15
