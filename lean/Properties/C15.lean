import Pk.Estimator
import Pk.Estimators
/-! # C15 — Fit depends only on parameters and data, never on history

Theorems about the estimator history machine (`Pk/Estimator.lean`).  They are simple by design: the
machine states *which* histories must be indistinguishable; the check executes real histories on every
estimator class of the package and verifies that the implementation respects the machine's equalities.
Property theorems only. -/
namespace Pk.C15
open Pk.Est
variable {D F R : Type} (Fit : Params → D → Bool → F) (Read : F → D → R)

theorem run_append (w : World F) (h1 h2 : List (Op D)) :
    run Fit Read w (h1 ++ h2) = run Fit Read (run Fit Read w h1) h2 := by
  induction h1 generalizing w with
  | nil => rfl
  | cons op rest ih => simp [run, ih]

theorem run_params (w : World F) (h : List (Op D)) :
    (run Fit Read w h).params = paramsAfter w.params h := by
  induction h generalizing w with
  | nil => rfl
  | cons op rest ih => cases op <;> simp [run, step, paramsAfter, ih]

theorem run_flag (w : World F) (h : List (Op D)) (hs : hasStop h = false) :
    (run Fit Read w h).stopFlag = w.stopFlag := by
  induction h generalizing w with
  | nil => rfl
  | cons op rest ih =>
    cases op <;> simp_all [run, step, hasStop]

/-- history independence: after ANY history without a stop request, a `fit` leaves exactly the fitted state
of a fresh estimator with the current parameters fitted on the same data -/
theorem C15_history_independent_partial (w : World F) (h : List (Op D)) (d : D) (hs : hasStop h = false) :
    (run Fit Read w (h ++ [.fit d])).fitted = some (Fit (paramsAfter w.params h) d w.stopFlag) := by
  rw [run_append]
  simp [run, step, run_params, run_flag Fit Read w h hs]

/-- no call but `set_params` changes the constructor parameters -/
theorem C15_params_untouched (w : World F) (op : Op D) (h : ∀ k v, op ≠ .setParam k v) :
    (step Fit Read w op).1.params = w.params := by
  cases op <;> simp_all [step]

/-- read-only calls are pure: they change nothing … -/
theorem C15_readonly_pure (w : World F) (x : D) : (step Fit Read w (.read x)).1 = w := rfl

/-- … so any number of them, issued by any number of threads in any interleaving, return the sequential
answers (the schedule is just a list of reads) -/
theorem C15_concurrent_reads (w : World F) (xs : List D) :
    run Fit Read w (xs.map .read) = w
    ∧ ∀ (pre : List D) (x : D), (step Fit Read (run Fit Read w (pre.map .read)) (.read x)).2
        = w.fitted.map fun f => Read f x := by
  have hrun : ∀ (ys : List D), run Fit Read w (ys.map .read) = w := by
    intro ys
    induction ys with
    | nil => rfl
    | cons y t ih => simpa [run, step] using ih
  refine ⟨hrun xs, ?_⟩
  intro pre x
  rw [hrun]
  rfl

theorem getParam_setParam_same (k : String) (v : Int) (p : Params) (h : (getParam k p).isSome) :
    getParam k (setParam k v p) = some v := by
  induction p with
  | nil => simp [getParam] at h
  | cons kv rest ih =>
    obtain ⟨k', v'⟩ := kv
    by_cases hk : k' = k
    · simp [setParam, getParam, hk]
    · have : (getParam k rest).isSome := by simpa [getParam, hk] using h
      simpa [setParam, getParam, hk] using ih this

theorem getParam_setParam_other (k k2 : String) (v : Int) (p : Params) (hne : k2 ≠ k) :
    getParam k2 (setParam k v p) = getParam k2 p := by
  induction p with
  | nil => rfl
  | cons kv rest ih =>
    obtain ⟨k', v'⟩ := kv
    by_cases hk : k' = k
    · subst hk
      have : ¬ k' = k2 := fun h => hne h.symm
      simp [setParam, getParam, this]
    · by_cases hk2 : k' = k2
      · subst hk2
        simp [setParam, getParam, hk]
      · simpa [setParam, getParam, hk, hk2] using ih

/-- `set_params(name__k = v)` then `get_params` gives `v` for that (possibly nested) name and leaves every
other key unchanged -/
theorem C15_params_roundtrip (k k2 : String) (v : Int) (p : Params) (h : (getParam k p).isSome) (hne : k2 ≠ k) :
    getParam k (setParam k v p) = some v ∧ getParam k2 (setParam k v p) = getParam k2 p :=
  ⟨getParam_setParam_same k v p h, getParam_setParam_other k k2 v p hne⟩

/-- setting a parameter to the value it already has is the identity (`set_params(**get_params())`) -/
theorem C15_set_get_id (k : String) (v : Int) (p : Params) (h : getParam k p = some v)
    (huniq : ∀ a ∈ p, ∀ b ∈ p, a.1 = b.1 → a = b) : setParam k v p = p := by
  induction p with
  | nil => rfl
  | cons kv rest ih =>
    obtain ⟨k', v'⟩ := kv
    by_cases hk : k' = k
    · subst hk
      have : v' = v := by simpa [getParam] using h
      simp [setParam, this]
    · have h' : getParam k rest = some v := by simpa [getParam, hk] using h
      simp only [setParam, hk, if_false]
      rw [ih h' (fun a ha b hb => huniq a (by simp [ha]) b (by simp [hb]))]

/-- **finding F-stop, as a theorem about the machine**: the stop flag is never reset, so there is a history
with one stop request after which a fit differs from a fresh fit whenever `Fit` reads the flag at all -/
theorem C15_stop_sticky_witness (w : World F) (d : D) (hw : w.stopFlag = false)
    (hFit : Fit w.params d true ≠ Fit w.params d false) :
    (run Fit Read w [.stop, .fit d]).fitted ≠ (run Fit Read w [.fit d]).fitted := by
  simp [run, step, hw, hFit]

/-! ### several instances, data arrays overwritten in place (`Pk/Estimators.lean`) -/
section proc
variable {D F : Type} (Fit : Params → D → Bool → F)

theorem pstep_insts_length_le (s : Proc D F) (op : POp D) : s.insts.length ≤ (pstep Fit s op).insts.length := by
  cases op with
  | fit a i =>
    simp only [pstep]
    cases s.heap[i]? <;> simp [modifyAt_length]
  | setParam a k v => simp [pstep, modifyAt_length]
  | overwrite i d => simp [pstep]
  | create p => simp [pstep]
  | clone a =>
    simp only [pstep]
    cases s.insts[a]? <;> simp

/-- **instances are independent, over whole histories**: a history none of whose operations is addressed to instance
`b` — fits and parameter changes of OTHER instances, constructions, clones, in-place overwrites of data arrays —
leaves instance `b` (parameters and fitted state) exactly as it was -/
theorem C15_instances_independent (s : Proc D F) (h : List (POp D)) (b : Nat) (hb : b < s.insts.length)
    (hh : ∀ op ∈ h, op.target ≠ some b) :
    (prun Fit s h).insts[b]? = s.insts[b]? := by
  induction h generalizing s with
  | nil => rfl
  | cons op rest ih =>
    simp only [prun]
    rw [ih (pstep Fit s op) (Nat.lt_of_lt_of_le hb (pstep_insts_length_le Fit s op))
      (fun o ho => hh o (by simp [ho]))]
    exact pstep_other Fit s op b hb (hh op (by simp))

/-- **a fit is a function of the current parameters and the current contents of the array**, after any history:
no decomposition, statistic or centre set survives from an earlier fit, from an earlier content of the same array
object, or from another instance -/
theorem C15_fit_by_value (s : Proc D F) (h : List (POp D)) (a i : Nat) (w : World F) (d : D)
    (ha : (prun Fit s h).insts[a]? = some w) (hi : (prun Fit s h).heap[i]? = some d) :
    (prun Fit s (h ++ [.fit a i])).insts[a]? = some { w with fitted := some (Fit w.params d w.stopFlag) } := by
  have happ : ∀ (s : Proc D F) (h1 h2 : List (POp D)), prun Fit s (h1 ++ h2) = prun Fit (prun Fit s h1) h2 := by
    intro s h1 h2
    induction h1 generalizing s with
    | nil => rfl
    | cons op rest ih => simp [prun, ih]
  rw [happ]
  simp only [prun]
  exact pstep_fit Fit _ a i w d ha hi

/-- overwriting a data array in place changes no estimator, and the array then holds the new contents -/
theorem C15_overwrite (s : Proc D F) (i : Nat) (d : D) (hi : i < s.heap.length) :
    (pstep Fit s (.overwrite i d)).insts = s.insts ∧ (pstep Fit s (.overwrite i d)).heap[i]? = some d :=
  ⟨pstep_overwrite_insts Fit s i d, pstep_overwrite_heap Fit s i d hi⟩

/-- a clone has the parameters of its origin and no fitted state -/
theorem C15_clone_fresh (s : Proc D F) (a : Nat) (w : World F) (ha : s.insts[a]? = some w) :
    (pstep Fit s (.clone a)).insts[s.insts.length]?
      = some { params := w.params, fitted := none, stopFlag := w.stopFlag } :=
  pstep_clone Fit s a w ha

/-- non-vacuity: two instances, one array; instance 0 is fitted, the array is overwritten, instance 1 is fitted on
it and instance 0 re-fitted: instance 0 holds the fit of the NEW contents, instance 1 likewise -/
example :
    let Fit : Params → Int → Bool → Int := fun p d _ => d + (getParam "k" p).getD 0
    let s : Proc Int Int := { heap := [10], insts := [⟨[("k", 1)], none, false⟩, ⟨[("k", 2)], none, false⟩] }
    ((prun Fit s [.fit 0 0, .overwrite 0 20, .fit 1 0, .fit 0 0]).insts.map (·.fitted)) = [some 21, some 22] := by
  decide

end proc


section snapshot
variable {D F R : Type} (Fit : Params → D → Bool → F) (Read : F → D → R)

def noFit : List (Op D) → Bool
  | [] => true
  | .fit _ :: _ => false
  | _ :: rest => noFit rest

/-- **the fitted state is a snapshot**: whatever happens after a fit short of another fit - parameters edited through
`set_params` (nested names, replaced steps), reads, clones, stop requests - leaves the fitted state exactly as the fit
left it … -/
theorem C15_fitted_snapshot (w : World F) (h : List (Op D)) (hn : noFit h = true) :
    (run Fit Read w h).fitted = w.fitted := by
  induction h generalizing w with
  | nil => rfl
  | cons op rest ih =>
    cases op <;> simp_all [run, step, noFit]

/-- … so every read-only call (`transform`, `lift*`, `retract*`, `predict*`, feature names) answers after those edits
what it answered before them -/
theorem C15_reads_after_edits (w : World F) (h : List (Op D)) (hn : noFit h = true) (x : D) :
    (step Fit Read (run Fit Read w h) (.read x)).2 = (step Fit Read w (.read x)).2 := by
  simp only [step, C15_fitted_snapshot Fit Read w h hn]

example : noFit ([.setParam "dl__n_delays_state" 4, .read (0 : Nat), .clone] : List (Op Nat)) = true := rfl
end snapshot

section readval
variable {D F R : Type} (Fit : Params → D → Bool → F) (Read : F → D → R)

/-- a read-only call (`transform`, `lift*`, `predict*`, …) of instance `a` on array `i`: a function of the fitted state
and of the array's CURRENT contents -/
def pread (s : Proc D F) (a i : Nat) : Option R :=
  match s.insts[a]?, s.heap[i]? with
  | some w, some d => w.fitted.map fun f => Read f d
  | _, _ => none

/-- **reads are by value of the current contents**: after the caller has overwritten array `i` in place (the same
object, refilled as a buffer), a read of it answers for the NEW contents - nothing may be remembered per array object -/
theorem C15_read_by_value (s : Proc D F) (a i : Nat) (w : World F) (d : D) (ha : s.insts[a]? = some w)
    (hi : i < s.heap.length) :
    pread Read (pstep Fit s (.overwrite i d)) a i = w.fitted.map fun f => Read f d := by
  unfold pread
  rw [pstep_overwrite_insts, ha, pstep_overwrite_heap Fit s i d hi]

/-- … and an overwrite of ANOTHER array, or a read in between, changes no answer -/
theorem C15_read_other_array (s : Proc D F) (a i j : Nat) (d : D) (hne : i ≠ j) :
    pread Read (pstep Fit s (.overwrite j d)) a i = pread Read s a i := by
  unfold pread
  rw [pstep_overwrite_insts]
  simp only [pstep]
  rw [modifyAt_get_ne _ j i s.heap hne]

end readval

end Pk.C15
