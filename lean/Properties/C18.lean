import Pk.Centers
import Pk.Streams
import Pk.KindLaws
import Pk.Numeric
import Mathlib.Algebra.Order.Field.Rat
import Mathlib.Tactic.Linarith
import Mathlib.Tactic.Positivity
import Mathlib.Tactic.FieldSimp
import Mathlib.Tactic.Ring
/-! # C18 — RBF features and generated centres follow their definitions

Exact-rational model of the range computation, the grid, and range scaling (`Pk/Centers.lean`), the layout of
`RbfLiftingFn` (the generic `rbf` kind), the stream model of per-feature seeding (finding F-unif), and facts about
the `Float` table of radial functions used in the correspondence.  Sampling distributions of the random generators
are trusted.  Property theorems only. -/
namespace Pk.C18
open Pk.Centers

theorem le_foldl_max (l : List Rat) (a : Rat) : a ≤ l.foldl max a := by
  induction l generalizing a with
  | nil => exact le_refl _
  | cons b t ih => exact le_trans (le_max_left a b) (ih (max a b))

theorem foldl_max_ge (l : List Rat) (a x : Rat) (h : x ∈ l) : x ≤ l.foldl max a := by
  induction l generalizing a with
  | nil => simp at h
  | cons b t ih =>
    simp only [List.foldl_cons]
    rcases List.mem_cons.mp h with rfl | h
    · exact le_trans (le_max_right a x) (le_foldl_max t _)
    · exact ih _ h

theorem foldl_min_le' (l : List Rat) (a : Rat) : l.foldl min a ≤ a := by
  induction l generalizing a with
  | nil => exact le_refl _
  | cons b t ih => exact le_trans (ih (min a b)) (min_le_left a b)

theorem foldl_min_le (l : List Rat) (a x : Rat) (h : x ∈ l) : l.foldl min a ≤ x := by
  induction l generalizing a with
  | nil => simp at h
  | cons b t ih =>
    simp only [List.foldl_cons]
    rcases List.mem_cons.mp h with rfl | h
    · exact le_trans (foldl_min_le' t _) (min_le_right a x)
    · exact ih _ h

/-- the plain range contains every data value of the feature -/
theorem C18_range_contains (c : List Rat) (x : Rat) (hx : x ∈ c) : lmin c ≤ x ∧ x ≤ lmax c := by
  unfold lmin lmax
  exact ⟨foldl_min_le c _ x hx, foldl_max_ge c _ x hx⟩

/-- the symmetric range is `(-m, m)` with `|x| ≤ m` for every data value -/
theorem C18_symmetric_range (c : List Rat) (x : Rat) (hx : x ∈ c) :
    -(lmax (c.map rabs)) ≤ x ∧ x ≤ lmax (c.map rabs) := by
  have h := (C18_range_contains (c.map rabs) (rabs x) (List.mem_map_of_mem hx)).2
  unfold rabs at h ⊢
  split at h <;> constructor <;> linarith

/-- range-scaled points (`UniformRandomCenters`, `QmcCenters`): `0 ≤ u ≤ 1 → lo ≤ lo + u (hi − lo) ≤ hi` -/
theorem C18_scaled_in_range (lo hi u : Rat) (h : lo ≤ hi) (hu0 : 0 ≤ u) (hu1 : u ≤ 1) :
    lo ≤ lo + u * (hi - lo) ∧ lo + u * (hi - lo) ≤ hi := by
  have hd : 0 ≤ hi - lo := by linarith
  constructor
  · nlinarith [mul_nonneg hu0 hd]
  · nlinarith [mul_nonneg (sub_nonneg.mpr hu1) hd]

/-- every `linspace` point lies in the range, and there are exactly `k` of them -/
theorem C18_linspace_in_range (lo hi : Rat) (k : Nat) (h : lo ≤ hi) :
    (linspace lo hi k).length = k ∧ ∀ p ∈ linspace lo hi k, lo ≤ p ∧ p ≤ hi := by
  unfold linspace
  by_cases hk : k ≤ 1
  · simp only [hk, if_true]
    by_cases h0 : k = 0
    · simp [h0]
    · have : k = 1 := by omega
      simp [this, h]
  · simp only [hk, if_false]
    refine ⟨by simp, ?_⟩
    intro p hp
    simp only [List.mem_map, List.mem_range] at hp
    obtain ⟨i, hi', rfl⟩ := hp
    have hk1 : (0 : Rat) < ((k - 1 : Nat) : Rat) := by
      have : 0 < k - 1 := by omega
      exact_mod_cast this
    have hi1 : (i : Rat) ≤ ((k - 1 : Nat) : Rat) := by
      have : i ≤ k - 1 := by omega
      exact_mod_cast this
    have hi0 : (0 : Rat) ≤ (i : Rat) := by positivity
    have hu : (i : Rat) * (hi - lo) / ((k - 1 : Nat) : Rat) = ((i : Rat) / ((k - 1 : Nat) : Rat)) * (hi - lo) := by
      field_simp
    rw [hu]
    exact C18_scaled_in_range lo hi _ h (div_nonneg hi0 hk1.le) ((div_le_one hk1).mpr hi1)

theorem mem_cart (ls : List (List Rat)) (pt : List Rat) : pt ∈ cart ls ↔ List.Forall₂ (· ∈ ·) pt ls := by
  induction ls generalizing pt with
  | nil => simp [cart]
  | cons l rest ih =>
    simp only [cart, List.mem_flatMap, List.mem_map]
    constructor
    · rintro ⟨a, ha, t, ht, rfl⟩
      exact List.Forall₂.cons ha ((ih t).mp ht)
    · intro h
      cases h with
      | cons ha ht => exact ⟨_, ha, _, (ih _).mpr ht, rfl⟩

theorem length_cart (ls : List (List Rat)) : (cart ls).length = (ls.map List.length).prod := by
  induction ls with
  | nil => simp [cart]
  | cons l rest ih =>
    simp only [cart, List.map_cons, List.prod_cons]
    rw [Pk.length_flatMap_const l _ (cart rest).length (by intro b _; simp), ih]

/-- the grid in `meshgrid` order contains exactly the points of the Cartesian product … -/
theorem mem_grid (ls : List (List Rat)) (pt : List Rat) : pt ∈ grid ls ↔ List.Forall₂ (· ∈ ·) pt ls := by
  match ls with
  | [] => simpa [grid] using mem_cart [] pt
  | [l] => simpa [grid] using mem_cart [l] pt
  | l0 :: l1 :: rest =>
    simp only [grid, List.mem_flatMap, List.mem_map]
    constructor
    · rintro ⟨a1, h1, a0, h0, t, ht, rfl⟩
      exact List.Forall₂.cons h0 (List.Forall₂.cons h1 ((mem_cart rest t).mp ht))
    · intro h
      cases h with
      | cons h0 h' =>
        cases h' with
        | cons h1 ht => exact ⟨_, h1, _, h0, _, (mem_cart rest _).mpr ht, rfl⟩

/-- … and has as many points as the product of the per-feature counts: with `k` points per feature and `n` features,
`k^n` centres, each a choice of one `linspace` point per feature -/
theorem C18_grid_complete (ls : List (List Rat)) :
    (grid ls).length = (ls.map List.length).prod ∧ ∀ pt, pt ∈ grid ls ↔ List.Forall₂ (· ∈ ·) pt ls := by
  refine ⟨?_, mem_grid ls⟩
  match ls with
  | [] => simp [grid, cart]
  | [l] => simpa [grid] using length_cart [l]
  | l0 :: l1 :: rest =>
    simp only [grid, List.map_cons, List.prod_cons]
    rw [Pk.length_flatMap_const l1 _ (l0.length * (cart rest).length) (by
      intro b _
      rw [Pk.length_flatMap_const l0 _ (cart rest).length (by intro c _; simp)])]
    rw [length_cart]; ring

/-- every grid centre has one coordinate per feature: shape `(n_centers_, n_features)` -/
theorem C18_grid_shape (ls : List (List Rat)) (pt : List Rat) (h : pt ∈ grid ls) : pt.length = ls.length :=
  ((mem_grid ls pt).mp h).length_eq

/-- `RbfLiftingFn`: the flat lifted row is state, input, then one feature per centre — in the input-dependent
block whenever there is an input (C02) -/
theorem C18_rbf_layout {α : Type} (ops : Ops α) (ok : α → Prop) (id n : Nat) (r : Row α) :
    ((rowFn ops ok (.rbf id n)).f r).x ++ ((rowFn ops ok (.rbf id n)).f r).u
      = r.x ++ r.u ++ (List.range n).map (fun c => ops.rbf id c r.x r.u)
    ∧ (r.u.length ≠ 0 → ((rowFn ops ok (.rbf id n)).f r).x = r.x) := by
  simp only [rowFn]
  split
  · rename_i h0
    have : r.u = [] := List.eq_nil_of_length_eq_zero h0
    simp [this]
  · simp

/-- the default offset is non-zero only for `thin_plate` (the function undefined at radius 0) -/
theorem C18_default_offset (k : Pk.Numeric.Rbf) :
    Pk.Numeric.defaultOffset k ≠ 0.0 ↔ k = .thinPlate := by
  cases k <;> simp [Pk.Numeric.defaultOffset] <;> decide

open Pk.Streams in
/-- **finding F-unif as a theorem about the stream model**: `UniformRandomCenters` draws each feature with a separate
`rvs(random_state=seed)` call; with an integer seed every feature reads the same stream positions `0..n_centers-1`,
so all features get the same unit-interval samples (centres on the diagonal of the box); with a `RandomState`
instance the second feature reads the following positions -/
theorem C18_uniform_streams_int_witness (nCenters : Nat) :
    positions .int 0 [nCenters, nCenters] = [List.range nCenters, List.range nCenters]
    ∧ positions .instance 0 [nCenters, nCenters]
        = [List.range nCenters, (List.range nCenters).map (nCenters + ·)] := by
  simp [positions]

end Pk.C18
