import PkLA.Dissipativity
/-! # C11 — Dissipativity-constrained fits are dissipative and not vacuous

Over `Matrix _ _ ℝ`.  The LMI of `LmiEdmdDissipativityConstr` implies the dissipation inequality for the
requested supply rate with the returned storage matrix; for the default supply rate this is an ℓ2 gain of at
most one.  The second clause of the property fails on the unchanged tree for *every* data set with default
arguments: the first sub-problem (initial `P = I`) is infeasible — `C11_first_problem_infeasible`
(finding F-diss).  Property theorems only. -/
namespace Pk.C11
open Matrix PkLA

variable {n m k : Type} [Fintype n] [Fintype m] [Fintype k] [DecidableEq n] [DecidableEq m] [DecidableEq k]

/-- the dissipation inequality: along every step, the storage `V x = xᵀPx` grows by less than the supply -/
theorem C11_dissipation (P A : Matrix n n ℝ) (B : Matrix n m ℝ) (C : Matrix k n ℝ)
    (X11 : Matrix k k ℝ) (X12 : Matrix k m ℝ) (X22 : Matrix m m ℝ)
    (h : (dissLMI P A B C X11 X12 X22).PosDef) (x : n → ℝ) (u : m → ℝ) :
    V P (A *ᵥ x + B *ᵥ u) - V P x ≤ supply X11 X12 X22 (C *ᵥ x) u := by
  by_cases hne : x ≠ 0 ∨ u ≠ 0
  · exact le_of_lt (diss_step P A B C X11 X12 X22 h x u hne)
  · have hne' : ¬(x ≠ 0 ∨ u ≠ 0) := hne
    rw [not_or, not_not, not_not] at hne'
    obtain ⟨hx, hu⟩ := hne'
    subst hx; subst hu
    simp [V, supply]

/-- trajectory of `x⁺ = Ax + Bu` from `x₀` -/
def traj (A : Matrix n n ℝ) (B : Matrix n m ℝ) (x0 : n → ℝ) (u : ℕ → m → ℝ) : ℕ → n → ℝ
  | 0 => x0
  | t+1 => A *ᵥ traj A B x0 u t + B *ᵥ u t

/-- summed over any horizon: storage change ≤ total supply -/
theorem C11_sum (P A : Matrix n n ℝ) (B : Matrix n m ℝ) (C : Matrix k n ℝ)
    (X11 : Matrix k k ℝ) (X12 : Matrix k m ℝ) (X22 : Matrix m m ℝ)
    (h : (dissLMI P A B C X11 X12 X22).PosDef) (x0 : n → ℝ) (u : ℕ → m → ℝ) (N : ℕ) :
    V P (traj A B x0 u N) - V P x0
      ≤ (Finset.range N).sum fun t => supply X11 X12 X22 (C *ᵥ traj A B x0 u t) (u t) := by
  induction N with
  | zero => simp [traj]
  | succ t ih =>
    rw [Finset.sum_range_succ]
    have := C11_dissipation P A B C X11 X12 X22 h (traj A B x0 u t) (u t)
    simp only [traj]
    linarith

theorem posDef_storage (P A : Matrix n n ℝ) (B : Matrix n m ℝ) (C : Matrix k n ℝ)
    (X11 : Matrix k k ℝ) (X12 : Matrix k m ℝ) (X22 : Matrix m m ℝ)
    (h : (dissLMI P A B C X11 X12 X22).PosDef) (x : n → ℝ) : 0 ≤ V P x := by
  by_cases hx : x = 0
  · subst hx; simp [V]
  · have hz : (Sum.elim (Sum.elim (0 : n → ℝ) (0 : m → ℝ)) x : (n ⊕ m) ⊕ n → ℝ) ≠ 0 := by
      intro h0; apply hx; funext i; simpa using congrFun h0 (Sum.inr i)
    have key := h.dotProduct_mulVec_pos hz
    simp only [dissLMI, star_trivial, fromBlocks_mulVec, sumElim_dotProduct_sumElim, fromRows_mulVec,
      fromCols_mulVec, Sum.elim_comp_inl, Sum.elim_comp_inr, mulVec_zero, zero_dotProduct, dotProduct_zero,
      add_zero, zero_add, Sum.elim_zero_zero] at key
    exact le_of_lt (by simpa [V] using key)

/-- default supply rate `Ξ = diag(I, −I)` with `C = I`: from rest, the output energy never exceeds the
input energy — ℓ2 gain at most one, over every horizon -/
theorem C11_default_gain (P A : Matrix n n ℝ) (B : Matrix n m ℝ)
    (h : (dissLMI P A B (1 : Matrix n n ℝ) 1 (0 : Matrix n m ℝ) (-1)).PosDef) (u : ℕ → m → ℝ) (N : ℕ) :
    (Finset.range N).sum (fun t => traj A B 0 u t ⬝ᵥ traj A B 0 u t)
      ≤ (Finset.range N).sum (fun t => u t ⬝ᵥ u t) := by
  have hs := C11_sum P A B 1 1 0 (-1) h 0 u N
  have hpos := posDef_storage P A B 1 1 0 (-1) h (traj A B 0 u N)
  have h0 : V P (0 : n → ℝ) = 0 := by simp [V]
  have hsup : ∀ t, supply (1 : Matrix n n ℝ) (0 : Matrix n m ℝ) (-1) ((1 : Matrix n n ℝ) *ᵥ traj A B 0 u t) (u t)
      = u t ⬝ᵥ u t - traj A B 0 u t ⬝ᵥ traj A B 0 u t := by
    intro t; simp [supply, neg_mulVec, dotProduct_neg]; ring
  simp only [hsup, Finset.sum_sub_distrib] at hs
  linarith

/-- **finding F-diss as a theorem**: with the default supply rate and the initial storage `P = I` the first
sub-problem has no strictly feasible point, for every `A`, `B` — i.e. for every data set: its (1,1) block is
`P − CᵀΞ₁₁C = I − I = 0`.  The default estimator therefore always stops at "Unable to solve problem_a" and
returns the all-zero Koopman matrix. -/
theorem C11_first_problem_infeasible [Nonempty n] (A : Matrix n n ℝ) (B : Matrix n m ℝ) :
    ¬ (dissLMI (1 : Matrix n n ℝ) A B (1 : Matrix n n ℝ) 1 (0 : Matrix n m ℝ) (-1)).PosDef := by
  intro h
  obtain ⟨i⟩ := (inferInstance : Nonempty n)
  let e : n → ℝ := Pi.single i 1
  have he : e ≠ 0 := by
    intro h0; have := congrFun h0 i; simp [e] at this
  have hz : (Sum.elim (Sum.elim e (0 : m → ℝ)) (0 : n → ℝ) : (n ⊕ m) ⊕ n → ℝ) ≠ 0 := by
    intro h0; apply he; funext j; simpa using congrFun h0 (Sum.inl (Sum.inl j))
  have key := h.dotProduct_mulVec_pos hz
  simp [dissLMI, fromBlocks_mulVec, fromRows_mulVec, fromCols_mulVec, sumElim_dotProduct_sumElim] at key

end Pk.C11
