import Pk.Tsvd
import PkLA.Truncation
import PkLA.EckartYoung
import PkLA.SvdExists
import PkLA.SvUnique
import Mathlib.Algebra.Order.Field.Rat
/-! # C14 — the retained rank obeys the truncation rule

Theorems about `fitRank` / `cutoffRank` (`Pk/Tsvd.lean`) for every list of singular values.
Eckart–Young optimality of the leading triplets IS proved (spectral and Frobenius form, `C14_best_spectral`,
`C14_best_frobenius`) for any factorisation with orthonormal columns; that the factors LAPACK returns are such a
factorisation is validated numerically by the check, not proved.  Property theorems only. -/
namespace Pk.C14
open Pk.Tsvd

def NonIncreasing (sig : List Rat) : Prop := ∀ i j, i ≤ j → j < sig.length → sig.getD j 0 ≤ sig.getD i 0

/-- economy keeps everything -/
theorem C14_economy (sig : List Rat) (h : sig ≠ []) : fitRank .economy none sig = .rank sig.length := by
  have : sig.length ≠ 0 := by simpa using h
  simp [fitRank, this]

/-- rank `r` keeps exactly `min(r, full)` -/
theorem C14_rank_rule (r : Nat) (sig : List Rat) (hr : 0 < r) (h : sig ≠ []) :
    fitRank .rank (some (r : Rat)) sig = .rank (min r sig.length) := by
  have h1 : sig.length ≠ 0 := by simpa using h
  have h2 : ¬ ((r : Rat) < 0) := by simp
  have h3 : min r sig.length ≠ 0 := by omega
  simp [fitRank, h3]

theorem find_spec (c : Rat) (sig : List Rat) :
    (∀ i, cutoffRank c sig = i + 1 → c < sig.getD i 0 ∧ i < sig.length ∧ ∀ j, i < j → j < sig.length → ¬ c < sig.getD j 0)
    ∧ (cutoffRank c sig = 0 → ∀ j, j < sig.length → ¬ c < sig.getD j 0) := by
  unfold cutoffRank
  cases hf : (List.range sig.length).reverse.find? (fun i => decide (c < sig.getD i 0)) with
  | none =>
    refine ⟨by intro i h; simp at h, ?_⟩
    intro _ j hj
    have := List.find?_eq_none.mp hf j (by simp [hj])
    simpa using this
  | some i =>
    refine ⟨?_, by intro h; simp at h⟩
    intro i' h
    have hi : i = i' := by simpa using h
    subst hi
    have h1 := List.find?_some hf
    have hmem := List.mem_of_find?_eq_some hf
    simp only [List.mem_reverse, List.mem_range] at hmem
    refine ⟨by simpa using h1, hmem, ?_⟩
    intro j hij hj hc
    -- j occurs before i in the reversed range and satisfies the predicate: contradiction with find? = some i
    rw [List.find?_eq_some_iff_append] at hf
    obtain ⟨_, as, bs, hab, hnone⟩ := hf
    have hjmem : j ∈ (List.range sig.length).reverse := by simp [hj]
    rw [hab] at hjmem
    simp only [List.mem_append, List.mem_cons] at hjmem
    rcases hjmem with hja | rfl | hjb
    · have := hnone j hja
      simp only [Bool.not_eq_true', decide_eq_false_iff_not] at this
      exact this hc
    · omega
    · -- elements after i in the reversed range are smaller than i
      have hsorted : ((List.range sig.length).reverse).Pairwise (· > ·) := by
        rw [List.pairwise_reverse]; exact List.pairwise_lt_range.imp (fun h => h)
      rw [hab] at hsorted
      have := (List.pairwise_append.mp hsorted).2.1
      have := (List.pairwise_cons.mp this).1 j hjb
      omega

/-- cutoff: every kept value exceeds the cutoff and every discarded one does not (singular values sorted) -/
theorem C14_cutoff (c : Rat) (sig : List Rat) (hs : NonIncreasing sig) :
    (∀ i, i < cutoffRank c sig → c < sig.getD i 0) ∧ (∀ i, cutoffRank c sig ≤ i → i < sig.length → sig.getD i 0 ≤ c) := by
  have hspec := find_spec c sig
  cases hr : cutoffRank c sig with
  | zero =>
    refine ⟨by intro i h; omega, ?_⟩
    intro i _ hi
    exact not_lt.mp (hspec.2 hr i hi)
  | succ k =>
    obtain ⟨hk, hkl, hafter⟩ := hspec.1 k hr
    refine ⟨?_, ?_⟩
    · intro i hi
      exact lt_of_lt_of_le hk (hs i k (by omega) hkl)
    · intro i hki hi
      exact not_lt.mp (hafter i (by omega) hi)

/-- the retained rank never exceeds the number of singular values -/
theorem C14_cutoff_le (c : Rat) (sig : List Rat) : cutoffRank c sig ≤ sig.length := by
  have hspec := find_spec c sig
  cases hr : cutoffRank c sig with
  | zero => omega
  | succ k => have := (hspec.1 k hr).2.1; omega

/-- equivalently: the retained rank is the number of singular values exceeding the cutoff -/
theorem C14_cutoff_count (c : Rat) (sig : List Rat) (hs : NonIncreasing sig) :
    cutoffRank c sig = (sig.filter (fun s => decide (c < s))).length := by
  have hle := C14_cutoff_le c sig
  obtain ⟨hkeep, hdrop⟩ := C14_cutoff c sig hs
  have hsplit : sig = sig.take (cutoffRank c sig) ++ sig.drop (cutoffRank c sig) := (List.take_append_drop _ _).symm
  have h1 : (sig.take (cutoffRank c sig)).filter (fun s => decide (c < s)) = sig.take (cutoffRank c sig) := by
    apply List.filter_eq_self.mpr
    intro s hs'
    obtain ⟨i, hi, rfl⟩ := List.getElem_of_mem hs'
    simp only [List.length_take] at hi
    have := hkeep i (by omega)
    rw [List.getD_eq_getElem?_getD, List.getElem?_eq_getElem (by omega)] at this
    simpa [List.getElem_take] using this
  have h2 : (sig.drop (cutoffRank c sig)).filter (fun s => decide (c < s)) = [] := by
    apply List.filter_eq_nil_iff.mpr
    intro s hs'
    obtain ⟨i, hi, rfl⟩ := List.getElem_of_mem hs'
    simp only [List.length_drop] at hi
    have := hdrop (cutoffRank c sig + i) (by omega) (by omega)
    rw [List.getD_eq_getElem?_getD, List.getElem?_eq_getElem (by omega)] at this
    simp only [List.getElem_drop, decide_eq_true_eq, not_lt]
    simpa using this
  conv => rhs; rw [hsplit, List.filter_append, h1, h2, List.append_nil, List.length_take]
  omega

/-- the three factors are cut at the same index, and the kept singular values are the leading ones:
still sorted, and `take` commutes with everything -/
theorem C14_slices_consistent (r : Nat) (sig : List Rat) (hs : NonIncreasing sig) :
    NonIncreasing (truncate r sig) ∧ (truncate r sig).length = min r sig.length := by
  refine ⟨?_, by simp [truncate]⟩
  intro i j hij hj
  simp only [truncate, List.length_take] at hj
  have h1 : (sig.take r).getD j 0 = sig.getD j 0 := by
    simp only [List.getD_eq_getElem?_getD, List.getElem?_take]; simp [show j < r by omega]
  have h2 : (sig.take r).getD i 0 = sig.getD i 0 := by
    simp only [List.getD_eq_getElem?_getD, List.getElem?_take]; simp [show i < r by omega]
  simp only [truncate, h1, h2]
  exact hs i j hij (by omega)

/-- a rule that retains nothing makes `fit` raise (from its statistics line) -/
theorem C14_rank_zero_raises (c : Rat) (sig : List Rat) (hc : 0 ≤ c) (h : cutoffRank c sig = 0) :
    fitRank .cutoff (some c) sig = .valueError := by
  have : ¬ c < 0 := not_lt.mpr hc
  simp [fitRank, this, h]

/-- missing / negative parameter and unknown methods are rejected -/
theorem C14_validation (sig : List Rat) :
    fitRank .cutoff none sig = .valueError ∧ fitRank .rank none sig = .valueError
    ∧ fitRank .knownNoise none sig = .valueError ∧ fitRank .invalid none sig = .valueError
    ∧ (∀ p : Rat, p < 0 → ∀ m, fitRank m (some p) sig = .valueError) := by
  refine ⟨by simp [fitRank], by simp [fitRank], by simp [fitRank], by simp [fitRank], ?_⟩
  intro p hp m
  simp [fitRank, hp]

example : cutoffRank (1/2) [3, 2, 1/2, 1/4] = 2 ∧ fitRank .cutoff (some (1/2)) [3, 2, 1/2, 1/4] = .rank 2 := by
  decide +kernel

/-! ### the factors -/
section factors
open Matrix PkLA
variable {m n a b : Type} [Fintype m] [Fintype n] [Fintype a] [Fintype b] [DecidableEq a] [DecidableEq b]

/-- cutting all three factors of a valid SVD `X = Q diag(σ) Zᵀ` at the same index set keeps a valid factorisation
(orthonormal columns on both sides) … -/
theorem C14_kept_orthonormal (Q : Matrix m (a ⊕ b) ℝ) (Z : Matrix n (a ⊕ b) ℝ) (hQ : Qᵀ * Q = 1) (hZ : Zᵀ * Z = 1) :
    (keepL Q)ᵀ * keepL Q = 1 ∧ (keepL Z)ᵀ * keepL Z = 1 :=
  ⟨orth_keep Q hQ, orth_keep Z hZ⟩

/-- … whose product differs from `X` by exactly the discarded triplets, with squared Frobenius error `Σ_discarded σ²`
(optimality among ALL matrices of that rank: `C14_best_frobenius`, `C14_best_spectral` below) -/
theorem C14_residual (Q : Matrix m (a ⊕ b) ℝ) (Z : Matrix n (a ⊕ b) ℝ) (s : a ⊕ b → ℝ)
    (hQ : Qᵀ * Q = 1) (hZ : Zᵀ * Z = 1) :
    Q * diagonal s * Zᵀ - keepL Q * diagonal (s ∘ Sum.inl) * (keepL Z)ᵀ
        = dropL Q * diagonal (s ∘ Sum.inr) * (dropL Z)ᵀ
    ∧ fro2 (Q * diagonal s * Zᵀ - keepL Q * diagonal (s ∘ Sum.inl) * (keepL Z)ᵀ) = ∑ k : b, s (Sum.inr k) ^ 2 :=
  truncation_residual Q Z s hQ hZ

/-- **Eckart–Young–Mirsky, Frobenius norm**: if the kept singular values are the leading ones
(`σ_discarded ≤ σ_kept`, all `σ ≥ 0`), NO matrix `B` of rank at most the number of kept triplets is closer to
`X = Q diag(σ) Zᵀ` than the truncation `Q_a diag(σ_a) Z_aᵀ` that `Tsvd` returns -/
theorem C14_best_frobenius (Q : Matrix m (a ⊕ b) ℝ) (Z : Matrix n (a ⊕ b) ℝ) (s : a ⊕ b → ℝ)
    (hQ : Qᵀ * Q = 1) (hZ : Zᵀ * Z = 1) (hs0 : ∀ j, 0 ≤ s j)
    (hsort : ∀ (i : a) (k : b), s (Sum.inr k) ≤ s (Sum.inl i))
    (B : Matrix m n ℝ) (hB : B.rank ≤ Fintype.card a) :
    fro2 (Q * diagonal s * Zᵀ - keepL Q * diagonal (s ∘ Sum.inl) * (keepL Z)ᵀ)
      ≤ fro2 (Q * diagonal s * Zᵀ - B) :=
  eckart_young_frobenius_optimal Q Z s hQ hZ hs0 hsort B hB

/-- **Eckart–Young, spectral norm**: the truncation has rank at most `|a|`, its error operator is bounded by the
largest discarded singular value `σ_{k0}`, and every competitor of rank at most `|a|` errs by at least that much
on some vector -/
theorem C14_best_spectral (Q : Matrix m (a ⊕ b) ℝ) (Z : Matrix n (a ⊕ b) ℝ) (s : a ⊕ b → ℝ)
    (hQ : Qᵀ * Q = 1) (hZ : Zᵀ * Z = 1) (k0 : b)
    (hkeep : ∀ i : a, s (Sum.inr k0) ≤ s (Sum.inl i))
    (hdrop : ∀ k : b, |s (Sum.inr k)| ≤ s (Sum.inr k0)) :
    (keepL Q * diagonal (s ∘ Sum.inl) * (keepL Z)ᵀ).rank ≤ Fintype.card a
    ∧ (∀ x : n → ℝ,
        ((Q * diagonal s * Zᵀ - keepL Q * diagonal (s ∘ Sum.inl) * (keepL Z)ᵀ) *ᵥ x)
          ⬝ᵥ ((Q * diagonal s * Zᵀ - keepL Q * diagonal (s ∘ Sum.inl) * (keepL Z)ᵀ) *ᵥ x)
        ≤ s (Sum.inr k0) ^ 2 * (x ⬝ᵥ x))
    ∧ (∀ B : Matrix m n ℝ, B.rank ≤ Fintype.card a → ∃ x : n → ℝ, x ≠ 0 ∧
        s (Sum.inr k0) ^ 2 * (x ⬝ᵥ x)
          ≤ ((Q * diagonal s * Zᵀ - B) *ᵥ x) ⬝ᵥ ((Q * diagonal s * Zᵀ - B) *ᵥ x)) :=
  eckart_young_spectral_optimal Q Z s hQ hZ k0 hkeep hdrop

/-- every real matrix has a (compact) singular value decomposition with orthonormal factors and positive singular
values, as many as its rank - so the hypotheses of the theorems above are satisfiable for every input of `Tsvd.fit`
(that LAPACK returns one is validated numerically, not proved) -/
theorem C14_svd_exists {m n : Type} [Fintype m] [Fintype n] [DecidableEq m] [DecidableEq n] (X : Matrix m n ℝ) :
    ∃ (r : Type) (_ : Fintype r) (_ : DecidableEq r) (Q : Matrix m r ℝ) (Z : Matrix n r ℝ) (s : r → ℝ),
      Qᵀ * Q = 1 ∧ Zᵀ * Z = 1 ∧ (∀ i, 0 < s i) ∧ X = Q * diagonal s * Zᵀ ∧ Fintype.card r = X.rank :=
  exists_svd_rank X

/-- … and its singular values are determined by the matrix: two compact SVDs of the same matrix have the same singular
values with multiplicities (they are the square roots of the non-zero roots of the characteristic polynomial of
`XᵀX`), so "the leading triplets", the retained rank of a cutoff rule and the nuclear norm `Σσ_i` are well defined -/
theorem C14_singular_values_unique {m n r r' : Type} [Fintype m] [Fintype n] [Fintype r] [Fintype r']
    [DecidableEq m] [DecidableEq n] [DecidableEq r] [DecidableEq r']
    (X : Matrix m n ℝ) (Q : Matrix m r ℝ) (Z : Matrix n r ℝ) (s : r → ℝ)
    (Q' : Matrix m r' ℝ) (Z' : Matrix n r' ℝ) (s' : r' → ℝ)
    (hQ : Qᵀ * Q = 1) (hZ : Zᵀ * Z = 1) (hs : ∀ i, 0 < s i) (hX : X = Q * diagonal s * Zᵀ)
    (hQ' : Q'ᵀ * Q' = 1) (hZ' : Z'ᵀ * Z' = 1) (hs' : ∀ j, 0 < s' j) (hX' : X = Q' * diagonal s' * Z'ᵀ) :
    Multiset.map s Finset.univ.val = Multiset.map s' Finset.univ.val :=
  singular_values_unique X Q Z s Q' Z' s' hQ hZ hs hX hQ' hZ' hs' hX'

end factors

end Pk.C14
