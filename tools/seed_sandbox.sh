#!/bin/sh
# usage: tools/seed_sandbox.sh <out file> <seed dirs...>
# Runs every quick check against every seed in an ISOLATED copy (${SR:-/tmp/sr}/verif + ${SR:-/tmp/sr}/repo worktree),
# so that work in /verif and /repo can continue meanwhile.
OUT=$1; shift
rm -rf ${SR:-/tmp/sr}/verif; mkdir -p ${SR:-/tmp/sr}
git -C /repo worktree remove --force ${SR:-/tmp/sr}/repo 2>/dev/null
git -C /repo worktree add -q --detach ${SR:-/tmp/sr}/repo HEAD || exit 2
rsync -a --exclude replays --exclude .git /verif/ ${SR:-/tmp/sr}/verif/
cd ${SR:-/tmp/sr}/verif
PROPS=${PROPS:-$(python3 -c "import json;print(' '.join(c['property_id'] for c in json.load(open('MANIFEST.json'))['checks']))")}
: > $OUT
for d in "$@"; do
  name=$(basename $d)
  echo "=== $name" >> $OUT
  git -C ${SR:-/tmp/sr}/repo apply $d/patch.diff || { echo "apply failed" >> $OUT; continue; }
  for p in $PROPS; do
    out=$(PYTHONPATH=${SR:-/tmp/sr}/repo ./check $p 2>&1); rc=$?
    echo "$name $p rc=$rc $(echo "$out" | grep -E 'VIOLATION' | head -1 | sed 's/replay=[^ ]*//')" >> $OUT
  done
  git -C ${SR:-/tmp/sr}/repo checkout -- .
done
git -C /repo worktree remove --force ${SR:-/tmp/sr}/repo
echo DONE >> $OUT
