#!/bin/sh
# run every claimed quick check against every seed in turn (modifies /repo temporarily!)
cd /verif
PROPS=${PROPS:-"C01 C02 C03 C04 C05 C06 C07 C08 C14 C15 C16 C19 C20"}
for d in "$@"; do
  name=$(basename $d)
  echo "=== $name"
  git -C /repo diff --quiet || { echo "/repo dirty"; exit 2; }
  git -C /repo apply $d/patch.diff || { echo "apply failed"; continue; }
  for p in $PROPS; do
    out=$(./check $p 2>&1); rc=$?
    echo "$name $p rc=$rc $(echo "$out" | grep -E 'VIOLATION' | head -1 | sed 's/replay=[^ ]*//')"
  done
  git -C /repo checkout -- .
done
