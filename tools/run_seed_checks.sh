#!/bin/sh
# usage: tools/run_seed_checks.sh <patch.diff> <name> props...   (applies to /repo, runs checks, undoes)
PATCH=$1; NAME=$2; shift 2
cd /verif
git -C /repo diff --quiet || { echo "/repo is dirty"; exit 2; }
git -C /repo apply $PATCH || exit 2
for p in "$@"; do
  out=$(./check $p 2>&1 | grep -E "VIOLATION|KNOWN|INFRA" | head -3)
  echo "$p rc=$? :: $out"
done | tee /tmp/eval_$NAME.checks
git -C /repo checkout -- .
