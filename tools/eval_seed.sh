#!/bin/sh
# usage: tools/eval_seed.sh <seed dir containing patch.diff demo.py meta.json> <name> [props...]
# Phase A (scratch worktree): demo passes clean, fails with the patch, full test suite unchanged.
# Phase B (/repo): apply, run the listed checks (default: all claimed), undo.
SEED=$1; NAME=$2; shift 2
OUT=/tmp/eval_$NAME; mkdir -p $OUT
WT=/tmp/wt_eval_$NAME
git -C /repo worktree remove --force $WT 2>/dev/null
git -C /repo worktree add -q --detach $WT HEAD || exit 2
( cd $WT && PYTHONPATH=$WT /venv/bin/python $SEED/demo.py >$OUT/demo_clean.log 2>&1; echo "demo_clean_rc=$?" >$OUT/summary )
git -C $WT apply $SEED/patch.diff || { echo "patch does not apply" >>$OUT/summary; exit 2; }
( cd $WT && PYTHONPATH=$WT /venv/bin/python $SEED/demo.py >$OUT/demo_patched.log 2>&1; echo "demo_patched_rc=$?" >>$OUT/summary )
if [ "$SKIP_TESTS" != "1" ]; then
( cd $WT && PYTHONPATH=$WT timeout 3000 /venv/bin/python -m pytest -q -p no:cacheprovider --timeout=900 --continue-on-collection-errors --junitxml=$OUT/junit.xml >$OUT/pytest.log 2>&1
  tail -1 $OUT/pytest.log >>$OUT/summary
  python3 - $OUT/junit.xml >>$OUT/summary <<'PY'
import json, sys, xml.etree.ElementTree as ET
sp=set(json.load(open('/root/.vp/BASELINE.json'))['stable_pass'])
passed=set()
for tc in ET.parse(sys.argv[1]).iter('testcase'):
    if not any(ch.tag in ('failure','error','skipped') for ch in tc):
        passed.add(f"{tc.get('classname')}::{tc.get('name')}")
print('stable_pass_lost=%d' % len(sp-passed), sorted(sp-passed)[:3])
PY
)
fi
git -C /repo worktree remove --force $WT
cat $OUT/summary
