#!/bin/sh
# usage: tools/eval_wave.sh <seed dir (patch.diff demo.py meta.json)> <name>
# Phase A (scratch worktree): demo passes clean / fails patched; full suite keeps the 1946 stable passes.
# Phase B (isolated copy of /verif + a second scratch worktree): every quick check against the patched tree.
# Nothing in /repo or /verif is touched, so several of these can run side by side.
SEED=$1; NAME=$2
OUT=/tmp/evalw_$NAME; rm -rf $OUT; mkdir -p $OUT
( SKIP_TESTS=$SKIP_TESTS /verif/tools/eval_seed.sh $SEED $NAME > $OUT/phaseA.txt 2>&1 ) &
SR=/tmp/srw_$NAME /verif/tools/seed_sandbox.sh $OUT/phaseB.txt $SEED > $OUT/phaseB.log 2>&1
wait
rm -rf /tmp/srw_$NAME
echo "== $NAME"; cat $OUT/phaseA.txt; grep -E "rc=[12]" $OUT/phaseB.txt
echo FINISHED
