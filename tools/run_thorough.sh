#!/bin/sh
cd /verif
for p in "$@"; do
  s=$(date +%s)
  out=$(./check $p --tier thorough 2>&1); rc=$?
  echo "$p rc=$rc $(( $(date +%s) - s ))s $(echo "$out" | grep -E 'VIOLATION|INFRA|Error' | head -2)"
done
