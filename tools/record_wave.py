#!/usr/bin/env python3
"""usage: tools/record_wave.py <eval dir with <seed>.txt from tools/eval_wave.sh> <history.json (seed -> text) or -> 
writes confirmed_by_me / detected_by / history into seeded/<seed>/meta.json and prints DESIGN table rows"""
import json, re, sys, os
ev, hist = sys.argv[1], (json.load(open(sys.argv[2])) if len(sys.argv) > 2 and sys.argv[2] != '-' else {})
for f in sorted(os.listdir(ev)):
    if not re.match(r'C\d\d-wave\d+\.txt$', f):
        continue
    seed = f[:-4]; own = seed[:3]
    lines = open(os.path.join(ev, f)).read().splitlines()
    conf = [l for l in lines if l.startswith(('demo_', 'stable_pass')) or ' passed' in l]
    det = {}
    for l in lines:
        m = re.match(rf'{seed} (C\d\d) rc=(\d)(.*)', l)
        if m and m.group(2) == '1':
            det[m.group(1)] = 'nfi' if 'no-failing-input-found' in m.group(3) else 'fi'
    mp = f'seeded/{seed}/meta.json'
    meta = json.load(open(mp))
    meta['confirmed_by_me'] = {'scratch_worktree': conf, 'how': 'tools/eval_wave.sh (tools/eval_seed.sh + all 20 quick checks in an isolated copy)'}
    meta['detected_by'] = (f'{own} ' + det[own]) if own in det else 'MISSED by own check'
    meta['also_flagged_by'] = ', '.join(f'{k} {v}' for k, v in sorted(det.items()) if k != own)
    if seed in hist:
        meta['history'] = hist[seed]
    json.dump(meta, open(mp, 'w'), indent=1)
    print(f"| {seed} | | | {meta['detected_by']}{(' (' + meta['history'] + ')') if meta.get('history') else ''} | {meta['also_flagged_by'] or '–'} |")
