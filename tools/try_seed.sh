#!/bin/sh
# usage: tools/try_seed.sh <seed dir> props...   -- run checks of /verif against a seed in a scratch worktree (PYTHONPATH override)
SEED=$1; shift
WT=/tmp/wt_try_$$
git -C /repo worktree add -q --detach $WT HEAD || exit 2
git -C $WT apply $SEED/patch.diff || { git -C /repo worktree remove --force $WT; exit 2; }
cd /verif
for p in "$@"; do
  out=$(PYTHONPATH=$WT ./check $p 2>&1); rc=$?
  echo "$(basename $SEED) $p rc=$rc $(echo "$out" | grep -E 'VIOLATION' | head -1 | sed 's/replay=[^ ]*//')"
done
git -C /repo worktree remove --force $WT
