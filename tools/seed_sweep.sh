#!/bin/sh
# run every quick check on the unchanged tree with many VERIF_SEED values; report any non-zero exit / VIOLATION
cd /verif
for s in "$@"; do
  for p in C01 C02 C03 C04 C05 C06 C07 C08 C09 C10 C11 C12 C13 C14 C15 C16 C17 C18 C19 C20; do
    out=$(VERIF_SEED=$s ./check $p 2>&1); rc=$?
    if [ $rc -ne 0 ] || echo "$out" | grep -q VIOLATION; then
      echo "seed=$s $p rc=$rc $(echo "$out" | grep -E 'VIOLATION|INFRA|Error' | head -2)"
    fi
  done
  echo "seed $s done"
done
